// Replay of finding C01 key=cutoff-apply-cleared-secondary: CutoffView::apply on a cleared
// Secondary{} (as left behind by KleinNishinaInteractor / the cut loop itself) in a problem that
// has apply_post_interaction=true but no positron: `invalid == ids.positron` is true, then
// energy(invalid id) reads id_to_index[-1] (ASan: heap-buffer-overflow, CutoffView.hh:131).
// Build: g++ <harness flags> -fsanitize=address this.cc <harness ldflags>   (tools/checks/c01.py --replay)
#include <iostream>
#include "celeritas/SimpleTestBase.hh"
#include "celeritas/phys/CutoffParams.hh"
#include "celeritas/phys/CutoffView.hh"
#include "celeritas/phys/ParticleParams.hh"
#include "celeritas/mat/MaterialParams.hh"
#include "celeritas/phys/PDGNumber.hh"
using namespace celeritas;
struct F : test::SimpleTestBase { void TestBody() override {}
  SPConstCutoff build_cutoff() override {
    using namespace units;
    CutoffParams::Input input; input.materials=this->material(); input.particles=this->particle();
    input.cutoffs={{pdg::gamma(),{{MevEnergy{0.01},0.1},{MevEnergy{100},100}}},{pdg::electron(),{{MevEnergy{1000},1000},{MevEnergy{1000},1000}}}};
    input.apply_post_interaction=true; return std::make_shared<CutoffParams>(std::move(input)); } };
int main(){ F f; auto c=f.cutoff(); auto const& r=c->host_ref();
  std::cout<<"ids "<<r.ids.gamma.unchecked_get()<<" "<<r.ids.electron.unchecked_get()<<" "<<r.ids.positron.unchecked_get()<<" id_to_index size "<<r.id_to_index.size()<<"\n";
  CutoffView v(r, MaterialId{0}); Secondary s{}; std::cout<<"sec pid "<<s.particle_id.unchecked_get()<<std::endl; bool b=v.apply(s); std::cout<<"apply(invalid)="<<b<<"\n"; }
