// Shared helpers for the H3 (stepping loop) harnesses gather.cc (C17), repro.cc (C06) and
// streams.cc (C07): programmatic problems from the repository's own test fixtures
// (SimpleTestBase: Compton-only gammas in an Al box; MockTestBase: mock physics with
// continuous loss in three spheres), a CoreParams built exactly as GlobalTestBase::build_core
// does but with a configurable number of streams / track order / status checker, deterministic
// primaries, an all-field step recorder and small printing utilities.
#pragma once
#include <algorithm>
#include <cmath>
#include <cstdint>
#include <cstdlib>
#include <map>
#include <memory>
#include <string>
#include <vector>

#include "corecel/data/AuxParamsRegistry.hh"
#include "corecel/io/Logger.hh"
#include "corecel/io/OutputRegistry.hh"
#include "corecel/sys/ActionRegistry.hh"
#include "geocel/GeoParamsInterface.hh"
#include "celeritas/MockTestBase.hh"
#include "celeritas/SimpleTestBase.hh"
#include "celeritas/geo/GeoParams.hh"
#include "celeritas/Units.hh"
#include "celeritas/field/UniformFieldData.hh"
#include "celeritas/global/CoreParams.hh"
#include "celeritas/global/alongstep/AlongStepUniformMscAction.hh"
#include "celeritas/mat/MaterialParams.hh"
#include "celeritas/global/CoreState.hh"
#include "celeritas/global/Stepper.hh"
#include "celeritas/phys/PDGNumber.hh"
#include "celeritas/phys/ParticleParams.hh"
#include "celeritas/phys/Primary.hh"
#include "celeritas/track/StatusChecker.hh"
#include "celeritas/track/TrackInitParams.hh"
#include "celeritas/user/StepData.hh"
#include "celeritas/user/StepInterface.hh"

#include "common/lineio.hh"

namespace h3
{
using namespace celeritas;

//---------------------------------------------------------------------------//
struct SplitMix64
{
    std::uint64_t s;
    explicit SplitMix64(std::uint64_t seed) : s(seed) {}
    std::uint64_t next()
    {
        s += 0x9E3779B97F4A7C15ull;
        std::uint64_t z = s;
        z = (z ^ (z >> 30)) * 0xBF58476D1CE4E5B9ull;
        z = (z ^ (z >> 27)) * 0x94D049BB133111EBull;
        return z ^ (z >> 31);
    }
    std::uint64_t below(std::uint64_t n) { return n ? next() % n : 0; }
    double unit() { return double(next() >> 11) / double(1ull << 53); }
};

//---------------------------------------------------------------------------//
struct Options
{
    std::string problem = "simple";  // simple | mock | mockfield
    double field_tesla = 1.0;  // mockfield: uniform field along z
    size_type max_streams = 1;
    TrackOrder order = TrackOrder::none;
    bool status_checker = false;
    size_type capacity = 4096;
    size_type max_events = 4096;
};

inline bool parse_order(std::string const& s, TrackOrder* out)
{
    static std::map<std::string, TrackOrder> const m = {
        {"none", TrackOrder::none},
        {"init_charge", TrackOrder::init_charge},
        {"shuffle", TrackOrder::reindex_shuffle},
        {"status", TrackOrder::reindex_status},
        {"particle", TrackOrder::reindex_particle_type},
        {"along", TrackOrder::reindex_along_step_action},
        {"steplimit", TrackOrder::reindex_step_limit_action},
        {"both", TrackOrder::reindex_both_action},
    };
    auto it = m.find(s);
    if (it == m.end())
        return false;
    *out = it->second;
    return true;
}

template<class Base>
class Fix : public Base
{
  public:
    explicit Fix(Options const& o) : opts_(o) { this->disable_status_checker(); }
    void TestBody() override {}
    std::shared_ptr<TrackInitParams const> build_init() override
    {
        TrackInitParams::Input input;
        input.capacity = opts_.capacity;
        input.max_events = opts_.max_events;
        input.track_order = opts_.order;
        return std::make_shared<TrackInitParams>(input);
    }

  private:
    Options opts_;
};

/*!
 * MockTestBase with a uniform magnetic field along-step (AlongStepUniformMscAction, no MSC, no
 * fluctuations): charged tracks in the near-vacuum world of the three-spheres geometry have an
 * (almost) unlimited physics step, so the field propagator runs out of substeps and reports
 * LOOPING; the per-slot `num_looping_steps` counters become non-zero and tracks are abandoned
 * by the looping thresholds of SimParams (default: 10 looping steps below 250 MeV).
 */
class FieldMockFix : public Fix<test::MockTestBase>
{
  public:
    explicit FieldMockFix(Options const& o) : Fix<test::MockTestBase>(o), tesla_(o.field_tesla) {}
    std::shared_ptr<CoreStepActionInterface const> build_along_step() override
    {
        UniformFieldParams fp;
        fp.field = {0, 0, tesla_ * units::tesla};
        auto& reg = *this->action_reg();
        auto result = AlongStepUniformMscAction::from_params(
            reg.next_id(), *this->material(), *this->particle(), fp, nullptr, false);
        reg.insert(result);
        return result;
    }

  private:
    double tesla_;
};

//! A problem: the fixture (owner of the lazily built params) + our own CoreParams
struct Problem
{
    Options opts;
    std::unique_ptr<test::GlobalTestBase> fix;
    std::shared_ptr<CoreParams> core;
    std::shared_ptr<StatusChecker> status_checker;

    ActionRegistry& actions() { return *core->action_reg(); }
    AuxParamsRegistry& aux() { return *core->aux_reg(); }
    std::vector<std::string> volume_names() const
    {
        std::vector<std::string> out;
        auto const& vols = core->geometry()->volumes();
        for (auto v : range(VolumeId{vols.size()}))
            out.push_back(vols.at(v).name);
        return out;
    }
};

//! Same sequence as GlobalTestBase::build_core, with max_streams / status checker options
inline std::unique_ptr<Problem> make_problem(Options const& o)
{
    auto p = std::make_unique<Problem>();
    p->opts = o;
    if (o.problem == "simple")
        p->fix = std::make_unique<Fix<test::SimpleTestBase>>(o);
    else if (o.problem == "mock")
        p->fix = std::make_unique<Fix<test::MockTestBase>>(o);
    else if (o.problem == "mockfield")
        p->fix = std::make_unique<FieldMockFix>(o);
    else
        return nullptr;
    auto& f = *p->fix;
    CoreParams::Input inp;
    inp.geometry = f.geometry();
    inp.material = f.material();
    inp.geomaterial = f.geomaterial();
    inp.particle = f.particle();
    inp.cutoff = f.cutoff();
    inp.physics = f.physics();
    inp.rng = f.rng();
    inp.sim = f.sim();
    inp.init = f.init();
    inp.wentzel = f.wentzel();
    inp.action_reg = f.action_reg();
    inp.output_reg = f.output_reg();
    inp.aux_reg = f.aux_reg();
    inp.max_streams = o.max_streams;
    (void)f.along_step();
    if (o.status_checker)
    {
        p->status_checker = std::make_shared<StatusChecker>(inp.action_reg->next_id(),
                                                            inp.aux_reg->next_id());
        inp.action_reg->insert(p->status_checker);
        inp.aux_reg->insert(p->status_checker);
    }
    p->core = std::make_shared<CoreParams>(std::move(inp));
    return p;
}

//---------------------------------------------------------------------------//
/*!
 * Deterministic primaries for one event, a pure function of (problem, seed, n).
 * kind 0: inside the scoring region, isotropic; kind 1: far beam along +x (Stepper.test.cc);
 * kind 2: mixture, with some primaries starting on a volume boundary.
 */
inline std::vector<Primary>
make_primaries(Problem const& p, std::uint64_t seed, size_type n, EventId ev)
{
    SplitMix64 g(seed * 0x2545F4914F6CDD1Dull + 12345);
    std::vector<Primary> out;
    auto const& par = *p.core->particle();
    bool simple = p.opts.problem == "simple";
    for (size_type i = 0; i < n; ++i)
    {
        Primary pr;
        double r = simple ? 4.5 : 5.5;
        int kind = int(g.below(4));
        if (kind == 0)
        {
            pr.position = {simple ? -22.0 : -50.0, 0.25 * g.unit(), 0.125 * g.unit()};
            pr.direction = {1, 0, 0};
        }
        else
        {
            pr.position = {r * (2 * g.unit() - 1), r * (2 * g.unit() - 1) * 0.5,
                           r * (2 * g.unit() - 1) * 0.5};
            double ct = 2 * g.unit() - 1, ph = 6.283185307179586 * g.unit();
            double st = std::sqrt(1 - ct * ct);
            Real3 d{st * std::cos(ph), st * std::sin(ph), ct};
            double nrm = std::sqrt(d[0] * d[0] + d[1] * d[1] + d[2] * d[2]);
            pr.direction = {d[0] / nrm, d[1] / nrm, d[2] / nrm};
        }
        if (simple)
        {
            pr.particle_id = par.find(pdg::gamma());
            pr.energy = units::MevEnergy{std::pow(10.0, -1.0 + 3.0 * g.unit())};
        }
        else
        {
            // Only gamma and electron primaries: with (anti-)celeritons the mock problem makes
            // select_discrete_interaction index its tables with a null id (valgrind: reads 8-16
            // bytes before PhysicsParams' ModelXsTable / id arrays) — the mock models do not
            // cover what the mock processes promise; no repository test steps such tracks.
            static char const* const names[] = {"gamma", "electron", "electron"};
            pr.particle_id = par.find(names[g.below(3)]);
            pr.energy = units::MevEnergy{std::pow(10.0, -2.0 + 2.9 * g.unit())};
            if (char const* only = std::getenv("H3_ONLY_PARTICLE"))
                pr.particle_id = par.find(only);
            pr.energy = units::MevEnergy{std::pow(10.0, -2.0 + 2.9 * g.unit())};
        }
        if (p.opts.problem == "mockfield" && g.below(4) != 0)
        {
            // electron starting in the near-vacuum world, mostly transverse to the field:
            // it spirals there and the propagator reports looping
            pr.particle_id = par.find("electron");
            pr.position = {-60.0 + 40.0 * g.unit(), 20.0 * (2 * g.unit() - 1), 20.0 * (2 * g.unit() - 1)};
            double ph = 6.283185307179586 * g.unit(), cz = 0.2 * (2 * g.unit() - 1);
            double st = std::sqrt(1 - cz * cz);
            pr.direction = {st * std::cos(ph), st * std::sin(ph), cz};
            pr.energy = units::MevEnergy{std::pow(10.0, -1.3 + 2.0 * g.unit())};
        }
        pr.time = 0;
        pr.event_id = ev;
        out.push_back(pr);
    }
    return out;
}

//---------------------------------------------------------------------------//
inline std::uint64_t fnv(std::uint64_t h, std::uint64_t v)
{
    for (int i = 0; i < 8; ++i)
    {
        h ^= (v >> (8 * i)) & 0xff;
        h *= 0x100000001b3ull;
    }
    return h;
}
constexpr std::uint64_t fnv0 = 0xcbf29ce484222325ull;

template<class I>
inline std::uint64_t idbits(I id)
{
    return id ? std::uint64_t(id.unchecked_get()) : 0xffffffffull;
}

//! One delivered step with every field (bit patterns)
struct StepRec
{
    std::uint64_t event, track, step;
    std::vector<std::uint64_t> f;
    bool operator<(StepRec const& o) const
    {
        if (event != o.event)
            return event < o.event;
        if (track != o.track)
            return track < o.track;
        return step < o.step;
    }
};

/*!
 * Records every delivered step with all fields (selection = all, no detectors).
 * One vector per stream: process_steps of different streams never touch the same element.
 */
class AllRecorder final : public StepInterface
{
  public:
    explicit AllRecorder(size_type streams) : recs_(streams), calls_(streams, 0) {}
    Filters filters() const final { return {}; }
    StepSelection selection() const final { return StepSelection::all(); }
    void process_steps(HostStepState s) final
    {
        auto const& d = s.steps.data;
        auto& out = recs_[s.stream_id.get()];
        ++calls_[s.stream_id.get()];
        for (auto t : range(TrackSlotId{d.size()}))
        {
            if (!d.track_id[t])
                continue;
            StepRec r;
            r.event = idbits(d.event_id[t]);
            r.track = idbits(d.track_id[t]);
            r.step = d.track_step_count[t];
            r.f.push_back(idbits(d.parent_id[t]));
            r.f.push_back(idbits(d.action_id[t]));
            r.f.push_back(vh::dbl_bits(d.step_length[t]));
            r.f.push_back(idbits(d.particle[t]));
            r.f.push_back(vh::dbl_bits(d.energy_deposition[t].value()));
            for (auto sp : range(StepPoint::size_))
            {
                auto const& pt = d.points[sp];
                r.f.push_back(vh::dbl_bits(pt.time[t]));
                for (int k = 0; k < 3; ++k)
                    r.f.push_back(vh::dbl_bits(pt.pos[t][k]));
                for (int k = 0; k < 3; ++k)
                    r.f.push_back(vh::dbl_bits(pt.dir[t][k]));
                r.f.push_back(idbits(pt.volume_id[t]));
                r.f.push_back(vh::dbl_bits(pt.energy[t].value()));
            }
            out.push_back(std::move(r));
        }
    }
    void process_steps(DeviceStepState) final {}

    std::vector<StepRec>& recs(size_type stream) { return recs_[stream]; }
    size_type calls(size_type stream) const { return calls_[stream]; }
    //! Remove and return (sorted by event, track, step) the records of a stream
    std::vector<StepRec> take(size_type stream)
    {
        std::vector<StepRec> out;
        out.swap(recs_[stream]);
        std::sort(out.begin(), out.end());
        return out;
    }

  private:
    std::vector<std::vector<StepRec>> recs_;
    std::vector<size_type> calls_;
};

inline std::uint64_t hash_steps(std::vector<StepRec> const& v)
{
    std::uint64_t h = fnv0;
    for (auto const& r : v)
    {
        h = fnv(h, r.track);
        h = fnv(h, r.step);
        for (auto x : r.f)
            h = fnv(h, x);
    }
    return h;
}

static char const* const step_field_names[]
    = {"parent", "action", "step_length", "particle", "edep", "pre.time", "pre.x", "pre.y",
       "pre.z", "pre.dx", "pre.dy", "pre.dz", "pre.volume", "pre.energy", "post.time", "post.x",
       "post.y", "post.z", "post.dx", "post.dy", "post.dz", "post.volume", "post.energy"};

inline std::string dump_step(StepRec const& r)
{
    std::string s = std::to_string(r.track) + "/" + std::to_string(r.step);
    for (auto x : r.f)
        s += " " + vh::hex(x, 1);
    return s;
}

inline bool parse_dec(std::string const& s, unsigned long* out)
{
    if (s.empty() || s.size() > 18)
        return false;
    unsigned long v = 0;
    for (char ch : s)
    {
        if (ch < '0' || ch > '9')
            return false;
        v = v * 10 + (ch - '0');
    }
    *out = v;
    return true;
}

//! key=value words of an op line
inline std::map<std::string, std::string> keyvals(std::vector<std::string> const& w, size_t from)
{
    std::map<std::string, std::string> m;
    for (size_t i = from; i < w.size(); ++i)
    {
        auto k = w[i].find('=');
        if (k == std::string::npos)
            m[w[i]] = "";
        else
            m[w[i].substr(0, k)] = w[i].substr(k + 1);
    }
    return m;
}
inline unsigned long kv_num(std::map<std::string, std::string> const& m,
                            std::string const& k,
                            unsigned long dflt)
{
    auto it = m.find(k);
    unsigned long v;
    if (it == m.end() || !parse_dec(it->second, &v))
        return dflt;
    return v;
}
inline std::string
kv_str(std::map<std::string, std::string> const& m, std::string const& k, std::string dflt)
{
    auto it = m.find(k);
    return it == m.end() ? dflt : it->second;
}
}  // namespace h3
