// Shared H3 step-log record and format (harness/stepping.cc writes it; tools/checks/c01.py,
// c05.py, ... parse it with tools/checks/steplog.py-style code: split on whitespace, fields by
// position as documented here).  ALL doubles are 16-hex-digit IEEE bit patterns.
//
// ---------------------------------------------------------------------------------------------
// LOG FORMAT (one record per line, first token = record type)
//
//  C <key> <value...>          echo of the configuration actually used
//  A <action_id> <order> <label>      action table of the Stepper (in execution order)
//  B <action_id> <label>              every action registered in the ActionRegistry (explicit and
//                                     implicit), by the label the action itself reports
//  Q <name> <action_id>        well-known action ids: boundary tracking-cut discrete range
//                              integral-rejection failure fixed-step along-neutral along-user
//                              propagation-limit msc
//  P <pid> <name> <pdg> <mass> <charge> <anti 0|1> <has_at_rest 0|1> <nproc> <eloss 0|1>
//                              particle table (has_at_rest / nproc / eloss: of material 0)
//  Y <name> <hex>              physics scalars: min_range max_step_over_range
//                              fixed_step_limiter linear_loss_limit lowest_electron_energy
//                              sqrt_tol; and `Y postcut <0|1>`
//  U <mat> <pid> <hex>         production cut energy of particle pid in material mat
//  V <vol_id> <label> <mat>    volume table
//
//  S  one line per (step iteration, slot that was not inactive at user_pre):
//     S it slot ev trk par nstep pid mat | st0 st1 st2 st3 st4 |
//       E0 x0 y0 z0 u0 v0 w0 t0 vol0 bnd0 |
//       lim limact mfp0 xs rng flags along |
//       Ea depa ta stepa acta mfpa bnda | act3 |
//       E1 x1 y1 z1 u1 v1 w1 t1 vol1 bnd1 step dep act mfp1 |
//       nsec (pid E)*
//     it      step iteration (0-based call of Stepper::operator())
//     nstep   sim.num_steps() at user_post (track step count AFTER this step)
//     st0..4  status after phase: user_start, user_pre, along(last), pre_post(last),
//             user_post; one of - i a k e  (inactive initializing alive killed errored)
//     *0      pre-step point, sampled at StepActionOrder::user_pre (after pre-step)
//     lim limact   sim.step_length()/post_step_action() at user_pre = the PHYSICS limit chosen
//             by calc_physics_step_limit (7ff0000000000000 / -1 when none)
//     mfp0 xs rng   interaction_mfp, macro_xs, dedx_range at user_pre (0 if not applicable)
//     flags   bit0 stopped(E==0) bit1 has eloss ppid bit2 has_at_rest bit3 nproc==0
//     along   sim.along_step_action() at user_pre (-1 none)
//     *a      sampled after the LAST action of order `along` (before discrete select)
//     act3    post_step_action after the last `pre_post` action (discrete select done)
//     *1      post-step point sampled at StepActionOrder::user_post (after boundary crossing,
//             interactions, tracking cut; before extend-from-secondaries)
//     nsec…   non-empty secondaries in PhysicsStepView::secondaries() at user_post
//     vol     volume id, -1 = outside;  bnd = geo.is_on_boundary()
//     An errored-at-initialisation track has no physics view: lim.. fields are zero, mat = -1.
//
//  G it slot | dist boundary             recorded oracle: result of the propagator call of this
//                                        step (only with `along vlinear|vfluct`, charged tracks)
//  L it slot | appl E step applycut lowcut mean sampled(or -) returned
//                                        recorded oracle around EH::calc_eloss (same variants):
//                                        mean = calc_mean_energy_loss, sampled = raw sample of
//                                        the fluctuation model (RNG replayed), returned = what
//                                        ElossApplier got
//  X it slot | kind Eout edep nsec (pid E)*
//                                        raw Interaction returned by the harness interactor
//                                        BEFORE InteractionApplier's cut loop (problem mock with
//                                        `interactor 1`); kind s|a|u|f
//     an X line may end with ` | calls N first K`: number of times the harness interactor ran for
//     this slot in this step and the kind of the FIRST call (a second call in one step = a
//     second model kernel picked the track up)
//  M it slot | alg appl | phys onb safety maxstep mfp range | v0 ri0 rf0 lm0 | v1 ri1 rf1 lm1 |
//              lim true geom limited z | applied displaced dlen asafety true_final
//                                        recorded oracle around UrbanMsc (problem mock, `msc 1`,
//                                        along vlinear|vfluct): alg 0 minimal 1 safety 2 safety_plus;
//                                        appl = is_applicable; phys = step length before
//                                        limit_step (= pre-step physics limit); onb = on boundary;
//                                        safety = find_safety(maxstep) (0 on boundary); maxstep =
//                                        helper.max_step(); mfp = msc_mfp; range = dedx_range;
//                                        v/ri/rf/lm = MscRange (valid, range_init, range_factor,
//                                        limit_min) before (0) and after (1) limit_step; lim = 1 if
//                                        a step-limit class was evaluated (0: early return);
//                                        true/geom = MscStep paths after limit_step; limited = msc
//                                        action set; z = standard normal the Gaussian sampler
//                                        draws at this RNG state (replayed, RNG restored);
//                                        applied = apply_step ran; displaced = position changed in
//                                        apply_step; dlen = |displacement|; asafety = safety at the
//                                        pre-displacement point (find_safety up to 10*dlen+geom
//                                        limit); true_final = step length after apply_step
//  K it slot ...                         StepCollector view of the same step (`collector 1`):
//     K it slot ev trk par nstep pid | E0 x0 y0 z0 u0 v0 w0 t0 vol0 | E1 x1 ... t1 vol1 | step dep act
//  I it generated queued active alive | num_initializers num_vacancies num_secondaries
//                                        StepperResult + CoreStateCounters after iteration it
//  T ev nprim Eprim | dep esc nesc | ntracks nsteps      per-event totals (long double sums
//                                        rounded to double): Σ primary E, Σ deposition, Σ kinetic
//                                        energy of tracks leaving the world, counts
//  R <done|maxsteps|exception what>      end of run
// ---------------------------------------------------------------------------------------------
#pragma once
#include <cstdint>
#include <string>
#include <vector>

#include "lineio.hh"

namespace vh
{
struct SecRec
{
    int pid;
    double energy;
};

struct PointRec
{
    double e = 0, pos[3] = {0, 0, 0}, dir[3] = {0, 0, 0}, t = 0;
    long vol = -1;
    int bnd = 0;
};

//! Everything observed about one slot during one step iteration
struct SlotRec
{
    bool active = false;  // not inactive at user_pre
    char st[5] = {'-', '-', '-', '-', '-'};
    long ev = -1, trk = -1, par = -1, nstep = 0, pid = -1, mat = -1;
    PointRec p0, p1;
    // pre-step physics
    double lim = 0, mfp0 = 0, xs = 0, rng = 0;
    long limact = -1, along = -1;
    int flags = 0;
    // after along
    double ea = 0, depa = 0, ta = 0, stepa = 0, mfpa = 0;
    long acta = -1;
    int bnda = 0;
    // after pre_post
    long act3 = -1;
    // post
    double step = 0, dep = 0, mfp1 = 0;
    long act = -1;
    std::vector<SecRec> secs;
    // recorded oracles
    bool has_g = false;
    double g_dist = 0;
    int g_bnd = 0;
    bool has_l = false;
    int l_appl = 0, l_cut = 0, l_has_sample = 0;
    double l_e = 0, l_step = 0, l_low = 0, l_mean = 0, l_sample = 0, l_ret = 0;
    bool has_m = false;
    int m_alg = 0, m_appl = 0, m_onb = 0, m_lim = 0, m_limited = 0, m_applied = 0, m_displaced = 0;
    int m_v0 = 0, m_v1 = 0;
    double m_phys = 0, m_safety = 0, m_maxstep = 0, m_mfp = 0, m_range = 0, m_ri0 = 0, m_rf0 = 0,
           m_lm0 = 0, m_ri1 = 0, m_rf1 = 0, m_lm1 = 0, m_true = 0, m_geom = 0, m_z = 0, m_dlen = 0,
           m_asafety = 0, m_truefinal = 0;
    int x_calls = 0;
    char x_first = 'u';
    bool has_x = false;
    char x_kind = 'u';
    double x_e = 0, x_dep = 0;
    std::vector<SecRec> x_secs;

    void clear_step()
    {
        *this = SlotRec{};
    }
};

inline void put(std::string& o, double d)
{
    o += ' ';
    o += hexd(d);
}
inline void put(std::string& o, long v)
{
    o += ' ';
    o += std::to_string(v);
}
inline void put(std::string& o, int v)
{
    o += ' ';
    o += std::to_string(v);
}
inline void put_point(std::string& o, PointRec const& p)
{
    put(o, p.e);
    for (double x : p.pos)
        put(o, x);
    for (double x : p.dir)
        put(o, x);
    put(o, p.t);
    put(o, p.vol);
}

inline std::string format_S(long it, long slot, SlotRec const& r)
{
    std::string o = "S";
    put(o, it);
    put(o, slot);
    put(o, r.ev);
    put(o, r.trk);
    put(o, r.par);
    put(o, r.nstep);
    put(o, r.pid);
    put(o, r.mat);
    o += " |";
    for (char c : r.st)
    {
        o += ' ';
        o += c;
    }
    o += " |";
    put_point(o, r.p0);
    put(o, r.p0.bnd);
    o += " |";
    put(o, r.lim);
    put(o, r.limact);
    put(o, r.mfp0);
    put(o, r.xs);
    put(o, r.rng);
    put(o, r.flags);
    put(o, r.along);
    o += " |";
    put(o, r.ea);
    put(o, r.depa);
    put(o, r.ta);
    put(o, r.stepa);
    put(o, r.acta);
    put(o, r.mfpa);
    put(o, r.bnda);
    o += " |";
    put(o, r.act3);
    o += " |";
    put_point(o, r.p1);
    put(o, r.p1.bnd);
    put(o, r.step);
    put(o, r.dep);
    put(o, r.act);
    put(o, r.mfp1);
    o += " |";
    put(o, static_cast<long>(r.secs.size()));
    for (auto const& s : r.secs)
    {
        put(o, s.pid);
        put(o, s.energy);
    }
    return o;
}

inline std::string format_G(long it, long slot, SlotRec const& r)
{
    std::string o = "G";
    put(o, it);
    put(o, slot);
    o += " |";
    put(o, r.g_dist);
    put(o, r.g_bnd);
    return o;
}

inline std::string format_L(long it, long slot, SlotRec const& r)
{
    std::string o = "L";
    put(o, it);
    put(o, slot);
    o += " |";
    put(o, r.l_appl);
    put(o, r.l_e);
    put(o, r.l_step);
    put(o, r.l_cut);
    put(o, r.l_low);
    put(o, r.l_mean);
    if (r.l_has_sample)
        put(o, r.l_sample);
    else
        o += " -";
    put(o, r.l_ret);
    return o;
}

inline std::string format_X(long it, long slot, SlotRec const& r)
{
    std::string o = "X";
    put(o, it);
    put(o, slot);
    o += " | ";
    o += r.x_kind;
    put(o, r.x_e);
    put(o, r.x_dep);
    put(o, static_cast<long>(r.x_secs.size()));
    for (auto const& s : r.x_secs)
    {
        put(o, s.pid);
        put(o, s.energy);
    }
    o += " | calls";
    put(o, r.x_calls);
    o += " first ";
    o += r.x_first;
    return o;
}

inline std::string format_M(long it, long slot, SlotRec const& r)
{
    std::string o = "M";
    put(o, it);
    put(o, slot);
    o += " |";
    put(o, r.m_alg);
    put(o, r.m_appl);
    o += " |";
    put(o, r.m_phys);
    put(o, r.m_onb);
    put(o, r.m_safety);
    put(o, r.m_maxstep);
    put(o, r.m_mfp);
    put(o, r.m_range);
    o += " |";
    put(o, r.m_v0);
    put(o, r.m_ri0);
    put(o, r.m_rf0);
    put(o, r.m_lm0);
    o += " |";
    put(o, r.m_v1);
    put(o, r.m_ri1);
    put(o, r.m_rf1);
    put(o, r.m_lm1);
    o += " |";
    put(o, r.m_lim);
    put(o, r.m_true);
    put(o, r.m_geom);
    put(o, r.m_limited);
    put(o, r.m_z);
    o += " |";
    put(o, r.m_applied);
    put(o, r.m_displaced);
    put(o, r.m_dlen);
    put(o, r.m_asafety);
    put(o, r.m_truefinal);
    return o;
}
}  // namespace vh
