// Shared helpers for the line-protocol harnesses (C++ side).
#pragma once
#include <cstdint>
#include <cstdio>
#include <cstring>
#include <iostream>
#include <sstream>
#include <string>
#include <vector>

namespace vh
{
inline std::vector<std::string> words(std::string const& line)
{
    std::istringstream is(line);
    std::vector<std::string> out;
    std::string w;
    while (is >> w)
        out.push_back(w);
    return out;
}

inline bool parse_hex(std::string const& s, std::uint64_t* out)
{
    if (s.empty() || s.size() > 16)
        return false;
    std::uint64_t v = 0;
    for (char c : s)
    {
        int d;
        if (c >= '0' && c <= '9')
            d = c - '0';
        else if (c >= 'a' && c <= 'f')
            d = c - 'a' + 10;
        else if (c >= 'A' && c <= 'F')
            d = c - 'A' + 10;
        else
            return false;
        v = (v << 4) | static_cast<std::uint64_t>(d);
    }
    *out = v;
    return true;
}

inline std::string hex(std::uint64_t v, int width)
{
    char buf[32];
    std::snprintf(buf, sizeof buf, "%0*llx", width, static_cast<unsigned long long>(v));
    return buf;
}

inline std::uint64_t dbl_bits(double d)
{
    std::uint64_t u;
    std::memcpy(&u, &d, sizeof u);
    return u;
}
inline double bits_dbl(std::uint64_t u)
{
    double d;
    std::memcpy(&d, &u, sizeof d);
    return d;
}
inline std::string hexd(double d)
{
    return hex(dbl_bits(d), 16);
}
}  // namespace vh
