// ScriptedEngine: a random "engine" whose canonical uniforms are given explicitly.
//
// All celeritas samplers are templates on the generator and obtain their uniforms through
// `celeritas::generate_canonical<real_type>(rng)`, i.e. `GenerateCanonical<Engine, T>()(rng)`.
// The specialisation below makes that call return the next value of `u` (values are used
// exactly as given: no scaling, no rounding) and counts the draws.  When the script runs out
// `vh::ScriptExhausted` is thrown; harnesses catch it and print `script-exhausted`.
//
// Code that calls `rng()` directly (raw 32-bit words; e.g. detail::GenerateCanonical32) reads
// the second channel `raw` instead.
//
// Usage:   vh::ScriptedEngine rng{{0.25, 0.5}};  auto x = dist(rng);  rng.draws();
#pragma once
#include <cstddef>
#include <cstdint>
#include <utility>
#include <vector>

#include "celeritas/random/distribution/GenerateCanonical.hh"

namespace vh
{
struct ScriptExhausted
{
};

struct ScriptedEngine
{
    using result_type = unsigned int;

    std::vector<double> u;  //!< canonical channel, consumed front to back
    std::size_t pos{0};
    std::vector<unsigned int> raw;  //!< raw 32-bit channel
    std::size_t rpos{0};

    ScriptedEngine() = default;
    explicit ScriptedEngine(std::vector<double> script) : u(std::move(script)) {}
    ScriptedEngine(std::vector<double> script, std::vector<unsigned int> words)
        : u(std::move(script)), raw(std::move(words))
    {
    }

    static constexpr result_type min() { return 0u; }
    static constexpr result_type max() { return 0xffffffffu; }

    //! raw channel
    result_type operator()()
    {
        if (rpos >= raw.size())
            throw ScriptExhausted{};
        return raw[rpos++];
    }
    //! canonical channel
    double next_canonical()
    {
        if (pos >= u.size())
            throw ScriptExhausted{};
        return u[pos++];
    }
    std::size_t draws() const { return pos; }
    std::size_t raw_draws() const { return rpos; }
};
}  // namespace vh

namespace celeritas
{
template<>
class GenerateCanonical<vh::ScriptedEngine, double>
{
  public:
    using real_type = double;
    using result_type = double;
    result_type operator()(vh::ScriptedEngine& rng) { return rng.next_canonical(); }
};
template<>
class GenerateCanonical<vh::ScriptedEngine, float>
{
  public:
    using real_type = float;
    using result_type = float;
    result_type operator()(vh::ScriptedEngine& rng)
    {
        return static_cast<float>(rng.next_canonical());
    }
};
}  // namespace celeritas
