// C15 harness, part 2: the energy-loss fluctuation models (EnergyLossHelper model selection,
// EnergyLossUrbanDistribution, and the helper-selected dispatch of FluctELoss) on real
// MaterialParams / ParticleParams / CutoffParams / FluctuationParams, with the line protocol of
// lean/CelerVerif/Model/DistDriver.lean.  Materials: 0 C, 1 Ar (gas), 2 Cu, 3 Pb, 4 Ar (liquid);
// particles: 0 e-, 1 e+, 2 mu-, 3 mu+, 4 proton.
//
// Every numeric datum the model needs is ON the op line (16-hex-digit doubles) and is checked
// here against the real objects (`bad-data` on mismatch), so that model and code provably see
// the same inputs; `m`/`p` select the real material/particle.
//   consts                                   -> r_electron pi e-mass | per particle: mass charge
//   matdata m                                -> eldens numdens I logI f1 f2 E1 E2 logE1 logE2
//   uparams m eldens numdens I               -> f1 f2 E1 E2 logE1 logE2   (FluctuationParams.cc)
//   helper  m p HELPERDATA                   -> model max_energy beta_sq two_mebsgs bohr_var
//   urbanctor m MATDATA mean emax tmebsgs b2 -> max_energy loss_scaling E1' E2' xs1 xs2 xs_ion
//   urban   m MATDATA mean emax tmebsgs b2 | script     -> loss draws
//   eloss   m p HELPERDATA MATDATA | script             -> model loss draws
//   stat seed n urban|eloss ...(same, no script)        -> n mean var m4 min max  (Xorwow; TEST)
//   bb|mubb p pmass charge emass energy cutoff | script  -> min max [use_rad envelope] T draws
//   bragg   p pmass charge emass energy cutoff proton_mass | script   (same)
//   stat seed n bb|bragg|mubb ...                       -> the n sampled energies (hex)
// HELPERDATA = eldens e-mass p-mass charge is_electron(0/1) r_electron energy cutoff mean step
// MATDATA    = I logI f1 f2 E1 E2 logE1 logE2
#include <cmath>
#include <map>
#include <memory>
#include <string>
#include <vector>

#include "corecel/data/CollectionStateStore.hh"
#include "corecel/math/Algorithms.hh"
#include "celeritas/Constants.hh"
#include "celeritas/Quantities.hh"
#include "celeritas/em/distribution/EnergyLossDeltaDistribution.hh"
#include "celeritas/em/distribution/EnergyLossGammaDistribution.hh"
#include "celeritas/em/distribution/EnergyLossGaussianDistribution.hh"
#include "celeritas/em/distribution/EnergyLossHelper.hh"
#include "celeritas/em/params/FluctuationParams.hh"
#include "celeritas/mat/MaterialParams.hh"
#include "celeritas/phys/CutoffParams.hh"
#include "celeritas/phys/PDGNumber.hh"
#include "celeritas/phys/ParticleParams.hh"
#include "celeritas/random/XorwowRngEngine.hh"
#include "celeritas/random/XorwowRngParams.hh"
#include "celeritas/random/distribution/PoissonDistribution.hh"
#include "celeritas/random/distribution/UniformRealDistribution.hh"

// expose the data members of EnergyLossUrbanDistribution (header-only class; all its
// dependencies are already included above, so nothing else is affected)
#define private public
#include "celeritas/em/distribution/EnergyLossUrbanDistribution.hh"
#include "celeritas/em/distribution/BetheBlochEnergyDistribution.hh"
#include "celeritas/em/distribution/BraggICRU73QOEnergyDistribution.hh"
#include "celeritas/em/distribution/MuBBEnergyDistribution.hh"
#undef private
#include "celeritas/em/distribution/EnergyLossTraits.hh"

#include "common/lineio.hh"
#include "common/scripted_engine.hh"

using namespace celeritas;
using std::string;
using units::MevEnergy;
using units::MevMass;
using vecu = std::vector<std::uint64_t>;
using FModel = EnergyLossFluctuationModel;

static double D(std::uint64_t b)
{
    return vh::bits_dbl(b);
}
static string H(double d)
{
    return vh::hexd(d);
}
static bool same(double a, std::uint64_t bits)
{
    return vh::dbl_bits(a) == bits;
}

struct World
{
    using MaterialStateStore = CollectionStateStore<MaterialStateData, MemSpace::host>;
    using ParticleStateStore = CollectionStateStore<ParticleStateData, MemSpace::host>;

    std::shared_ptr<MaterialParams> materials;
    std::shared_ptr<ParticleParams> particles;
    std::shared_ptr<FluctuationParams> fluct;
    ParticleStateStore particle_state;
    MaterialStateStore material_state;
    std::map<std::uint64_t, std::shared_ptr<CutoffParams>> cutoffs;

    World()
    {
        using namespace constants;
        using namespace units;
        MaterialParams::Input mi;
        mi.elements = {{AtomicNumber{6}, AmuMass{12.011}, {}, "C"},
                       {AtomicNumber{18}, AmuMass{39.948}, {}, "Ar"},
                       {AtomicNumber{29}, AmuMass{63.546}, {}, "Cu"},
                       {AtomicNumber{82}, AmuMass{207.2}, {}, "Pb"}};
        mi.materials = {
            {native_value_from(MolCcDensity{0.1882}), 293.0, MatterState::solid, {{ElementId{0}, 1.0}}, "C"},
            {native_value_from(MolCcDensity{4.46e-5}), 293.0, MatterState::gas, {{ElementId{1}, 1.0}}, "Ar"},
            {native_value_from(MolCcDensity{0.1410}), 293.0, MatterState::solid, {{ElementId{2}, 1.0}}, "Cu"},
            {native_value_from(MolCcDensity{0.05478}), 293.0, MatterState::solid, {{ElementId{3}, 1.0}}, "Pb"},
            {native_value_from(MolCcDensity{0.03495}), 87.0, MatterState::liquid, {{ElementId{1}, 1.0}}, "lAr"},
        };
        materials = std::make_shared<MaterialParams>(std::move(mi));
        ParticleParams::Input pi{
            {"electron", pdg::electron(), MevMass{0.5109989461}, ElementaryCharge{-1}, stable_decay_constant},
            {"positron", pdg::positron(), MevMass{0.5109989461}, ElementaryCharge{1}, stable_decay_constant},
            {"mu_minus", pdg::mu_minus(), MevMass{105.6583745}, ElementaryCharge{-1}, stable_decay_constant},
            {"mu_plus", pdg::mu_plus(), MevMass{105.6583745}, ElementaryCharge{1}, stable_decay_constant},
            {"proton", pdg::proton(), MevMass{938.27208816}, ElementaryCharge{1}, stable_decay_constant}};
        particles = std::make_shared<ParticleParams>(std::move(pi));
        particle_state = ParticleStateStore(particles->host_ref(), 1);
        material_state = MaterialStateStore(materials->host_ref(), 1);
        fluct = std::make_shared<FluctuationParams>(*particles, *materials);
    }

    CutoffParams const& cutoff(std::uint64_t bits)
    {
        auto it = cutoffs.find(bits);
        if (it == cutoffs.end())
        {
            CutoffParams::MaterialCutoffs mc(materials->size(), {MevEnergy{D(bits)}, 0});
            CutoffParams::Input ci{particles, materials, {{pdg::electron(), mc}}};
            if (cutoffs.size() >= 4096)
                cutoffs.clear();
            it = cutoffs.emplace(bits, std::make_shared<CutoffParams>(std::move(ci))).first;
        }
        return *it->second;
    }
};

static World& world()
{
    static World w;
    return w;
}

static bool check_matdata(std::uint64_t m, std::uint64_t const* p)
{
    auto& w = world();
    if (m >= w.materials->size())
        return false;
    auto mat = w.materials->get(MaterialId{static_cast<unsigned>(m)});
    auto const& u = w.fluct->host_ref().urban[MaterialId{static_cast<unsigned>(m)}];
    return same(value_as<MevEnergy>(mat.mean_excitation_energy()), p[0])
           && same(value_as<units::LogMevEnergy>(mat.log_mean_excitation_energy()), p[1])
           && same(u.oscillator_strength[0], p[2]) && same(u.oscillator_strength[1], p[3])
           && same(u.binding_energy[0], p[4]) && same(u.binding_energy[1], p[5])
           && same(u.log_binding_energy[0], p[6]) && same(u.log_binding_energy[1], p[7]);
}

// HELPERDATA at p[0..9]
static bool check_helperdata(std::uint64_t m, std::uint64_t pid, std::uint64_t const* p)
{
    auto& w = world();
    if (m >= w.materials->size() || pid >= w.particles->size())
        return false;
    auto mat = w.materials->get(MaterialId{static_cast<unsigned>(m)});
    auto par = w.particles->get(ParticleId{static_cast<unsigned>(pid)});
    auto const& fr = w.fluct->host_ref();
    bool is_el = ParticleId{static_cast<unsigned>(pid)} == fr.electron_id;
    return same(mat.electron_density(), p[0]) && same(value_as<MevMass>(fr.electron_mass), p[1])
           && same(value_as<MevMass>(par.mass()), p[2])
           && same(value_as<units::ElementaryCharge>(par.charge()), p[3]) && p[4] == (is_el ? 1u : 0u)
           && same(constants::r_electron, p[5]);
}

struct HelperCase
{
    ParticleTrackView particle;
    MaterialTrackView material;
    CutoffView cutoff;
    EnergyLossHelper helper;

    HelperCase(World& w, std::uint64_t m, std::uint64_t pid, std::uint64_t const* p)
        : particle(w.particles->host_ref(), w.particle_state.ref(), TrackSlotId{0})
        , material(w.materials->host_ref(), w.material_state.ref(), TrackSlotId{0})
        , cutoff(w.cutoff(p[7]).host_ref(), MaterialId{static_cast<unsigned>(m)})
        , helper((particle = {ParticleId{static_cast<unsigned>(pid)}, MevEnergy{D(p[6])}},
                  material = {MaterialId{static_cast<unsigned>(m)}},
                  w.fluct->host_ref()),
                 cutoff,
                 material,
                 particle,
                 MevEnergy{D(p[8])},
                 D(p[9]))
    {
    }
};

template<FModel M, class Engine>
static double sample_model(EnergyLossHelper const& helper, Engine& rng)
{
    using DistT = typename EnergyLossTraits<M>::type;
    DistT sample_eloss{helper};
    return value_as<MevEnergy>(sample_eloss(rng));
}

template<class Engine>
static double sample_helper(EnergyLossHelper const& helper, Engine& rng)
{
    // same dispatch as detail::FluctELoss::calc_eloss
    switch (helper.model())
    {
        case FModel::none:
            return sample_model<FModel::none>(helper, rng);
        case FModel::gamma:
            return sample_model<FModel::gamma>(helper, rng);
        case FModel::gaussian:
            return sample_model<FModel::gaussian>(helper, rng);
        case FModel::urban:
            return sample_model<FModel::urban>(helper, rng);
    }
    return -1;
}

struct UrbanCase
{
    MaterialTrackView material;
    EnergyLossUrbanDistribution dist;
    UrbanCase(World& w, std::uint64_t m, std::uint64_t const* q)
        : material(w.materials->host_ref(), w.material_state.ref(), TrackSlotId{0})
        , dist((material = {MaterialId{static_cast<unsigned>(m)}}, w.fluct->host_ref()),
               material,
               MevEnergy{D(q[0])},
               MevEnergy{D(q[1])},
               MevMass{D(q[2])},
               D(q[3]))
    {
    }
};

static string moments(std::vector<double> const& x)
{
    long double s = 0;
    double lo = x.empty() ? 0 : x[0], hi = lo;
    for (double v : x)
    {
        s += v;
        lo = std::min(lo, v);
        hi = std::max(hi, v);
    }
    long double mean = x.empty() ? 0 : s / x.size();
    long double m2 = 0, m4 = 0;
    for (double v : x)
    {
        long double d = v - mean;
        m2 += d * d;
        m4 += d * d * d * d;
    }
    if (!x.empty())
    {
        m2 /= x.size();
        m4 /= x.size();
    }
    return std::to_string(x.size()) + " " + H(double(mean)) + " " + H(double(m2)) + " "
           + H(double(m4)) + " " + H(lo) + " " + H(hi);
}

int main()
{
    auto& w = world();
    string line;
    while (std::getline(std::cin, line))
    {
        auto ws = vh::words(line);
        if (ws.empty())
        {
            std::cout << "bad-op\n";
            continue;
        }
        bool stat = ws[0] == "stat";
        std::uint64_t seed = 0, count = 0;
        std::size_t o = 0;
        if (stat)
        {
            if (ws.size() < 4 || !vh::parse_hex(ws[1], &seed) || !vh::parse_hex(ws[2], &count)
                || count > 10000000)
            {
                std::cout << "bad-op\n";
                continue;
            }
            o = 3;
        }
        string const op = ws[o];
        std::size_t bar = o + 1;
        while (bar < ws.size() && ws[bar] != "|")
            ++bar;
        vecu p;
        std::vector<double> script;
        bool ok = true;
        for (std::size_t i = o + 1; ok && i < bar; ++i)
        {
            std::uint64_t v;
            ok = vh::parse_hex(ws[i], &v);
            p.push_back(v);
        }
        for (std::size_t i = bar + 1; ok && i < ws.size(); ++i)
        {
            std::uint64_t v;
            ok = vh::parse_hex(ws[i], &v);
            script.push_back(D(v));
        }
        bool has_script = bar < ws.size();
        if (!ok)
        {
            std::cout << "bad-op\n";
            continue;
        }
        auto n = p.size();
        try
        {
            if (op == "consts" && n == 0 && !stat)
            {
                string out = H(constants::r_electron) + " " + H(constants::pi) + " "
                             + H(value_as<MevMass>(w.fluct->host_ref().electron_mass));
                for (auto pid : range(ParticleId{w.particles->size()}))
                {
                    auto par = w.particles->get(pid);
                    out += " " + H(value_as<MevMass>(par.mass())) + " "
                           + H(value_as<units::ElementaryCharge>(par.charge()));
                }
                out += " " + H(native_value_to<MevMass>(constants::proton_mass).value());
                std::cout << out << "\n";
            }
            else if ((op == "bb" || op == "mubb" || op == "bragg") && n == (op == "bragg" ? 7u : 6u))
            {
                // p pmass charge emass energy cutoff [proton_mass]
                if (p[0] >= w.particles->size())
                {
                    std::cout << "bad-op\n";
                    continue;
                }
                ParticleId pid{static_cast<unsigned>(p[0])};
                auto par = w.particles->get(pid);
                if (!(same(value_as<MevMass>(par.mass()), p[1])
                      && same(value_as<units::ElementaryCharge>(par.charge()), p[2])
                      && same(value_as<MevMass>(w.fluct->host_ref().electron_mass), p[3])
                      && (op != "bragg"
                          || same(native_value_to<MevMass>(constants::proton_mass).value(), p[6]))))
                {
                    std::cout << "bad-data\n";
                    continue;
                }
                ParticleTrackView particle(
                    w.particles->host_ref(), w.particle_state.ref(), TrackSlotId{0});
                particle = {pid, MevEnergy{D(p[4])}};
                MevEnergy cut{D(p[5])};
                MevMass em{D(p[3])};
                auto run = [&](auto& dist, string const& head) {
                    if (stat)
                    {
                        using HostStore = CollectionStateStore<XorwowRngStateData, MemSpace::host>;
                        auto params = std::make_shared<XorwowRngParams>(static_cast<unsigned>(seed));
                        HostStore states(params->host_ref(), StreamId{0}, 1);
                        XorwowRngEngine rng(params->host_ref(), states.ref(), TrackSlotId{0});
                        string out;
                        for (std::uint64_t i = 0; i < count; ++i)
                            out += (i ? " " : "") + H(value_as<MevEnergy>(dist(rng)));
                        std::cout << out << "\n";
                    }
                    else
                    {
                        vh::ScriptedEngine rng(script);
                        try
                        {
                            double r = value_as<MevEnergy>(dist(rng));
                            std::cout << head << H(r) << " " << rng.draws() << "\n";
                        }
                        catch (vh::ScriptExhausted const&)
                        {
                            std::cout << head << "script-exhausted\n";
                        }
                    }
                };
                if (op == "bb")
                {
                    BetheBlochEnergyDistribution d(particle, cut, em);
                    run(d, H(d.min_secondary_energy().value()) + " " + H(d.max_secondary_energy().value()) + " ");
                }
                else if (op == "bragg")
                {
                    BraggICRU73QOEnergyDistribution d(particle, cut, em);
                    run(d, H(d.min_secondary_energy().value()) + " " + H(d.max_secondary_energy().value()) + " ");
                }
                else
                {
                    MuBBEnergyDistribution d(particle, cut, em);
                    run(d, H(d.min_secondary_energy().value()) + " " + H(d.max_secondary_energy().value())
                               + (d.use_rad_correction_ ? " 1 " : " 0 ") + H(d.envelope_) + " ");
                }
            }
            else if (op == "matdata" && n == 1 && p[0] < w.materials->size() && !stat)
            {
                MaterialId mid{static_cast<unsigned>(p[0])};
                auto mat = w.materials->get(mid);
                auto const& u = w.fluct->host_ref().urban[mid];
                std::cout << H(mat.electron_density()) << " " << H(mat.number_density()) << " "
                          << H(value_as<MevEnergy>(mat.mean_excitation_energy())) << " "
                          << H(value_as<units::LogMevEnergy>(mat.log_mean_excitation_energy()))
                          << " " << H(u.oscillator_strength[0]) << " " << H(u.oscillator_strength[1])
                          << " " << H(u.binding_energy[0]) << " " << H(u.binding_energy[1]) << " "
                          << H(u.log_binding_energy[0]) << " " << H(u.log_binding_energy[1]) << "\n";
            }
            else if (op == "uparams" && n == 4 && !stat)
            {
                if (p[0] >= w.materials->size())
                {
                    std::cout << "bad-op\n";
                    continue;
                }
                MaterialId mid{static_cast<unsigned>(p[0])};
                auto mat = w.materials->get(mid);
                if (!(same(mat.electron_density(), p[1]) && same(mat.number_density(), p[2])
                      && same(value_as<MevEnergy>(mat.mean_excitation_energy()), p[3])))
                {
                    std::cout << "bad-data\n";
                    continue;
                }
                auto const& u = w.fluct->host_ref().urban[mid];
                std::cout << H(u.oscillator_strength[0]) << " " << H(u.oscillator_strength[1]) << " "
                          << H(u.binding_energy[0]) << " " << H(u.binding_energy[1]) << " "
                          << H(u.log_binding_energy[0]) << " " << H(u.log_binding_energy[1]) << "\n";
            }
            else if (op == "helper" && n == 12 && !stat)
            {
                if (!check_helperdata(p[0], p[1], &p[2]))
                {
                    std::cout << "bad-data\n";
                    continue;
                }
                HelperCase hc(w, p[0], p[1], &p[2]);
                auto const& h = hc.helper;
                std::cout << static_cast<int>(h.model()) << " "
                          << H(value_as<MevEnergy>(h.max_energy())) << " " << H(h.beta_sq()) << " " << H(value_as<MevMass>(h.two_mebsgs()))
                          << " " << H(h.bohr_variance().value()) << "\n";
            }
            else if ((op == "urbanctor" || op == "urban") && n == 13)
            {
                if (!check_matdata(p[0], &p[1]))
                {
                    std::cout << "bad-data\n";
                    continue;
                }
                if (op == "urbanctor" && !stat)
                {
                    UrbanCase uc(w, p[0], &p[9]);
                    auto const& d = uc.dist;
                    std::cout << H(d.max_energy_) << " " << H(d.loss_scaling_) << " "
                              << H(d.binding_energy_[0]) << " " << H(d.binding_energy_[1]) << " "
                              << H(d.xs_exc_[0]) << " " << H(d.xs_exc_[1]) << " " << H(d.xs_ion_)
                              << "\n";
                }
                else if (op == "urban" && stat)
                {
                    using HostStore = CollectionStateStore<XorwowRngStateData, MemSpace::host>;
                    auto params = std::make_shared<XorwowRngParams>(static_cast<unsigned>(seed));
                    HostStore states(params->host_ref(), StreamId{0}, 1);
                    XorwowRngEngine rng(params->host_ref(), states.ref(), TrackSlotId{0});
                    std::vector<double> xs;
                    for (std::uint64_t i = 0; i < count; ++i)
                    {
                        UrbanCase uc(w, p[0], &p[9]);
                        xs.push_back(value_as<MevEnergy>(uc.dist(rng)));
                    }
                    std::cout << moments(xs) << "\n";
                }
                else if (op == "urban" && has_script)
                {
                    UrbanCase uc(w, p[0], &p[9]);
                    vh::ScriptedEngine rng(script);
                    double r = value_as<MevEnergy>(uc.dist(rng));
                    std::cout << H(r) << " " << rng.draws() << "\n";
                }
                else
                    std::cout << "bad-op\n";
            }
            else if (op == "eloss" && n == 20)
            {
                if (!check_helperdata(p[0], p[1], &p[2]) || !check_matdata(p[0], &p[12]))
                {
                    std::cout << "bad-data\n";
                    continue;
                }
                HelperCase hc(w, p[0], p[1], &p[2]);
                if (stat)
                {
                    using HostStore = CollectionStateStore<XorwowRngStateData, MemSpace::host>;
                    auto params = std::make_shared<XorwowRngParams>(static_cast<unsigned>(seed));
                    HostStore states(params->host_ref(), StreamId{0}, 1);
                    XorwowRngEngine rng(params->host_ref(), states.ref(), TrackSlotId{0});
                    std::vector<double> xs;
                    for (std::uint64_t i = 0; i < count; ++i)
                        xs.push_back(sample_helper(hc.helper, rng));
                    std::cout << static_cast<int>(hc.helper.model()) << " " << moments(xs) << "\n";
                }
                else if (has_script)
                {
                    vh::ScriptedEngine rng(script);
                    double r = sample_helper(hc.helper, rng);
                    std::cout << static_cast<int>(hc.helper.model()) << " " << H(r) << " "
                              << rng.draws() << "\n";
                }
                else
                    std::cout << "bad-op\n";
            }
            else
                std::cout << "bad-op\n";
        }
        catch (vh::ScriptExhausted const&)
        {
            std::cout << "script-exhausted\n";
        }
    }
    return 0;
}
