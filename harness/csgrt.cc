// C10 runtime-flag harness: loads a complete OrangeInput (bundled test/orange/data/*.org.json, or
// geometries built here through the orangeinp API: UnitProto / InputBuilder) into a REAL
// OrangeParams and dumps, for every volume of every simple unit, the logic and flags the tracker
// will read (VolumeRecord in the params data) next to the VolumeInput they came from.
//
// One op per line, one answer line per op:
//   load <file under /repo/test/orange/data>     e.g. load universes.org.json
//   build <name>    name in: convex-daughter nonconvex-daughter union-boundary universes
//                            bgspheres nested-nonconvex
// Answer: `ok units <n> | U <u> <label> unit | V <v> in=<flags> out=<flags> dau=<0|1> ss=<0|1>
//          bg=<0|1> nf=<faces> L=<postfix tokens,comma separated> ; V ... | U <u> <label> array | ...`
//   in  = VolumeInput.flags handed to OrangeParams, out = VolumeRecord.flags stored,
//   dau = volume is in the unit's daughter_map, ss = every face has S::simple_safety(),
//   bg  = zorder == background, inf/mi = faces / summed intersections of the INPUT volume,
//   L = stored VolumeRecord logic, IL = input logic when it differs from L.
// The environment variable ORANGE_MAX_FACE_INTERSECT="f,i" (read by the real UnitInserter)
// forces the replacement of volumes exceeding the limits by the unreachable volume.
// Errors: `error <what>` (exception while loading/building).
#include <fstream>
#include <memory>
#include <sstream>
#include <variant>

#include <nlohmann/json.hpp>

#include "corecel/io/Logger.hh"
#include "corecel/sys/Environment.hh"
#include "orange/OrangeData.hh"
#include "orange/OrangeInput.hh"
#include "orange/OrangeInputIO.json.hh"
#include "orange/OrangeParams.hh"
#include "orange/OrangeTypes.hh"
#include "orange/orangeinp/CsgObject.hh"
#include "orange/orangeinp/InputBuilder.hh"
#include "orange/orangeinp/Shape.hh"
#include "orange/orangeinp/Transformed.hh"
#include "orange/orangeinp/UnitProto.hh"
#include "orange/surf/VariantSurface.hh"

#include "common/lineio.hh"

using namespace celeritas;
using namespace celeritas::orangeinp;

namespace
{
std::string show_tok(logic_int v)
{
    switch (v)
    {
        case logic::ltrue:
            return "*";
        case logic::lor:
            return "|";
        case logic::land:
            return "&";
        case logic::lnot:
            return "~";
        case logic::lopen:
            return "(";
        case logic::lclose:
            return ")";
        default:
            return std::to_string(v);
    }
}

std::string clean(std::string s)
{
    for (char& c : s)
        if (c == ' ' || c == '|' || c == ';')
            c = '_';
    return s.empty() ? std::string("-") : s;
}

bool surface_simple(VariantSurface const& vs)
{
    return std::visit(
        [](auto const& s) {
            return std::remove_cv_t<std::remove_reference_t<decltype(s)>>::simple_safety();
        },
        vs);
}

std::size_t surface_intersections(VariantSurface const& vs)
{
    return std::visit(
        [](auto const& s) -> std::size_t {
            using S = std::remove_cv_t<std::remove_reference_t<decltype(s)>>;
            return typename S::Intersections{}.size();
        },
        vs);
}

std::string dump(OrangeInput const& inp)
{
    // OrangeParams takes the input by value/move: keep our copy for the input-side columns
    OrangeParams params{OrangeInput{inp}};
    auto const& data = params.host_ref();

    std::string out = "ok units " + std::to_string(inp.universes.size());
    for (std::size_t u = 0; u < inp.universes.size(); ++u)
    {
        UniverseId uid{static_cast<size_type>(u)};
        auto const* unit_in = std::get_if<UnitInput>(&inp.universes[u]);
        if (!unit_in)
        {
            auto const& arr = std::get<RectArrayInput>(inp.universes[u]);
            out += " | U " + std::to_string(u) + " " + clean(arr.label.name) + " array";
            continue;
        }
        out += " | U " + std::to_string(u) + " " + clean(unit_in->label.name) + " unit";
        if (data.universe_types[uid] != UniverseType::simple)
        {
            out += " TYPE-MISMATCH";
            continue;
        }
        auto const& unit = data.simple_units[SimpleUnitId{data.universe_indices[uid]}];
        for (std::size_t v = 0; v < unit_in->volumes.size(); ++v)
        {
            LocalVolumeId lv{static_cast<size_type>(v)};
            VolumeInput const& vin = unit_in->volumes[v];
            VolumeRecord const& rec = data.volume_records[unit.volumes[lv]];
            bool ss = true;
            std::size_t mi = 0;
            for (auto f : vin.faces)
            {
                ss = ss && surface_simple(unit_in->surfaces[f.unchecked_get()]);
                mi += surface_intersections(unit_in->surfaces[f.unchecked_get()]);
            }
            out += (v == 0 ? " | V " : " ; V ") + std::to_string(v)
                   + " in=" + std::to_string(vin.flags) + " out=" + std::to_string(rec.flags)
                   + " dau=" + (unit_in->daughter_map.count(lv) ? "1" : "0")
                   + " ss=" + (ss ? "1" : "0")
                   + " bg=" + (vin.zorder == ZOrder::background ? "1" : "0")
                   + " inf=" + std::to_string(vin.faces.size()) + " mi=" + std::to_string(mi)
                   + " nf=" + std::to_string(data.local_surface_ids[rec.faces].size()) + " L=";
            bool first = true;
            auto stored = data.logic_ints[rec.logic];
            for (logic_int t : stored)
            {
                out += (first ? "" : ",") + show_tok(t);
                first = false;
            }
            if (!(stored.size() == vin.logic.size()
                  && std::equal(stored.begin(), stored.end(), vin.logic.begin())))
            {
                out += " IL=";
                first = true;
                for (logic_int t : vin.logic)
                {
                    out += (first ? "" : ",") + show_tok(t);
                    first = false;
                }
            }
        }
    }
    return out;
}

//---------------------------------------------------------------------------//
// geometries built through the orangeinp API
template<class CR, class... Args>
SPConstObject make_shape(std::string&& label, Args&&... args)
{
    return std::make_shared<Shape<CR>>(std::move(label), CR{std::forward<Args>(args)...});
}
SPConstObject make_translated(SPConstObject&& obj, Real3 const& trans)
{
    return std::make_shared<Transformed>(std::move(obj), Translation{trans});
}
SPConstObject make_sph(std::string&& label, real_type radius)
{
    return make_shape<orangeinp::Sphere>(std::move(label), radius);
}
SPConstObject make_box(std::string&& label, Real3 const& lo, Real3 const& hi)
{
    Real3 half{(hi[0] - lo[0]) / 2, (hi[1] - lo[1]) / 2, (hi[2] - lo[2]) / 2};
    Real3 center{(hi[0] + lo[0]) / 2, (hi[1] + lo[1]) / 2, (hi[2] + lo[2]) / 2};
    auto result = make_shape<orangeinp::Box>(std::move(label), half);
    if (center[0] != 0 || center[1] != 0 || center[2] != 0)
        result = make_translated(std::move(result), center);
    return result;
}
UnitProto::MaterialInput make_material(SPConstObject&& obj, GeoMaterialId::size_type m)
{
    UnitProto::MaterialInput result;
    result.interior = std::move(obj);
    result.fill = GeoMaterialId{m};
    return result;
}

using SPProto = std::shared_ptr<UnitProto const>;

// daughter whose boundary is a single box (convex) or a union of two spheres (non-convex)
SPProto make_inner(bool convex, std::string label)
{
    UnitProto::Input inp;
    inp.label = std::move(label);
    inp.boundary.zorder = ZOrder::media;
    if (convex)
    {
        auto b = make_box(inp.label + ":box", {-1, -1, -1}, {1, 1, 1});
        inp.boundary.interior = b;
        inp.materials.push_back(make_material(SPConstObject{b}, 1));
    }
    else
    {
        auto bottom = make_sph(inp.label + ":bottom", 5.0);
        auto top = make_translated(make_sph(inp.label + ":top", 5.0), {0, 0, 4});
        inp.boundary.interior = std::make_shared<AnyObjects>(
            inp.label + ":union", AnyObjects::VecObject{bottom, top});
        inp.materials.push_back(make_material(SPConstObject{bottom}, 1));
        inp.materials.push_back(
            make_material(make_subtraction(inp.label + ":bite", top, bottom), 1));
    }
    return std::make_shared<UnitProto>(std::move(inp));
}

SPProto make_outer(std::vector<std::pair<SPProto, Real3>> daughters, std::string label)
{
    UnitProto::Input inp;
    inp.label = std::move(label);
    inp.boundary.interior = make_sph(inp.label + ":bound", 40.0);
    inp.boundary.zorder = ZOrder::media;
    VecSenseObj rdv{{Sense::inside, inp.boundary.interior}};
    for (auto& d : daughters)
    {
        inp.daughters.push_back({d.first, Translation{d.second}});
        rdv.push_back({Sense::outside, inp.daughters.back().make_interior()});
    }
    inp.materials.push_back(make_material(make_rdv(inp.label + ":shell", std::move(rdv)), 2));
    return std::make_shared<UnitProto>(std::move(inp));
}

OrangeInput build_named(std::string const& name)
{
    SPProto global;
    if (name == "convex-daughter")
    {
        global = make_outer({{make_inner(true, "inner"), {0, 0, 0}}}, "global");
    }
    else if (name == "nonconvex-daughter" || name == "union-boundary")
    {
        global = make_outer({{make_inner(false, "inner"), {0, 0, 1.234}}}, "global");
    }
    else if (name == "universes")
    {
        // one convex and one non-convex daughter side by side, the convex one used twice
        auto c = make_inner(true, "cinner");
        auto n = make_inner(false, "ninner");
        global = make_outer({{c, {-20, 0, 0}}, {n, {0, 0, 0}}, {c, {20, 0, 0}}}, "global");
    }
    else if (name == "nested-nonconvex")
    {
        // non-convex daughter inside a middle universe inside the global one
        auto n = make_inner(false, "ninner");
        UnitProto::Input mid;
        mid.label = "middle";
        mid.boundary.interior = make_box("middle:box", {-12, -12, -12}, {12, 12, 16});
        mid.boundary.zorder = ZOrder::media;
        mid.daughters.push_back({n, Translation{{0, 0, 0}}});
        mid.materials.push_back(make_material(
            make_rdv("middle:fill",
                     {{Sense::inside, mid.boundary.interior},
                      {Sense::outside, mid.daughters[0].make_interior()}}),
            3));
        global = make_outer({{std::make_shared<UnitProto>(std::move(mid)), {0, 0, 0}}}, "global");
    }
    else if (name == "bgspheres")
    {
        UnitProto::Input inp;
        inp.label = "global";
        inp.boundary.interior = make_sph("bound", 10.0);
        inp.boundary.zorder = ZOrder::media;
        inp.background.fill = GeoMaterialId{0};
        inp.materials.push_back(
            make_material(make_translated(make_sph("top", 2.0), {0, 0, 3}), 1));
        inp.materials.push_back(
            make_material(make_translated(make_sph("bottom", 3.0), {0, 0, -3}), 2));
        global = std::make_shared<UnitProto>(std::move(inp));
    }
    else
    {
        throw std::runtime_error("unknown geometry name");
    }
    InputBuilder::Options opts;
    opts.tol = Tolerance<>::from_relative(1e-5);
    InputBuilder build_input{std::move(opts)};
    return build_input(*global);
}
}  // namespace

int main()
{
    std::string line;
    while (std::getline(std::cin, line))
    {
        auto w = vh::words(line);
        std::string out = "bad-op";
        try
        {
            if (w.size() == 2 && w[0] == "load" && w[1].find('/') == std::string::npos
                && w[1].find("..") == std::string::npos)
            {
                std::ifstream infile("/repo/test/orange/data/" + w[1]);
                if (!infile)
                {
                    out = "error cannot-open";
                }
                else
                {
                    OrangeInput inp;
                    nlohmann::json::parse(infile).get_to(inp);
                    out = dump(inp);
                }
            }
            else if (w.size() == 2 && w[0] == "build")
            {
                out = dump(build_named(w[1]));
            }
        }
        catch (std::exception const& e)
        {
            std::string msg = e.what();
            for (char& c : msg)
                if (c == '\n')
                    c = ' ';
            out = "error " + msg.substr(0, 300);
        }
        std::cout << out << std::endl;
    }
    return 0;
}
