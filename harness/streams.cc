// C07 harness (H3): K host threads, each owning a Stepper (its own CoreState / aux state) over
// ONE shared CoreParams with a step collector (all fields), ActionDiagnostic, StepDiagnostic
// attached — or a SimpleCalo as the collector's callback (calo=1).
//
//   run prob=simple|mock slots=N streams=K prims=N seed=S assign=<s0,s1,...> mode=threads|serial
//       calo=0|1 sched=<seed> cut=<e>,<e>,...
//     cut : the listed events are stopped by a step limit at the FIRST iteration after which no
//           track is alive while primaries are still queued (more primaries than slots), and
//           the stream's state is reset (CoreState::reset, as a transporter does after an
//           aborted event); the iterations done so far are reported (cut=1 q=<queued>).  An
//           event that never reaches such an iteration runs to completion (cut=0).
//     sched != 0 : schedule perturbation — every thread draws from its own SplitMix64
//                  (seeded by sched and its stream id) and yields / sleeps 0-200 us before it
//                  constructs its Stepper, before every step and inside the step (a user_pre
//                  action), so that different seeds give different interleavings
//     assign[e] = stream that transports event e (event id e, primaries seed S*1000+e)
//     mode=threads : one std::thread per stream; every thread constructs its Stepper itself
//                    (as celer-sim's Runner does lazily), waits at a barrier, then transports
//                    its events in order
//     mode=serial  : the same assignment, stream after stream on the calling thread
//   Output: one line per event, sorted by event id
//       event id=<e> steps=<n> hash=<fnv of the (track,step)-sorted stream> res=<StepperResult hash>
//     then `totals adiag=<h> sdiag=<h> calo=<bits...>` and `done`.
// The check compares per-event lines of every assignment/thread run with the single-stream
// serial run, and totals with the serial run of the same assignment.
#include <atomic>
#include <condition_variable>
#include <iostream>
#include <mutex>
#include <thread>

#include <chrono>

#include "celeritas/global/ActionInterface.hh"
#include "celeritas/user/ActionDiagnostic.hh"
#include "celeritas/user/SimpleCalo.hh"
#include "celeritas/user/StepCollector.hh"
#include "celeritas/user/StepDiagnostic.hh"

#include "common/h3common.hh"

using namespace celeritas;

namespace
{
struct EventOut
{
    bool cut = false;
    size_type cut_queued = 0;
    size_type steps = 0;
    std::uint64_t hash = 0, res = 0;
    bool ok = false;
    std::string err;
};

class Barrier
{
  public:
    explicit Barrier(int n) : n_(n) {}
    void wait()
    {
        std::unique_lock<std::mutex> lk(m_);
        if (++count_ == n_)
        {
            cv_.notify_all();
        }
        else
        {
            cv_.wait(lk, [this] { return count_ >= n_; });
        }
    }

  private:
    std::mutex m_;
    std::condition_variable cv_;
    int n_, count_{0};
};

//! per-stream schedule perturbation (element s is only ever touched by the thread of stream s)
struct Perturb
{
    std::vector<h3::SplitMix64> rng;
    bool on = false;
    void operator()(size_type s)
    {
        if (!on)
            return;
        auto k = rng[s].below(8);
        if (k < 3)
            std::this_thread::yield();
        else if (k == 3)
            std::this_thread::sleep_for(std::chrono::microseconds(rng[s].below(200)));
    }
};

class PerturbAction final : public CoreStepActionInterface, public ConcreteAction
{
  public:
    PerturbAction(ActionId id, Perturb* p) : ConcreteAction(id, "verif-perturb"), p_(p) {}
    StepActionOrder order() const final { return StepActionOrder::user_pre; }
    void step(CoreParams const&, CoreStateHost& state) const final
    {
        (*p_)(state.stream_id().get());
    }
    void step(CoreParams const&, CoreStateDevice&) const final {}

  private:
    Perturb* p_;
};

std::uint64_t hash_map(std::map<std::string, size_type> const& m)
{
    std::uint64_t h = h3::fnv0;
    for (auto const& kv : m)
    {
        for (char c : kv.first)
            h = h3::fnv(h, std::uint64_t(c));
        h = h3::fnv(h, kv.second);
    }
    return h;
}
template<class V>
std::uint64_t hash_counts(V const& vv)
{
    std::uint64_t h = h3::fnv0;
    for (auto const& row : vv)
        for (auto v : row)
            h = h3::fnv(h, v);
    return h;
}

void run(std::map<std::string, std::string> const& kv)
{
    h3::Options opt;
    opt.problem = h3::kv_str(kv, "prob", "mock");
    size_type K = h3::kv_num(kv, "streams", 2);
    opt.max_streams = K;
    size_type slots = h3::kv_num(kv, "slots", 8), prims = h3::kv_num(kv, "prims", 4);
    std::uint64_t seed = h3::kv_num(kv, "seed", 0);
    bool threads = h3::kv_str(kv, "mode", "threads") == "threads";
    bool use_calo = h3::kv_num(kv, "calo", 0);
    size_type maxloops = h3::kv_num(kv, "maxloops", 200000);
    std::vector<size_type> assign;
    {
        std::string a = h3::kv_str(kv, "assign", "0");
        size_t p = 0;
        while (p <= a.size())
        {
            size_t q = a.find(',', p);
            if (q == std::string::npos)
                q = a.size();
            unsigned long v;
            if (!h3::parse_dec(a.substr(p, q - p), &v) || v >= K)
            {
                std::cout << "bad-op\n";
                return;
            }
            assign.push_back(v);
            p = q + 1;
        }
    }
    std::vector<bool> cutset(assign.size(), false);
    {
        std::string a = h3::kv_str(kv, "cut", "");
        size_t p = 0;
        while (!a.empty() && p <= a.size())
        {
            size_t q = a.find(',', p);
            if (q == std::string::npos)
                q = a.size();
            unsigned long v;
            if (!h3::parse_dec(a.substr(p, q - p), &v) || v >= assign.size())
            {
                std::cout << "bad-op\n";
                return;
            }
            cutset[v] = true;
            p = q + 1;
        }
    }
    if (K < 1 || K > 32 || slots < 1 || slots > 256 || assign.empty() || assign.size() > 256)
    {
        std::cout << "bad-op\n";
        return;
    }
    auto prob = h3::make_problem(opt);
    if (!prob)
    {
        std::cout << "bad-op\n";
        return;
    }
    std::shared_ptr<h3::AllRecorder> rec;
    std::shared_ptr<SimpleCalo> calo;
    std::shared_ptr<StepCollector> collector;
    if (use_calo)
    {
        std::vector<Label> labels;
        auto const& vols = prob->core->geometry()->volumes();
        for (auto v : range(VolumeId{vols.size()}))
        {
            if (vols.at(v).name != "[EXTERIOR]")
                labels.push_back(vols.at(v));
        }
        calo = std::make_shared<SimpleCalo>(std::move(labels), *prob->core->geometry(), K);
        collector = StepCollector::make_and_insert(*prob->core, {calo});
    }
    else
    {
        rec = std::make_shared<h3::AllRecorder>(K);
        collector = StepCollector::make_and_insert(*prob->core, {rec});
    }
    auto ad = ActionDiagnostic::make_and_insert(*prob->core);
    auto sd = StepDiagnostic::make_and_insert(*prob->core, 8);
    Perturb perturb;
    {
        std::uint64_t sched = h3::kv_num(kv, "sched", 0);
        perturb.on = sched != 0 && threads;
        for (size_type s = 0; s < K; ++s)
            perturb.rng.emplace_back(sched * 0x9E3779B97F4A7C15ull + s * 7919 + 1);
        if (perturb.on)
        {
            prob->actions().insert(
                std::make_shared<PerturbAction>(prob->actions().next_id(), &perturb));
        }
    }

    std::vector<EventOut> results(assign.size());
    Barrier barrier(threads ? int(K) : 1);
    std::shared_ptr<CoreParams const> core = prob->core;

    auto work = [&](size_type s) {
        bool waited = false;
        try
        {
            StepperInput si;
            si.params = core;
            si.stream_id = StreamId{s};
            si.num_track_slots = slots;
            perturb(s);
            perturb(s);
            Stepper<MemSpace::host> step(si);
            if (threads)
            {
                waited = true;
                barrier.wait();
            }
            for (size_type e = 0; e < assign.size(); ++e)
            {
                if (assign[e] != s)
                    continue;
                auto& out = results[e];
                auto primaries = h3::make_primaries(*prob, seed * 1000 + e, prims, EventId{0});
                step.reseed(UniqueEventId{e});
                std::uint64_t rh = h3::fnv0;
                size_type loops = 0;
                auto add = [&](StepperResult const& r) {
                    rh = h3::fnv(h3::fnv(h3::fnv(h3::fnv(rh, r.generated), r.active), r.alive),
                                 r.queued);
                    ++loops;
                };
                perturb(s);
                StepperResult r = step(make_span(primaries));
                add(r);
                auto at_cut = [&] { return cutset[e] && r.alive == 0 && r.queued > 0; };
                while (r && loops < maxloops && !at_cut())
                {
                    perturb(s);
                    r = step();
                    add(r);
                }
                if (r && at_cut())
                {
                    // step limit hit: drop the rest of the event and reset the stream's state
                    out.cut = true;
                    out.cut_queued = r.queued;
                    auto& st = dynamic_cast<CoreState<MemSpace::host>&>(
                        const_cast<CoreStateInterface&>(step.state()));
                    st.reset();
                    r = StepperResult{};
                }
                out.res = rh;
                if (rec)
                {
                    auto recs = rec->take(s);
                    out.steps = recs.size();
                    out.hash = h3::hash_steps(recs);
                }
                out.ok = !r;
                if (r)
                    out.err = "did not finish";
            }
        }
        catch (std::exception const& ex)
        {
            for (size_type e = 0; e < assign.size(); ++e)
                if (assign[e] == s && !results[e].ok)
                    results[e].err = ex.what();
            if (threads && !waited)
            {
                // never leave the others waiting
                barrier.wait();
            }
        }
    };

    if (threads)
    {
        std::vector<std::thread> pool;
        for (size_type s = 0; s < K; ++s)
            pool.emplace_back(work, s);
        for (auto& t : pool)
            t.join();
    }
    else
    {
        for (size_type s = 0; s < K; ++s)
            work(s);
    }
    for (size_type e = 0; e < assign.size(); ++e)
    {
        auto const& o = results[e];
        if (!o.ok)
        {
            std::string w = o.err;
            for (auto& c : w)
                if (c == '\n')
                    c = ' ';
            std::cout << "event id=" << e << " FAILED " << w.substr(0, 200) << "\n";
            continue;
        }
        std::cout << "event id=" << e << " steps=" << o.steps << " hash=" << vh::hex(o.hash, 16)
                  << " res=" << vh::hex(o.res, 16) << " cut=" << (o.cut ? 1 : 0)
                  << " q=" << o.cut_queued << "\n";
    }
    std::cout << "totals adiag=" << vh::hex(hash_map(ad->calc_actions_map()), 16)
              << " sdiag=" << vh::hex(hash_counts(sd->calc_steps()), 16) << " calo=";
    if (calo)
    {
        for (auto v : calo->calc_total_energy_deposition())
            std::cout << vh::hexd(v) << ",";
    }
    else
    {
        std::cout << "-";
    }
    std::cout << "\ndone\n";
}
}  // namespace

int main()
{
    std::string line;
    while (std::getline(std::cin, line))
    {
        auto w = vh::words(line);
        try
        {
            if (w.empty() || w[0] != "run")
                std::cout << "bad-op\n";
            else
                run(h3::keyvals(w, 1));
        }
        catch (std::exception const& e)
        {
            std::string s = e.what();
            for (auto& c : s)
                if (c == '\n')
                    c = ' ';
            std::cout << "exception " << s.substr(0, 400) << "\n";
        }
        std::cout.flush();
    }
    return 0;
}
