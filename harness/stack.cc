// C16 harness (H1): drives the real corecel StackAllocator with the same one-op-per-line
// protocol as lean/CelerVerif/Model/StackDriver.lean.  Numbers are hexadecimal.
#include <memory>

#include "corecel/data/Collection.hh"
#include "corecel/data/CollectionAlgorithms.hh"
#include "corecel/data/StackAllocator.hh"

#include "common/lineio.hh"

using namespace celeritas;

struct Elem
{
    unsigned int id = 0xdead;  // default member initialiser: observed after placement new
};

using ValData = StackAllocatorData<Elem, Ownership::value, MemSpace::host>;
using RefData = StackAllocatorData<Elem, Ownership::reference, MemSpace::host>;

int main()
{
    auto val = std::make_unique<ValData>();
    RefData ref;
    size_type cap = 0;
    auto rebuild = [&](size_type c) {
        val = std::make_unique<ValData>();
        // as celeritas::resize(StackAllocatorData*, capacity) but without the
        // `capacity > 0` precondition, to exercise capacity 0
        resize(&val->storage, c);
        resize(&val->size, 1);
        celeritas::fill(size_type(0), &val->size);
        for (auto i : range(ItemId<Elem>{c}))
            val->storage[i].id = 0;
        ref.storage = val->storage;
        ref.size = val->size;
        cap = c;
    };
    rebuild(0);

    std::string line;
    while (std::getline(std::cin, line))
    {
        auto w = vh::words(line);
        std::uint64_t a = 0, b = 0;
        auto& raw_size = ref.size[ItemId<size_type>{0}];
        if (w.size() == 2 && w[0] == "new" && vh::parse_hex(w[1], &a) && a <= 0x10000)
        {
            rebuild(static_cast<size_type>(a));
            StackAllocator<Elem> alloc(ref);
            std::cout << "cap " << alloc.capacity() << " size "
                      << ref.size[ItemId<size_type>{0}] << "\n";
        }
        else if (w.size() == 2 && w[0] == "alloc" && vh::parse_hex(w[1], &a) && a > 0
                 && std::uint64_t(raw_size) + a < (1ull << 32))
        {
            StackAllocator<Elem> alloc(ref);
            Elem* p = alloc(static_cast<size_type>(a));
            if (p)
            {
                std::cout << "ok " << (p - &ref.storage[ItemId<Elem>{0}]) << " size "
                          << raw_size << "\n";
            }
            else
            {
                std::cout << "null size " << raw_size << "\n";
            }
        }
        else if (w.size() == 3 && w[0] == "write" && vh::parse_hex(w[1], &a)
                 && vh::parse_hex(w[2], &b) && a < raw_size && a < cap && b < 0x10000)
        {
            StackAllocator<Elem> alloc(ref);
            alloc.get()[a].id = static_cast<unsigned int>(b);
            std::cout << "ok\n";
        }
        else if (w.size() == 1 && w[0] == "get")
        {
            if (raw_size <= cap)
            {
                StackAllocator<Elem> const alloc(ref);
                auto sp = alloc.get();
                std::string out = "get " + std::to_string(sp.size()) + " : ";
                bool first = true;
                for (auto const& e : sp)
                {
                    out += (first ? "" : " ") + vh::hex(e.id, 4);
                    first = false;
                }
                std::cout << out << "\n";
            }
            else
            {
                std::cout << "get overflow " << raw_size << "\n";
            }
        }
        else if (w.size() == 1 && w[0] == "size")
        {
            std::cout << "size " << raw_size << "\n";
        }
        else if (w.size() == 1 && w[0] == "clear")
        {
            StackAllocator<Elem> alloc(ref);
            alloc.clear();
            std::cout << "size " << raw_size << "\n";
        }
        else if (w.size() == 2 && w[0] == "setsize" && vh::parse_hex(w[1], &a)
                 && a < (1ull << 32))
        {
            raw_size = static_cast<size_type>(a);
            std::cout << "size " << raw_size << "\n";
        }
        else
        {
            std::cout << "bad-op\n";
        }
    }
    return 0;
}
