// C12 harness: real ORANGE surface classes, QuadraticSolver (through them), transforms and
// SurfaceTranslator, driven by the protocol of lean/CelerVerif/Model/SurfDriver.lean.
#include <string>
#include <vector>

#include "orange/surf/ConeAligned.hh"
#include "orange/surf/CylAligned.hh"
#include "orange/surf/CylCentered.hh"
#include "orange/surf/GeneralQuadric.hh"
#include "orange/surf/Plane.hh"
#include "orange/surf/PlaneAligned.hh"
#include "orange/surf/SimpleQuadric.hh"
#include "orange/surf/Sphere.hh"
#include "orange/surf/SphereCentered.hh"
#include "orange/surf/detail/SurfaceTranslator.hh"
#include "orange/transform/Transformation.hh"
#include "orange/transform/Translation.hh"

#include "common/lineio.hh"

using namespace celeritas;
using std::string;
using vecd = std::vector<double>;

static string hv(Real3 const& v)
{
    return vh::hexd(v[0]) + " " + vh::hexd(v[1]) + " " + vh::hexd(v[2]);
}
template<class S>
static string show_data(string tag, S const& s)
{
    string out = tag;
    for (auto d : s.data())
        out += " " + vh::hexd(d);
    return out;
}
template<class T>
struct TagOf;
#define TAG(T, S)                               \
    template<>                                  \
    struct TagOf<T>                             \
    {                                           \
        static string get() { return S; }       \
    }
TAG(PlaneX, "px"); TAG(PlaneY, "py"); TAG(PlaneZ, "pz"); TAG(Plane, "p");
TAG(CCylX, "cxc"); TAG(CCylY, "cyc"); TAG(CCylZ, "czc");
TAG(CylX, "cx"); TAG(CylY, "cy"); TAG(CylZ, "cz");
TAG(SphereCentered, "sc"); TAG(Sphere, "s");
TAG(ConeX, "kx"); TAG(ConeY, "ky"); TAG(ConeZ, "kz");
TAG(SimpleQuadric, "sq"); TAG(GeneralQuadric, "gq");

template<class S>
static string apply(string const& op, vecd const& d, vecd const& a)
{
    constexpr auto N = S::StorageSpan::extent;
    if (d.size() != N)
        return "bad-op";
    S surf{Span<double const, N>{d.data(), N}};
    if (op == "sense" && a.size() == 3)
    {
        auto s = surf.calc_sense(Real3{a[0], a[1], a[2]});
        return std::to_string(static_cast<int>(s));
    }
    if (op == "isect" && a.size() == 7)
    {
        auto r = surf.calc_intersections(Real3{a[0], a[1], a[2]},
                                         Real3{a[3], a[4], a[5]},
                                         a[6] != 0.0 ? SurfaceState::on : SurfaceState::off);
        string out = vh::hexd(r[0]);
        out += " " + (r.size() > 1 ? vh::hexd(r[r.size() - 1]) : string("7ff0000000000000"));
        return out;
    }
    if (op == "normal" && a.size() == 3)
    {
        return hv(surf.calc_normal(Real3{a[0], a[1], a[2]}));
    }
    if (op == "translate" && a.size() == 3)
    {
        detail::SurfaceTranslator tr{Translation{Real3{a[0], a[1], a[2]}}};
        auto out = tr(surf);
        return show_data(TagOf<decltype(out)>::get(), out);
    }
    return "bad-op";
}

static string dispatch(string const& op, string const& tag, vecd const& d, vecd const& a)
{
#define CASE(T) if (tag == TagOf<T>::get()) return apply<T>(op, d, a)
    CASE(PlaneX); CASE(PlaneY); CASE(PlaneZ); CASE(Plane);
    CASE(CCylX); CASE(CCylY); CASE(CCylZ);
    CASE(CylX); CASE(CylY); CASE(CylZ);
    CASE(SphereCentered); CASE(Sphere);
    CASE(ConeX); CASE(ConeY); CASE(ConeZ);
    CASE(SimpleQuadric); CASE(GeneralQuadric);
    return "bad-op";
}

static bool parse_all(std::vector<string> const& w, std::size_t b, std::size_t e, vecd* out)
{
    for (std::size_t i = b; i < e; ++i)
    {
        std::uint64_t u;
        if (!vh::parse_hex(w[i], &u))
            return false;
        out->push_back(vh::bits_dbl(u));
    }
    return true;
}

int main()
{
    string line;
    while (std::getline(std::cin, line))
    {
        auto w = vh::words(line);
        if (w.empty())
        {
            std::cout << "bad-op\n";
            continue;
        }
        string const& op = w[0];
        if (op == "sense" || op == "isect" || op == "normal" || op == "translate")
        {
            std::size_t bar = 1;
            while (bar < w.size() && w[bar] != "|")
                ++bar;
            vecd d, a;
            if (w.size() < 3 || bar >= w.size() || !parse_all(w, 2, bar, &d)
                || !parse_all(w, bar + 1, w.size(), &a))
            {
                std::cout << "bad-op\n";
                continue;
            }
            std::cout << dispatch(op, w[1], d, a) << "\n";
        }
        else if (op == "tup" || op == "tdown")
        {
            vecd a;
            if (w.size() != 7 || !parse_all(w, 1, 7, &a))
            {
                std::cout << "bad-op\n";
                continue;
            }
            Translation t{Real3{a[0], a[1], a[2]}};
            Real3 p{a[3], a[4], a[5]};
            std::cout << hv(op == "tup" ? t.transform_up(p) : t.transform_down(p)) << "\n";
        }
        else if (op == "xup" || op == "xdown" || op == "rup" || op == "rdown")
        {
            vecd a;
            if (w.size() != 16 || !parse_all(w, 1, 16, &a))
            {
                std::cout << "bad-op\n";
                continue;
            }
            // storage constructor: no orthogonality check, data = 9 rot (row major) + 3 tra
            Transformation t{Span<double const, 12>{a.data(), 12}};
            Real3 v{a[12], a[13], a[14]};
            Real3 r = op == "xup"     ? t.transform_up(v)
                      : op == "xdown" ? t.transform_down(v)
                      : op == "rup"   ? t.rotate_up(v)
                                      : t.rotate_down(v);
            std::cout << hv(r) << "\n";
        }
        else
        {
            std::cout << "bad-op\n";
        }
    }
    return 0;
}
