// C08 harness: the REAL FieldPropagator / FieldDriver / steppers of /repo run on real ORANGE
// geometries through *recording template wrappers* (no source change):
//
//   FieldPropagator< RecordingDriver< FieldDriver< RecordingStepper<RealStepper> > >, RecordingGeo >
//
// Every call the propagator makes to the driver and to the geometry track view, and every call
// the driver makes to the stepper, is written to a trace together with its arguments and its
// answer (doubles as 16-hex-digit bit patterns).  The Lean model (Model/FieldProp*.lean) is fed
// the ANSWERS only (oracle inputs) and must reproduce every call, every argument and the result.
//
// protocol (one line in, one line out):
//   run   k=v ...      propagate (see parse below)          -> trace
//   drv   k=v ...      FieldDriver::advance sequence alone  -> trace
//   zh    <Bz> <q> <step> <pos3> <mom3>    ZHelixStepper    -> mid end err (18 doubles)
//   rhs   <Bx By Bz> <q> <pos3> <mom3>     MagFieldEquation -> 6 doubles
//   step  <dp|rk4> <Bx By Bz> <q> <step> <pos3> <mom3>      -> mid end err (18 doubles)
//   opts  <13 values>  validate_input + operator bool       -> ok|invalid  0|1
//   coeff <q>          charge / momentum-unit coefficient of MagFieldEquation
//   defaults           default FieldDriverOptions + static constants
//   <anything else>    bad-op
//
// trace tokens:  B <step> | p <momentum> | g0 <pos3> <dir3> | onb <0/1>
//   adv <remaining> <pos3> <mom3>   (driver call)      -> <substep> <pos3> <mom3>
//   st <h> <pos3> <mom3>            (stepper call)     => <mid pos3 mom3> <end pos3 mom3> <err pos3 mom3>
//   sd <dir3> | fns <max> -> <b> <dist> | mi <pos3> | mtb -> <pos3>
//   res <distance> <boundary> <looping> | fin <pos3> <dir3> <onb> | X (cross_boundary) | out (left world)
#include <cmath>
#include <fstream>
#include <map>
#include <memory>
#include <string>
#include <vector>

#include "corecel/data/CollectionStateStore.hh"
#include "corecel/math/ArrayUtils.hh"
#include "geocel/Types.hh"
#include "orange/OrangeParams.hh"
#include "orange/OrangeTrackView.hh"
#include "celeritas/Quantities.hh"
#include "celeritas/field/DormandPrinceStepper.hh"
#include "celeritas/field/FieldDriver.hh"
#include "celeritas/field/FieldDriverOptions.hh"
#include "celeritas/field/FieldPropagator.hh"
#include "celeritas/field/MagFieldEquation.hh"
#include "celeritas/field/MakeMagFieldPropagator.hh"
#include "celeritas/field/RZMapField.hh"
#include "celeritas/field/RZMapFieldInput.hh"
#include "celeritas/field/RZMapFieldParams.hh"
#include "celeritas/field/RungeKuttaStepper.hh"
#include "celeritas/field/UniformField.hh"
#include "celeritas/field/UniformZField.hh"
#include "celeritas/field/ZHelixStepper.hh"
#include "celeritas/phys/PDGNumber.hh"
#include "celeritas/phys/ParticleData.hh"
#include "celeritas/phys/ParticleParams.hh"
#include "celeritas/phys/ParticleTrackView.hh"

#include "common/lineio.hh"

using namespace celeritas;
using std::string;

//---------------------------------------------------------------------------//
struct Trace
{
    string s;
    bool steps{true};  // record stepper calls
    void tok(char const* t)
    {
        if (!s.empty())
            s += ' ';
        s += t;
    }
    void d(double v)
    {
        s += ' ';
        s += vh::hexd(v);
    }
    void v3(Real3 const& v)
    {
        d(v[0]);
        d(v[1]);
        d(v[2]);
    }
    void ode(OdeState const& y)
    {
        v3(y.pos);
        v3(y.mom);
    }
};

template<class S>
struct RecordingStepper
{
    S real;
    Trace* tr;
    FieldStepperResult operator()(real_type step, OdeState const& state) const
    {
        FieldStepperResult r = real(step, state);
        if (tr->steps)
        {
            tr->tok("st");
            tr->d(step);
            tr->ode(state);
            tr->tok("=>");
            tr->ode(r.mid_state);
            tr->ode(r.end_state);
            tr->ode(r.err_state);
        }
        return r;
    }
};

template<class D>
struct RecordingDriver
{
    D* real;
    Trace* tr;
    DriverResult advance(real_type step, OdeState const& state)
    {
        tr->tok("adv");
        tr->d(step);
        tr->ode(state);
        DriverResult r = real->advance(step, state);
        tr->tok("->");
        tr->d(r.step);
        tr->ode(r.state);
        return r;
    }
    short int max_substeps() const { return real->max_substeps(); }
    real_type minimum_step() const { return real->minimum_step(); }
    real_type delta_intersection() const { return real->delta_intersection(); }
};

struct RecordingGeo
{
    OrangeTrackView* g;
    Trace* tr;
    Real3 const& pos() const { return g->pos(); }
    Real3 const& dir() const { return g->dir(); }
    bool is_on_boundary() const { return g->is_on_boundary(); }
    void set_dir(Real3 const& d)
    {
        tr->tok("sd");
        tr->v3(d);
        g->set_dir(d);
    }
    Propagation find_next_step(real_type max_step)
    {
        tr->tok("fns");
        tr->d(max_step);
        Propagation p = g->find_next_step(max_step);
        tr->tok("->");
        tr->s += p.boundary ? " 1" : " 0";
        tr->d(p.distance);
        return p;
    }
    void move_internal(Real3 const& p)
    {
        tr->tok("mi");
        tr->v3(p);
        g->move_internal(p);
    }
    void move_to_boundary()
    {
        tr->tok("mtb");
        g->move_to_boundary();
        tr->tok("->");
        tr->v3(g->pos());
    }
};

//---------------------------------------------------------------------------//
static string repo_root()
{
    char const* e = std::getenv("VERIF_REPO");
    return e ? string(e) : string("/repo");
}

using GeoStore = CollectionStateStore<OrangeStateData, MemSpace::host>;
using ParStore = CollectionStateStore<ParticleStateData, MemSpace::host>;

struct Geo
{
    std::shared_ptr<OrangeParams> params;
    std::unique_ptr<GeoStore> store;
};

static Geo* get_geo(string const& name)
{
    static std::map<string, std::unique_ptr<Geo>> cache;
    auto it = cache.find(name);
    if (it != cache.end())
        return it->second.get();
    for (auto const& dir : {"/test/geocel/data/", "/test/orange/data/"})
    {
        string fn = repo_root() + dir + name + ".org.json";
        if (std::ifstream(fn).good())
        {
            auto g = std::make_unique<Geo>();
            g->params = std::make_shared<OrangeParams>(fn);
            g->store = std::make_unique<GeoStore>(g->params->host_ref(), 1);
            return (cache[name] = std::move(g)).get();
        }
    }
    return nullptr;
}

struct Particles
{
    std::shared_ptr<ParticleParams> params;
    std::unique_ptr<ParStore> store;
};

static Particles& particles()
{
    static Particles p = [] {
        using namespace units;
        double sd = constants::stable_decay_constant;
        ParticleParams::Input defs = {
            {"e-", pdg::electron(), MevMass{0.5109989461}, ElementaryCharge{-1}, sd},
            {"e+", pdg::positron(), MevMass{0.5109989461}, ElementaryCharge{1}, sd},
            {"mu-", PDGNumber{13}, MevMass{105.6583745}, ElementaryCharge{-1}, sd},
            {"mu+", PDGNumber{-13}, MevMass{105.6583745}, ElementaryCharge{1}, sd},
            {"p", PDGNumber{2212}, MevMass{938.27208816}, ElementaryCharge{1}, sd},
            {"pbar", PDGNumber{-2212}, MevMass{938.27208816}, ElementaryCharge{-1}, sd},
            {"alpha", PDGNumber{1000020040}, MevMass{3727.379}, ElementaryCharge{2}, sd},
        };
        Particles r;
        r.params = std::make_shared<ParticleParams>(defs);
        r.store = std::make_unique<ParStore>(r.params->host_ref(), 1);
        return r;
    }();
    return p;
}

static RZMapFieldParams const& rzmap()
{
    static RZMapFieldParams p = [] {
        RZMapFieldInput inp;
        std::ifstream(repo_root() + "/test/celeritas/data/cms-tiny.field.json") >> inp;
        return RZMapFieldParams(inp);
    }();
    return p;
}

//---------------------------------------------------------------------------//
using KV = std::map<string, string>;

static bool hexd(string const& s, double* out)
{
    std::uint64_t u;
    if (!vh::parse_hex(s, &u) || s.size() != 16)
        return false;
    *out = vh::bits_dbl(u);
    return true;
}

static bool hexlist(string const& s, std::vector<double>* out)
{
    std::size_t b = 0;
    while (b <= s.size())
    {
        std::size_t e = s.find(',', b);
        if (e == string::npos)
            e = s.size();
        double d;
        if (!hexd(s.substr(b, e - b), &d))
            return false;
        out->push_back(d);
        b = e + 1;
    }
    return true;
}

static bool get3(KV const& kv, char const* k, Real3* out)
{
    auto it = kv.find(k);
    std::vector<double> v;
    if (it == kv.end() || !hexlist(it->second, &v) || v.size() != 3)
        return false;
    *out = {v[0], v[1], v[2]};
    return true;
}

// opts: minimum_step delta_chord delta_intersection epsilon_step epsilon_rel_max errcon pgrow
//       pshrink safety max_stepping_increase max_stepping_decrease (hex doubles) max_nsteps
//       max_substeps (decimal)
static bool parse_opts(std::vector<string> const& w, FieldDriverOptions* o)
{
    if (w.size() != 13)
        return false;
    double* f[] = {&o->minimum_step, &o->delta_chord, &o->delta_intersection, &o->epsilon_step,
                   &o->epsilon_rel_max, &o->errcon, &o->pgrow, &o->pshrink, &o->safety,
                   &o->max_stepping_increase, &o->max_stepping_decrease};
    for (int i = 0; i < 11; ++i)
        if (!hexd(w[i], f[i]))
            return false;
    try
    {
        long a = std::stol(w[11]), b = std::stol(w[12]);
        if (a < -32768 || a > 32767 || b < -32768 || b > 32767)
            return false;
        o->max_nsteps = static_cast<short>(a);
        o->max_substeps = static_cast<short>(b);
    }
    catch (...)
    {
        return false;
    }
    return true;
}

static std::vector<string> split(string const& s, char c)
{
    std::vector<string> out;
    std::size_t b = 0;
    while (b <= s.size())
    {
        std::size_t e = s.find(c, b);
        if (e == string::npos)
            e = s.size();
        out.push_back(s.substr(b, e - b));
        b = e + 1;
    }
    return out;
}

//---------------------------------------------------------------------------//
struct RunArgs
{
    Geo* geo;
    ParticleTrackView* particle;
    FieldDriverOptions opts;
    std::vector<double> steps;
    bool cross;
    Trace* tr;
};

// Run the recorded propagation(s) with a concrete stepper
template<class StepperT>
static void run_with(StepperT&& stepper, RunArgs& a, OrangeTrackView& geo)
{
    Trace& tr = *a.tr;
    using RS = RecordingStepper<std::remove_reference_t<StepperT>>;
    for (double step : a.steps)
    {
        RS rs{stepper, &tr};
        FieldDriver<RS&> driver{a.opts, rs};
        using RD = RecordingDriver<FieldDriver<RS&>>;
        tr.tok("B");
        tr.d(step);
        tr.tok("p");
        tr.d(value_as<units::MevMomentum>(a.particle->momentum()));
        tr.tok("g0");
        tr.v3(geo.pos());
        tr.v3(geo.dir());
        tr.tok("onb");
        tr.s += geo.is_on_boundary() ? " 1" : " 0";
        FieldPropagator<RD, RecordingGeo> propagate{
            RD{&driver, &tr}, *a.particle, RecordingGeo{&geo, &tr}};
        Propagation r = propagate(step);
        tr.tok("res");
        tr.d(r.distance);
        tr.s += r.boundary ? " 1" : " 0";
        tr.s += r.looping ? " 1" : " 0";
        tr.tok("fin");
        tr.v3(geo.pos());
        tr.v3(geo.dir());
        tr.s += geo.is_on_boundary() ? " 1" : " 0";
        if (r.boundary && a.cross)
        {
            geo.cross_boundary();
            tr.tok("X");
            if (geo.is_outside())
            {
                tr.tok("out");
                break;
            }
        }
    }
}

static string do_run(KV const& kv)
{
    auto need = [&](char const* k) -> string const* {
        auto it = kv.find(k);
        return it == kv.end() ? nullptr : &it->second;
    };
    for (char const* k : {"geo", "fld", "B", "stp", "par", "E", "pos", "dir", "opts", "steps"})
        if (!need(k))
            return "bad-op";
    Geo* g = get_geo(kv.at("geo"));
    if (!g)
        return "bad-op";
    Real3 B, pos, dir;
    double E;
    RunArgs a;
    if (!get3(kv, "B", &B) || !get3(kv, "pos", &pos) || !get3(kv, "dir", &dir)
        || !hexd(kv.at("E"), &E) || !hexlist(kv.at("steps"), &a.steps)
        || !parse_opts(split(kv.at("opts"), ','), &a.opts))
        return "bad-op";
    if (!(E > 0) || a.steps.empty())
        return "bad-op";
    for (double s : a.steps)
        if (!(s > 0))
            return "bad-op";  // CELER_EXPECT(step > 0)
    if (!a.opts)
        return "invalid-options";
    auto& P = particles();
    ParticleId pid = P.params->find(kv.at("par"));
    if (!pid)
        return "bad-op";
    ParticleTrackView particle{P.params->host_ref(), P.store->ref(), TrackSlotId{0}};
    particle = ParticleTrackView::Initializer_t{pid, units::MevEnergy{E}};
    a.particle = &particle;
    a.geo = g;
    a.cross = need("cross") && *need("cross") == "1";
    Trace tr;
    tr.steps = !(need("rec") && *need("rec") == "0");
    a.tr = &tr;

    OrangeTrackView geo{g->params->host_ref(), g->store->ref(), TrackSlotId{0}};
    geo = GeoTrackInitializer{pos, make_unit_vector(dir)};
    if (geo.is_outside())
        return "outside";
    for (int i = 0; i < 3; ++i)
        if (!std::isfinite(geo.pos()[i]) || !std::isfinite(geo.dir()[i]))
            return "init-failed";  // ORANGE could not locate the point (logged error)
    // prelude: 1 = straight line to the next boundary (stay on it, do not cross);
    //          2 = ... and cross into the next volume
    string pre = need("pre") ? *need("pre") : "0";
    if (pre == "1" || pre == "2")
    {
        auto n = geo.find_next_step();
        if (!n.boundary)
            return "outside";
        geo.move_to_boundary();
        if (pre == "2")
        {
            geo.cross_boundary();
            if (geo.is_outside())
                return "outside";
        }
        Real3 d2;
        if (get3(kv, "dir2", &d2))
            geo.set_dir(make_unit_vector(d2));
    }
    auto q = particle.charge();
    string fld = kv.at("fld"), stp = kv.at("stp");
    try
    {
        if (fld == "u" && stp == "dp")
            run_with(make_mag_field_stepper<DormandPrinceStepper>(UniformField{B}, q), a, geo);
        else if (fld == "u" && stp == "rk4")
            run_with(make_mag_field_stepper<RungeKuttaStepper>(UniformField{B}, q), a, geo);
        else if (fld == "z" && stp == "dp")
            run_with(make_mag_field_stepper<DormandPrinceStepper>(UniformZField{B[2]}, q), a, geo);
        else if (fld == "z" && stp == "rk4")
            run_with(make_mag_field_stepper<RungeKuttaStepper>(UniformZField{B[2]}, q), a, geo);
        else if (fld == "z" && stp == "zh")
            run_with(make_mag_field_stepper<ZHelixStepper>(UniformZField{B[2]}, q), a, geo);
        else if (fld == "rz" && stp == "dp")
            run_with(make_mag_field_stepper<DormandPrinceStepper>(RZMapField{rzmap().host_ref()}, q),
                     a, geo);
        else if (fld == "rz" && stp == "rk4")
            run_with(make_mag_field_stepper<RungeKuttaStepper>(RZMapField{rzmap().host_ref()}, q),
                     a, geo);
        else
            return "bad-op";
    }
    catch (std::exception const& e)
    {
        tr.tok("exception");
    }
    return tr.s;
}

// FieldDriver alone: a sequence of advance(step, state) calls on ONE driver object (max_chord_
// persists), each from the same start state; trace = adv / st / => / ->
static string do_drv(KV const& kv)
{
    for (char const* k : {"B", "stp", "q", "pos", "mom", "opts", "steps"})
        if (!kv.count(k))
            return "bad-op";
    Real3 B;
    OdeState y;
    double qv;
    std::vector<double> steps;
    FieldDriverOptions opts;
    if (!get3(kv, "B", &B) || !get3(kv, "pos", &y.pos) || !get3(kv, "mom", &y.mom)
        || !hexd(kv.at("q"), &qv) || !hexlist(kv.at("steps"), &steps)
        || !parse_opts(split(kv.at("opts"), ','), &opts))
        return "bad-op";
    if (!opts)
        return "invalid-options";
    if (y.mom[0] == 0 && y.mom[1] == 0 && y.mom[2] == 0)
        return "bad-op";
    Trace tr;
    units::ElementaryCharge q{qv};
    bool chain = kv.count("chain") && kv.at("chain") == "1";
    auto go = [&](auto&& stepper) {
        using RS = RecordingStepper<std::remove_reference_t<decltype(stepper)>>;
        RS rs{stepper, &tr};
        FieldDriver<RS&> driver{opts, rs};
        RecordingDriver<FieldDriver<RS&>> rd{&driver, &tr};
        for (double s : steps)
        {
            if (!(s > 0))
            {
                tr.tok("bad-step");
                continue;
            }
            DriverResult r = rd.advance(s, y);
            if (chain)
                y = r.state;
        }
    };
    string stp = kv.at("stp");
    if (stp == "dp")
        go(make_mag_field_stepper<DormandPrinceStepper>(UniformField{B}, q));
    else if (stp == "rk4")
        go(make_mag_field_stepper<RungeKuttaStepper>(UniformField{B}, q));
    else if (stp == "zh")
        go(make_mag_field_stepper<ZHelixStepper>(UniformZField{B[2]}, q));
    else
        return "bad-op";
    return tr.s;
}

static string show_result(FieldStepperResult const& r)
{
    Trace t;
    t.ode(r.mid_state);
    t.ode(r.end_state);
    t.ode(r.err_state);
    return t.s.substr(1);
}

//---------------------------------------------------------------------------//
int main()
{
    // celeritas logs geometry errors (failed initialisation / failed crossing) to stderr; the
    // protocol stream must stay one line per op even when the caller merges the two
    if (!std::getenv("VERIF_KEEP_STDERR"))
        std::freopen("/dev/null", "w", stderr);
    string line;
    while (std::getline(std::cin, line))
    {
        auto w = vh::words(line);
        string out = "bad-op";
        try
        {
            if (w.empty())
            {
            }
            else if (w[0] == "run" || w[0] == "drv")
            {
                KV kv;
                bool ok = true;
                for (std::size_t i = 1; i < w.size(); ++i)
                {
                    auto e = w[i].find('=');
                    if (e == string::npos)
                    {
                        ok = false;
                        break;
                    }
                    kv[w[i].substr(0, e)] = w[i].substr(e + 1);
                }
                if (ok)
                    out = w[0] == "run" ? do_run(kv) : do_drv(kv);
            }
            else if (w[0] == "zh" && w.size() == 10)
            {
                std::vector<double> a(9);
                bool ok = true;
                for (int i = 0; i < 9; ++i)
                    ok = ok && hexd(w[i + 1], &a[i]);
                if (ok && a[2] > 0)
                {
                    auto st = make_mag_field_stepper<ZHelixStepper>(
                        UniformZField{a[0]}, units::ElementaryCharge{a[1]});
                    OdeState y{{a[3], a[4], a[5]}, {a[6], a[7], a[8]}};
                    out = show_result(st(a[2], y));
                }
            }
            else if (w[0] == "rhs" && w.size() == 11)
            {
                std::vector<double> a(10);
                bool ok = true;
                for (int i = 0; i < 10; ++i)
                    ok = ok && hexd(w[i + 1], &a[i]);
                if (ok)
                {
                    MagFieldEquation eq{UniformField{Real3{a[0], a[1], a[2]}},
                                        units::ElementaryCharge{a[3]}};
                    OdeState y{{a[4], a[5], a[6]}, {a[7], a[8], a[9]}};
                    Trace t;
                    t.ode(eq(y));
                    out = t.s.substr(1);
                }
            }
            else if (w[0] == "step" && w.size() == 13)
            {
                std::vector<double> a(11);
                bool ok = true;
                for (int i = 0; i < 11; ++i)
                    ok = ok && hexd(w[i + 2], &a[i]);
                if (ok && a[4] > 0 && (w[1] == "dp" || w[1] == "rk4"))
                {
                    UniformField f{Real3{a[0], a[1], a[2]}};
                    units::ElementaryCharge q{a[3]};
                    OdeState y{{a[5], a[6], a[7]}, {a[8], a[9], a[10]}};
                    out = w[1] == "dp"
                              ? show_result(make_mag_field_stepper<DormandPrinceStepper>(f, q)(a[4], y))
                              : show_result(make_mag_field_stepper<RungeKuttaStepper>(f, q)(a[4], y));
                }
            }
            else if (w[0] == "opts" && w.size() == 14)
            {
                FieldDriverOptions o;
                if (parse_opts(std::vector<string>(w.begin() + 1, w.end()), &o))
                {
                    bool valid = true;
                    try
                    {
                        validate_input(o);
                    }
                    catch (RuntimeError const&)
                    {
                        valid = false;
                    }
                    out = string(valid ? "ok" : "invalid") + (static_cast<bool>(o) ? " 1" : " 0");
                }
            }
            else if (w[0] == "coeff" && w.size() == 2)
            {
                // the Lorentz coefficient exactly as MagFieldEquation's constructor computes it
                double qv;
                if (hexd(w[1], &qv))
                {
                    units::ElementaryCharge charge{qv};
                    out = vh::hexd(native_value_from(charge)
                                   / native_value_from(OdeState::MomentumUnits{1}));
                }
            }
            else if (w[0] == "defaults" && w.size() == 1)
            {
                FieldDriverOptions o;
                Trace t;
                for (double v : {o.minimum_step, o.delta_chord, o.delta_intersection, o.epsilon_step,
                                 o.epsilon_rel_max, o.errcon, o.pgrow, o.pshrink, o.safety,
                                 o.max_stepping_increase, o.max_stepping_decrease})
                    t.d(v);
                out = t.s.substr(1) + " " + std::to_string(o.max_nsteps) + " "
                      + std::to_string(o.max_substeps) + " " + vh::hexd(o.initial_step_tol) + " "
                      + vh::hexd(o.dchord_tol) + " " + vh::hexd(o.min_chord_shrink);
            }
        }
        catch (std::exception const& e)
        {
            out = "exception";
        }
        std::cout << out << "\n";
    }
    return 0;
}
