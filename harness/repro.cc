// C06 harness (H3).
// (a) ops on the REAL detail::sort_tracks / count_tracks_per_action / backfill_action_count
//     (same protocol as lean/CelerVerif/Model/ReindexDriver.lean, exact diff):
//       partition <slots..> / <status per slot>      sort|sortc <slots..> / <key per slot>
//       count <numActions> <key per thread..>         backfill <size> <offsets..>
// (b) differential event runs on a real Stepper:
//       run prob=simple|mock slots=N order=<track order> timing=0|1 checker=0|1 prims=N
//           script=<op>,<op>,...
//     op = e<event id>:<primary seed>          run the event to completion (reseed first)
//          a<event id>:<primary seed>:<k>      run k steps of the event, then abort: state reset
//          t<event id>:<primary seed>:<k>      run at most k loops, REPORT them as an event line
//                                              (trunc=1 if unfinished), then reset the state
//          q<event id>:<primary seed>          run until no track is alive while primaries are still
//                                              queued (else to completion), then reset the state
//          w                                   warm-up step
//     After every completed event prints
//       event id=<id> seed=<s> steps=<n delivered> hash=<fnv of the (track,step)-sorted stream>
//             loops=<stepper iterations> res=<hash of the StepperResult sequence>
//             adiag=<hash> sdiag=<hash> edep=<bits of the slot-order-independent deposit sum>
//             trunc=<0|1> multisec=<iterations in which >= 2 slots produced secondaries>
//             loophw=<high-water mark of the per-slot looping counters during the event>
//     With dump=1 the sorted step stream itself is printed (`s <track>/<step> <fields>`).
#include <iostream>

#include "corecel/data/CollectionAlgorithms.hh"
#include "celeritas/global/CoreTrackData.hh"
#include "celeritas/track/detail/TrackSortUtils.hh"
#include "celeritas/user/ActionDiagnostic.hh"
#include "celeritas/user/StepCollector.hh"
#include "celeritas/user/StepDiagnostic.hh"

#include "common/h3common.hh"

using namespace celeritas;

namespace
{
//---------------------------------------------------------------------------//
struct SortBench
{
    std::unique_ptr<h3::Problem> prob;
    std::map<size_type, std::unique_ptr<CoreState<MemSpace::host>>> states;

    CoreState<MemSpace::host>& state(size_type n)
    {
        if (!prob)
        {
            h3::Options o;
            o.order = TrackOrder::reindex_step_limit_action;
            prob = h3::make_problem(o);
        }
        auto& s = states[n];
        if (!s)
            s = std::make_unique<CoreState<MemSpace::host>>(*prob->core, StreamId{0}, n);
        return *s;
    }
};

bool parse_id(std::string const& w, long* out)
{
    if (w == "x")
    {
        *out = -1;
        return true;
    }
    unsigned long v;
    if (!h3::parse_dec(w, &v))
        return false;
    *out = long(v);
    return true;
}

std::string show_tid(ThreadId t)
{
    return t ? std::to_string(t.unchecked_get()) : std::string("x");
}

std::string do_sort_op(SortBench& sb, std::vector<std::string> const& w)
{
    if (w[0] == "backfill")
    {
        unsigned long sz;
        if (w.size() < 4 || !h3::parse_dec(w[1], &sz))
            return "bad-op";
        std::vector<ThreadId> offs;
        for (size_t i = 2; i < w.size(); ++i)
        {
            long v;
            if (!parse_id(w[i], &v))
                return "bad-op";
            offs.push_back(v < 0 ? ThreadId{} : ThreadId(v));
        }
        detail::backfill_action_count(make_span(offs), sz);
        std::string out = "offsets";
        for (auto t : offs)
            out += " " + show_tid(t);
        return out;
    }
    if (w[0] == "count")
    {
        unsigned long na;
        if (w.size() < 3 || !h3::parse_dec(w[1], &na))
            return "bad-op";
        size_type n = w.size() - 2;
        auto& st = sb.state(n);
        auto const& ref = st.ref();
        for (size_type i = 0; i < n; ++i)
        {
            long v;
            if (!parse_id(w[2 + i], &v) || v >= long(na))
                return "bad-op";
            ref.track_slots[ThreadId{i}] = i;
            ref.sim.post_step_action[TrackSlotId{i}] = v < 0 ? ActionId{} : ActionId(v);
        }
        std::vector<ThreadId> offs(na + 1);
        Collection<ThreadId, Ownership::value, MemSpace::host, ActionId> dummy;
        detail::count_tracks_per_action(
            ref, make_span(offs), dummy, TrackOrder::reindex_step_limit_action);
        std::string out = "offsets";
        for (auto t : offs)
            out += " " + show_tid(t);
        return out;
    }
    // partition / sort / sortc
    size_t sep = 0;
    for (size_t i = 1; i < w.size(); ++i)
        if (w[i] == "/")
            sep = i;
    if (sep == 0)
        return "bad-op";
    size_type n = w.size() - sep - 1;      // number of slots (keys)
    size_type m = sep - 1;                 // number of threads
    if (n == 0 || m != n)
        return w[0] == "partition" || w[0] == "sort" || w[0] == "sortc" ? "bad-op" : "bad-op";
    if (w[0] == "sort" && m > 16)
        return "bad-op";
    auto& st = sb.state(n);
    auto const& ref = st.ref();
    for (size_type i = 0; i < m; ++i)
    {
        unsigned long v;
        if (!h3::parse_dec(w[1 + i], &v) || v >= n)
            return "bad-op";
        ref.track_slots[ThreadId{i}] = v;
    }
    std::vector<long> keys(n);
    for (size_type i = 0; i < n; ++i)
    {
        if (!parse_id(w[sep + 1 + i], &keys[i]))
            return "bad-op";
        if (w[0] == "partition")
        {
            if (keys[i] < 0 || keys[i] > 4)
                return "bad-op";
            ref.sim.status[TrackSlotId{i}] = static_cast<TrackStatus>(keys[i]);
        }
        else
        {
            ref.sim.post_step_action[TrackSlotId{i}] = keys[i] < 0 ? ActionId{}
                                                                    : ActionId(keys[i]);
        }
    }
    if (w[0] == "partition")
    {
        detail::sort_tracks(ref, TrackOrder::reindex_status);
        std::string out = "slots";
        for (size_type i = 0; i < m; ++i)
            out += " " + std::to_string(ref.track_slots[ThreadId{i}]);
        return out;
    }
    detail::sort_tracks(ref, TrackOrder::reindex_step_limit_action);
    if (w[0] == "sort")
    {
        std::string out = "slots";
        for (size_type i = 0; i < m; ++i)
            out += " " + std::to_string(ref.track_slots[ThreadId{i}]);
        return out;
    }
    std::string out = "keys";
    for (size_type i = 0; i < m; ++i)
    {
        long k = keys[ref.track_slots[ThreadId{i}]];
        out += " " + (k < 0 ? std::string("x") : std::to_string(k));
    }
    return out;
}

//---------------------------------------------------------------------------//
std::uint64_t hash_map(std::map<std::string, size_type> const& m)
{
    // label -> count of the non-zero bins: independent of how many actions are registered
    std::uint64_t h = h3::fnv0;
    for (auto const& kv : m)
    {
        for (char c : kv.first)
            h = h3::fnv(h, std::uint64_t(c));
        h = h3::fnv(h, kv.second);
    }
    return h;
}

template<class V>
std::uint64_t hash_counts(V const& vv)
{
    std::uint64_t h = h3::fnv0;
    for (auto const& row : vv)
        for (auto v : row)
            h = h3::fnv(h, v);
    return h;
}

void run_script(std::map<std::string, std::string> const& kv)
{
    h3::Options opt;
    opt.problem = h3::kv_str(kv, "prob", "simple");
    opt.status_checker = h3::kv_num(kv, "checker", 0);
    if (!h3::parse_order(h3::kv_str(kv, "order", "none"), &opt.order))
    {
        std::cout << "bad-op\n";
        return;
    }
    size_type slots = h3::kv_num(kv, "slots", 8), prims = h3::kv_num(kv, "prims", 4);
    bool timing = h3::kv_num(kv, "timing", 0), dump = h3::kv_num(kv, "dump", 0);
    size_type maxloops = h3::kv_num(kv, "maxloops", 200000);
    auto prob = h3::make_problem(opt);
    if (!prob || slots < 1 || slots > 256 || prims < 1 || prims > 256)
    {
        std::cout << "bad-op\n";
        return;
    }
    auto rec = std::make_shared<h3::AllRecorder>(1);
    auto collector = StepCollector::make_and_insert(*prob->core, {rec});
    auto ad = ActionDiagnostic::make_and_insert(*prob->core);
    auto sd = StepDiagnostic::make_and_insert(*prob->core, 8);
    StepperInput si;
    si.params = prob->core;
    si.stream_id = StreamId{0};
    si.num_track_slots = slots;
    si.action_times = timing;
    Stepper<MemSpace::host> step(si);
    auto& state = dynamic_cast<CoreState<MemSpace::host>&>(
        const_cast<CoreStateInterface&>(step.state()));

    std::string script = h3::kv_str(kv, "script", "");
    size_t a = 0;
    while (a <= script.size())
    {
        size_t b = script.find(',', a);
        if (b == std::string::npos)
            b = script.size();
        std::string op = script.substr(a, b - a);
        a = b + 1;
        if (op.empty())
            continue;
        if (op == "w")
        {
            step.warm_up();
            rec->take(0);
            std::cout << "warm\n";
            continue;
        }
        // e<id>:<seed>  |  a<id>:<seed>:<k>
        std::vector<unsigned long> f;
        {
            size_t p = 1;
            while (p <= op.size())
            {
                size_t q = op.find(':', p);
                if (q == std::string::npos)
                    q = op.size();
                unsigned long v;
                if (!h3::parse_dec(op.substr(p, q - p), &v))
                {
                    std::cout << "bad-op\n";
                    return;
                }
                f.push_back(v);
                p = q + 1;
            }
        }
        bool abort_ev = op[0] == 'a';
        bool trunc_ev = op[0] == 't';   // first k loops of the event are reported, rest dropped
        bool qcut_ev = op[0] == 'q';    // cut where no track is alive but primaries are queued
        if ((op[0] != 'e' && op[0] != 'a' && op[0] != 't' && op[0] != 'q')
            || f.size() != ((abort_ev || trunc_ev) ? 3u : 2u))
        {
            std::cout << "bad-op\n";
            return;
        }
        unsigned long id = f[0], seed = f[1];
        ad->clear();
        sd->clear();
        auto primaries = h3::make_primaries(*prob, seed, prims, EventId{0});
        step.reseed(UniqueEventId{id});
        std::uint64_t rh = h3::fnv0;
        size_type loops = 0;
        size_type multi_sec = 0, looping_hw = 0;
        auto add = [&](StepperResult const& r) {
            rh = h3::fnv(h3::fnv(h3::fnv(h3::fnv(rh, r.generated), r.active), r.alive), r.queued);
            ++loops;
            // evidence: iterations in which >= 2 slots produced secondaries / looping counters
            if (state.counters().num_secondaries >= 2)
            {
                // after the step `secondary_counts` holds the exclusive scan of the counts
                size_type producing = 0, n = state.size();
                auto const& sc = state.ref().init.secondary_counts;
                for (size_type t = 0; t < n; ++t)
                {
                    size_type next = t + 1 < n ? sc[TrackSlotId{t + 1}]
                                               : state.counters().num_secondaries;
                    producing += next > sc[TrackSlotId{t}];
                }
                multi_sec += producing >= 2;
            }
            if (!state.ref().sim.num_looping_steps.empty())
            {
                for (auto t : range(TrackSlotId{state.size()}))
                    looping_hw = std::max(looping_hw, state.ref().sim.num_looping_steps[t]);
            }
        };
        StepperResult r = step(make_span(primaries));
        add(r);
        auto at_qcut = [&] { return qcut_ev && r.alive == 0 && r.queued > 0; };
        while (r && loops < maxloops && !((abort_ev || trunc_ev) && loops >= f[2]) && !at_qcut())
        {
            r = step();
            add(r);
        }
        if (qcut_ev)
        {
            // a step limit stops the event where all in-flight tracks have just died while
            // primaries are still queued; the application resets the state
            bool hit = r && at_qcut();
            std::cout << "qcut id=" << id << " loops=" << loops << " hit=" << (hit ? 1 : 0)
                      << " queued=" << r.queued << "\n";
            if (r)
                state.reset();
            rec->take(0);
            continue;
        }
        bool truncated = trunc_ev && r;
        if (abort_ev || (r && !trunc_ev))
        {
            // aborted (or stuck) event: drop it, as an application does after a failure
            state.reset();
            rec->take(0);
            std::cout << "aborted id=" << id << " loops=" << loops << " left=" << r.active << "\n";
            continue;
        }
        auto recs = rec->take(0);
        // action ids depend on what else is registered (e.g. the status checker shifts them):
        // compare actions by label
        for (auto& s : recs)
        {
            std::uint64_t h = h3::fnv0;
            if (s.f[1] < prob->actions().num_actions())
                for (char c : prob->actions().id_to_label(ActionId(s.f[1])))
                    h = h3::fnv(h, std::uint64_t(c));
            s.f[1] = h;
        }
        // deposit total in a slot-order independent way: sorted by (track, step)
        double edep = 0;
        for (auto const& s : recs)
            edep += vh::bits_dbl(s.f[4]);
        std::cout << "event id=" << id << " seed=" << seed << " steps=" << recs.size()
                  << " hash=" << vh::hex(h3::hash_steps(recs), 16) << " loops=" << loops
                  << " res=" << vh::hex(rh, 16)
                  << " adiag=" << vh::hex(hash_map(ad->calc_actions_map()), 16)
                  << " sdiag=" << vh::hex(hash_counts(sd->calc_steps()), 16)
                  << " edep=" << vh::hexd(edep) << " trunc=" << (truncated ? 1 : 0)
                  << " multisec=" << multi_sec << " loophw=" << looping_hw << "\n";
        if (truncated)
            state.reset();
        if (dump)
        {
            for (auto const& s : recs)
                std::cout << "s " << h3::dump_step(s) << "\n";
        }
    }
    std::cout << "done\n";
}
}  // namespace

int main()
{
    SortBench sb;
    std::string line;
    while (std::getline(std::cin, line))
    {
        auto w = vh::words(line);
        try
        {
            if (w.empty())
                std::cout << "bad-op\n";
            else if (w[0] == "run")
                run_script(h3::keyvals(w, 1));
            else if (w[0] == "partition" || w[0] == "sort" || w[0] == "sortc" || w[0] == "count"
                     || w[0] == "backfill")
                std::cout << do_sort_op(sb, w) << "\n";
            else
                std::cout << "bad-op\n";
        }
        catch (std::exception const& e)
        {
            std::string s = e.what();
            for (auto& c : s)
                if (c == '\n')
                    c = ' ';
            std::cout << "exception " << s.substr(0, 400) << "\n";
        }
        std::cout.flush();
    }
    return 0;
}
