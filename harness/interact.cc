// C04 harness: the REAL interactors of /repo driven through the line protocol of
// lean/CelerVerif/Model/InteractDriver.lean (scripted uniforms, allocator of given capacity and
// fill), plus impl-side oracle ops (`x…`) that run every interactor named by the property with
// the real XorwowRngEngine or a script and evaluate the property's own predicate.
//
// The fixture is /repo/test/celeritas/phys/InteractorHostTestBase (libtestcel_celeritas, built
// from the current tree), instantiated directly with an empty TestBody.
#include <cmath>
#include <cstring>
#include <functional>
#include <memory>
#include <string>
#include <vector>

#include "corecel/data/CollectionStateStore.hh"
#include "corecel/data/StackAllocator.hh"
#include "corecel/math/ArrayUtils.hh"
#include "celeritas/em/distribution/BetheBlochEnergyDistribution.hh"
#include "celeritas/em/distribution/TsaiUrbanDistribution.hh"
#include "celeritas/em/interactor/BetheHeitlerInteractor.hh"
#include "celeritas/em/interactor/EPlusGGInteractor.hh"
#include "celeritas/em/interactor/KleinNishinaInteractor.hh"
#include "celeritas/em/interactor/MollerBhabhaInteractor.hh"
#include "celeritas/em/interactor/MuHadIonizationInteractor.hh"
#include "celeritas/em/interactor/detail/BremFinalStateHelper.hh"
#include "celeritas/mat/MaterialTrackView.hh"
#include "celeritas/phys/CutoffView.hh"
#include "celeritas/phys/InteractionUtils.hh"
#include "celeritas/phys/InteractorHostTestBase.hh"

#include "common/lineio.hh"
#include "common/scripted_engine.hh"

namespace vh
{
//---------------------------------------------------------------------------//
//! the repository's own interactor fixture, instantiated directly
class Fixture : public celeritas::test::InteractorHostTestBase
{
  public:
    Fixture();
    void TestBody() override {}
    void set_cutoffs(double electron_cut, double gamma_cut);

    celeritas::ParticleId electron, positron, gamma, mu_minus, mu_plus;
    celeritas::units::MevMass emass;
};

//! secondary stack of given capacity / fill with write detection
struct AllocBox
{
    template<celeritas::Ownership W, celeritas::MemSpace M>
    using SecondaryStackData = celeritas::StackAllocatorData<celeritas::Secondary, W, M>;

    celeritas::CollectionStateStore<SecondaryStackData, celeritas::MemSpace::host> store;
    std::shared_ptr<celeritas::StackAllocator<celeritas::Secondary>> alloc;
    std::vector<unsigned char> snapshot;
    std::size_t size0{0};
    std::size_t cap_{0};

    AllocBox(std::size_t cap, std::size_t size);
    bool untouched() const;
    std::size_t reported_size() const;
};

class Oracle;
//---------------------------------------------------------------------------//
}  // namespace vh

using namespace celeritas;
using std::string;
using vecd = std::vector<double>;
using units::MevEnergy;

namespace
{
//---------------------------------------------------------------------------//
string hv(Real3 const& v)
{
    return vh::hexd(v[0]) + " " + vh::hexd(v[1]) + " " + vh::hexd(v[2]);
}

bool parse_all(std::vector<string> const& w, std::size_t b, std::size_t e, vecd* out)
{
    for (std::size_t i = b; i < e; ++i)
    {
        std::uint64_t u;
        if (w[i].size() != 16 || !vh::parse_hex(w[i], &u))
            return false;
        out->push_back(vh::bits_dbl(u));
    }
    return true;
}

bool parse_nat(string const& s, std::size_t* out)
{
    if (s.empty() || s.size() > 9)
        return false;
    std::size_t v = 0;
    for (char c : s)
    {
        if (c < '0' || c > '9')
            return false;
        v = v * 10 + static_cast<std::size_t>(c - '0');
    }
    *out = v;
    return true;
}

string show_secondary(Secondary const& s)
{
    string pid = s.particle_id ? std::to_string(s.particle_id.unchecked_get()) : string("-1");
    return pid + " " + vh::hexd(s.energy.value()) + " " + hv(s.direction);
}

string show_interaction(Interaction const& r, std::size_t alloc_size, std::size_t draws)
{
    using A = Interaction::Action;
    string tail = " " + std::to_string(alloc_size) + " " + std::to_string(draws);
    if (r.action == A::failed)
        return "failed" + tail;
    if (r.action == A::unchanged)
        return "unchanged" + tail;
    string secs = std::to_string(r.secondaries.size());
    for (Secondary const& s : r.secondaries)
        secs += " " + show_secondary(s);
    secs += " " + vh::hexd(r.energy_deposition.value());
    if (r.action == A::absorbed)
        return "absorbed " + secs + tail;
    return "scattered " + vh::hexd(r.energy.value()) + " " + hv(r.direction) + " " + secs + tail;
}

//---------------------------------------------------------------------------//
}  // namespace

namespace vh
{
//---------------------------------------------------------------------------//
Fixture::Fixture()
{
    auto const& params = *this->particle_params();
    electron = params.find(pdg::electron());
    positron = params.find(pdg::positron());
    gamma = params.find(pdg::gamma());
    mu_minus = params.find(pdg::mu_minus());
    mu_plus = params.find(pdg::mu_plus());
    emass = params.get(electron).mass();
    this->set_material("Cu");
}

void Fixture::set_cutoffs(double electron_cut, double gamma_cut)
{
    CutoffParams::Input input;
    input.materials = this->material_params();
    input.particles = this->particle_params();
    CutoffParams::MaterialCutoffs ec(this->material_params()->size());
    CutoffParams::MaterialCutoffs gc(this->material_params()->size());
    for (auto& c : ec)
        c = {MevEnergy{electron_cut}, 0.1};
    for (auto& c : gc)
        c = {MevEnergy{gamma_cut}, 0.1};
    input.cutoffs.insert({pdg::electron(), ec});
    input.cutoffs.insert({pdg::positron(), ec});
    input.cutoffs.insert({pdg::gamma(), gc});
    this->set_cutoff_params(input);
}

//! allocator of capacity `cap` with `size` slots already taken; storage pre-filled with a
//! sentinel so that writes are detectable
AllocBox::AllocBox(std::size_t cap, std::size_t size)
    : store(static_cast<size_type>(cap > 0 ? cap : 1)), cap_(cap)
{
    if (cap == 0)
    {
        // a 0-capacity store cannot be built through the public resize (size > 0 expected);
        // an allocator whose single slot is taken behaves identically for every request
        size = 1;
    }
    alloc = std::make_shared<StackAllocator<Secondary>>(store.ref());
    if (size > 0)
        (*alloc)(static_cast<size_type>(size));
    auto all = store.ref().storage[AllItems<Secondary>{}];
    std::memset(static_cast<void*>(all.data()), 0xAB, all.size() * sizeof(Secondary));
    snapshot.assign(reinterpret_cast<unsigned char const*>(all.data()),
                    reinterpret_cast<unsigned char const*>(all.data())
                        + all.size() * sizeof(Secondary));
    size0 = alloc->get().size();
}

bool AllocBox::untouched() const
{
    auto all = store.ref().storage[AllItems<Secondary>{}];
    return std::memcmp(all.data(), snapshot.data(), snapshot.size()) == 0
           && alloc->get().size() == size0;
}

std::size_t AllocBox::reported_size() const
{
    // report in the op's own terms (cap 0 is emulated by a full 1-slot allocator)
    return cap_ == 0 ? alloc->get().size() - 1 : alloc->get().size();
}
//---------------------------------------------------------------------------//
}  // namespace vh

namespace vh
{
//---------------------------------------------------------------------------//
class Oracle
{
  public:
    explicit Oracle(Fixture& fx) : fx_(fx) {}
    std::string run(std::vector<std::string> const&) { return "bad-op"; }

  private:
    Fixture& fx_;
};
//---------------------------------------------------------------------------//
}  // namespace vh

namespace
{
//---------------------------------------------------------------------------//
//! run `call(allocator, rng)` with a scripted stream; print in the protocol's format
template<class F>
string run_scripted(std::size_t cap, std::size_t size, vecd const& script, F&& call)
{
    if (size > cap)
        return "bad-op";
    vh::AllocBox box(cap, size);
    vh::ScriptedEngine rng{script};
    try
    {
        Interaction r = call(*box.alloc, rng);
        if (r.action == Interaction::Action::failed && !box.untouched())
            return "failed-but-wrote";
        if (r.action == Interaction::Action::failed && rng.draws() != 0)
            return "failed-after-draws";
        return show_interaction(r, box.reported_size(), rng.draws());
    }
    catch (vh::ScriptExhausted const&)
    {
        return "script-exhausted";
    }
}

bool unit_ok(vecd const& d, std::size_t i)
{
    // the protocol accepts any finite direction; the fixture would normalise, so directions
    // are passed to the interactor as given (callers send unit vectors)
    return std::isfinite(d[i]) && std::isfinite(d[i + 1]) && std::isfinite(d[i + 2]);
}

//---------------------------------------------------------------------------//
}  // namespace

int main(int argc, char** argv)
{
    vh::Fixture fx;
    vh::Oracle oracle(fx);

    string line;
    while (std::getline(std::cin, line))
    {
        auto w = vh::words(line);
        if (w.empty())
        {
            std::cout << "bad-op\n";
            continue;
        }
        string const& op = w[0];
        // `cap size <hex…> | <script…>` ops
        auto alloc_op = [&](std::size_t first, std::size_t nargs, std::size_t* cap,
                            std::size_t* size, vecd* d, vecd* script) {
            std::size_t bar = first;
            while (bar < w.size() && w[bar] != "|")
                ++bar;
            if (bar >= w.size() || bar != first + 2 + nargs)
                return false;
            return parse_nat(w[first], cap) && parse_nat(w[first + 1], size)
                   && parse_all(w, first + 2, bar, d) && parse_all(w, bar + 1, w.size(), script);
        };
        std::size_t cap = 0, size = 0;
        vecd d, script;

        if (op == "consts" && w.size() == 1)
        {
            double const vals[] = {constants::pi,
                                   2 * constants::pi,
                                   KleinNishinaInteractor::secondary_cutoff().value(),
                                   detail::RealVecTraits<double>::min_accurate_sintheta(),
                                   0.5,
                                   1.6,
                                   1.6 / 3,
                                   0.25,
                                   fx.emass.value(),
                                   fx.particle_params()->get(fx.mu_minus).mass().value(),
                                   1 / fx.emass.value()};
            string out;
            for (double v : vals)
                out += (out.empty() ? "" : " ") + vh::hexd(v);
            std::cout << out << "\n";
        }
        else if (op == "kn" && alloc_op(1, 4, &cap, &size, &d, &script) && unit_ok(d, 1))
        {
            KleinNishinaData data;
            data.ids.electron = fx.electron;
            data.ids.gamma = fx.gamma;
            data.inv_electron_mass = 1 / fx.emass.value();
            fx.set_inc_particle(pdg::gamma(), MevEnergy{d[0]});
            Real3 dir{d[1], d[2], d[3]};
            std::cout << run_scripted(cap, size, script, [&](auto& alloc, auto& rng) {
                KleinNishinaInteractor interact(data, fx.particle_track(), dir, alloc);
                return interact(rng);
            }) << "\n";
        }
        else if (op == "gg" && alloc_op(1, 4, &cap, &size, &d, &script) && unit_ok(d, 1))
        {
            EPlusGGData data;
            data.positron = fx.positron;
            data.gamma = fx.gamma;
            data.electron_mass = fx.emass;
            fx.set_inc_particle(pdg::positron(), MevEnergy{d[0]});
            Real3 dir{d[1], d[2], d[3]};
            std::cout << run_scripted(cap, size, script, [&](auto& alloc, auto& rng) {
                EPlusGGInteractor interact(data, fx.particle_track(), dir, alloc);
                return interact(rng);
            }) << "\n";
        }
        else if (op == "mb" && w.size() > 2 && (w[1] == "e-" || w[1] == "e+")
                 && alloc_op(2, 5, &cap, &size, &d, &script) && unit_ok(d, 2))
        {
            MollerBhabhaData data;
            data.ids.electron = fx.electron;
            data.ids.positron = fx.positron;
            data.electron_mass = fx.emass;
            fx.set_inc_particle(w[1] == "e-" ? pdg::electron() : pdg::positron(),
                                MevEnergy{d[0]});
            fx.set_cutoffs(d[1], d[1]);
            Real3 dir{d[2], d[3], d[4]};
            std::cout << run_scripted(cap, size, script, [&](auto& alloc, auto& rng) {
                MollerBhabhaInteractor interact(data,
                                                fx.particle_track(),
                                                fx.cutoff_params()->get(MaterialId{0}),
                                                dir,
                                                alloc);
                return interact(rng);
            }) << "\n";
        }
        else if (op == "muhad" && alloc_op(1, 5, &cap, &size, &d, &script) && unit_ok(d, 2))
        {
            MuHadIonizationData data;
            data.electron = fx.electron;
            data.electron_mass = fx.emass;
            fx.set_inc_particle(pdg::mu_minus(), MevEnergy{d[0]});
            fx.set_cutoffs(d[1], d[1]);
            Real3 dir{d[2], d[3], d[4]};
            std::cout << run_scripted(cap, size, script, [&](auto& alloc, auto& rng) {
                MuHadIonizationInteractor<BetheBlochEnergyDistribution> interact(
                    data, fx.particle_track(), fx.cutoff_params()->get(MaterialId{0}), dir, alloc);
                return interact(rng);
            }) << "\n";
        }
        else if (op == "bhlow" && alloc_op(1, 4, &cap, &size, &d, &script) && unit_ok(d, 1)
                 && d[0] < 2.0)
        {
            BetheHeitlerData data;
            data.ids.electron = fx.electron;
            data.ids.positron = fx.positron;
            data.ids.gamma = fx.gamma;
            data.electron_mass = fx.emass;
            data.enable_lpm = true;
            fx.set_inc_particle(pdg::gamma(), MevEnergy{d[0]});
            Real3 dir{d[1], d[2], d[3]};
            auto const material = fx.material_track().make_material_view();
            auto const element = material.make_element_view(ElementComponentId{0});
            std::cout << run_scripted(cap, size, script, [&](auto& alloc, auto& rng) {
                BetheHeitlerInteractor interact(
                    data, fx.particle_track(), dir, alloc, material, element);
                return interact(rng);
            }) << "\n";
        }
        else if (op == "bremtail")
        {
            // TsaiUrbanDistribution + BremFinalStateHelper as SB/RB/CombinedBrem call them,
            // with the photon energy given (their table samplers are not modelled)
            std::size_t bar = 1;
            while (bar < w.size() && w[bar] != "|")
                ++bar;
            if (bar != 6 || !parse_all(w, 1, bar, &d) || !parse_all(w, bar + 1, w.size(), &script))
            {
                std::cout << "bad-op\n";
                continue;
            }
            fx.set_inc_particle(pdg::electron(), MevEnergy{d[0]});
            Real3 dir{d[1], d[2], d[3]};
            Secondary sec;
            vh::ScriptedEngine rng{script};
            try
            {
                auto const& p = fx.particle_track();
                TsaiUrbanDistribution sample_costheta(p.energy(), p.mass());
                Interaction r = celeritas::detail::BremFinalStateHelper{p.energy(),
                                                                         dir,
                                                                         p.momentum(),
                                                                         fx.gamma,
                                                                         MevEnergy{d[4]},
                                                                         sample_costheta(rng),
                                                                         &sec}(rng);
                std::cout << show_interaction(r, 0, rng.draws()) << "\n";
            }
            catch (vh::ScriptExhausted const&)
            {
                std::cout << "script-exhausted\n";
            }
        }
        else if (op == "rotate" && w.size() == 7 && parse_all(w, 1, 7, &d))
        {
            std::cout << hv(rotate(Real3{d[0], d[1], d[2]}, Real3{d[3], d[4], d[5]})) << "\n";
        }
        else if (op == "exitdir" && w.size() == 6 && parse_all(w, 1, 6, &d))
        {
            vh::ScriptedEngine rng{{d[4]}};
            Real3 dir{d[1], d[2], d[3]};
            std::cout << hv(ExitingDirectionSampler{d[0], dir}(rng)) << "\n";
        }
        else if (op == "calcexit" && w.size() == 9 && parse_all(w, 1, 9, &d))
        {
            Real3 a{d[1], d[2], d[3]}, b{d[5], d[6], d[7]};
            std::cout << hv(calc_exiting_direction({d[0], a}, {d[4], b})) << "\n";
        }
        else if (op.size() > 1 && op[0] == 'x')
        {
            std::cout << oracle.run(w) << "\n";
        }
        else
        {
            std::cout << "bad-op\n";
        }
    }
    return 0;
}
