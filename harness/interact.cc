// C04 harness: the REAL interactors of /repo driven through the line protocol of
// lean/CelerVerif/Model/InteractDriver.lean (scripted uniforms, allocator of given capacity and
// fill), plus impl-side oracle ops (`x…`) that run every interactor named by the property with
// the real XorwowRngEngine or a script and evaluate the property's own predicate.
//
// The fixture is /repo/test/celeritas/phys/InteractorHostTestBase (libtestcel_celeritas, built
// from the current tree), instantiated directly with an empty TestBody.
#include <cmath>
#include <cstring>
#include <functional>
#include <memory>
#include <string>
#include <vector>

#include "corecel/data/CollectionStateStore.hh"
#include "corecel/data/StackAllocator.hh"
#include "corecel/math/ArrayUtils.hh"
#include "celeritas/em/distribution/BetheBlochEnergyDistribution.hh"
#include "celeritas/em/distribution/TsaiUrbanDistribution.hh"
#include "celeritas/em/interactor/BetheHeitlerInteractor.hh"
#include "celeritas/em/interactor/EPlusGGInteractor.hh"
#include "celeritas/em/interactor/KleinNishinaInteractor.hh"
#include "celeritas/em/interactor/MollerBhabhaInteractor.hh"
#include "celeritas/em/interactor/MuHadIonizationInteractor.hh"
#include "celeritas/em/interactor/detail/BremFinalStateHelper.hh"
#include "celeritas/em/distribution/BraggICRU73QOEnergyDistribution.hh"
#include "celeritas/em/distribution/MuBBEnergyDistribution.hh"
#include "celeritas/em/interactor/CombinedBremInteractor.hh"
#include "celeritas/em/interactor/CoulombScatteringInteractor.hh"
#include "celeritas/em/interactor/LivermorePEInteractor.hh"
#include "celeritas/em/interactor/MuBremsstrahlungInteractor.hh"
#include "celeritas/em/interactor/RayleighInteractor.hh"
#include "celeritas/em/interactor/RelativisticBremInteractor.hh"
#include "celeritas/em/interactor/SeltzerBergerInteractor.hh"
#include "celeritas/em/model/CombinedBremModel.hh"
#include "celeritas/em/model/CoulombScatteringModel.hh"
#include "celeritas/em/model/LivermorePEModel.hh"
#include "celeritas/em/model/RayleighModel.hh"
#include "celeritas/em/model/RelativisticBremModel.hh"
#include "celeritas/em/model/SeltzerBergerModel.hh"
#include "celeritas/em/params/AtomicRelaxationParams.hh"
#include "celeritas/em/detail/Utils.hh"
#include "celeritas/Constants.hh"
#include "celeritas/Units.hh"
#include "celeritas/em/interactor/AtomicRelaxation.hh"
#include "corecel/data/CollectionBuilder.hh"
#include <map>
#include "celeritas/em/params/WentzelOKVIParams.hh"
#include "celeritas/io/AtomicRelaxationReader.hh"
#include "celeritas/io/LivermorePEReader.hh"
#include "celeritas/io/SeltzerBergerReader.hh"
#include "celeritas/mat/MaterialView.hh"
#include "celeritas/random/XorwowRngEngine.hh"
#include "celeritas/random/XorwowRngParams.hh"
#include "celeritas/mat/MaterialTrackView.hh"
#include "celeritas/phys/CutoffView.hh"
#include "celeritas/phys/InteractionUtils.hh"
#include "celeritas/phys/InteractorHostTestBase.hh"

#include "common/lineio.hh"
#include "common/scripted_engine.hh"

namespace vh
{
//---------------------------------------------------------------------------//
//! the repository's own interactor fixture, instantiated directly
class Fixture : public celeritas::test::InteractorHostTestBase
{
  public:
    Fixture();
    void TestBody() override {}
    void set_cutoffs(double electron_cut, double gamma_cut, double positron_cut);
    void set_cutoffs(double electron_cut, double gamma_cut)
    {
        this->set_cutoffs(electron_cut, gamma_cut, electron_cut);
    }

    celeritas::ParticleId electron, positron, gamma, mu_minus, mu_plus;
    celeritas::units::MevMass emass;
};

//! secondary stack of given capacity / fill with write detection
struct AllocBox
{
    template<celeritas::Ownership W, celeritas::MemSpace M>
    using SecondaryStackData = celeritas::StackAllocatorData<celeritas::Secondary, W, M>;

    celeritas::CollectionStateStore<SecondaryStackData, celeritas::MemSpace::host> store;
    std::shared_ptr<celeritas::StackAllocator<celeritas::Secondary>> alloc;
    std::vector<unsigned char> snapshot;
    std::size_t size0{0};
    std::size_t cap_{0};

    AllocBox(std::size_t cap, std::size_t size);
    bool untouched() const;
    bool tail_untouched() const;
    std::size_t reported_size() const;
};

class Oracle;
std::string join_hex(std::vector<double> const& v);
std::vector<double> mubrems_consts(Fixture& fx);
std::vector<double> rayleigh_consts();

//! the real XorwowRngEngine with a draw counter
struct CountingXorwow
{
    using result_type = unsigned int;
    celeritas::XorwowRngEngine* eng{nullptr};
    std::size_t count{0};
    static constexpr result_type min() { return 0u; }
    static constexpr result_type max() { return 0xffffffffu; }
    result_type operator()() { return (*eng)(); }
    std::size_t draws() const { return count; }
};
//---------------------------------------------------------------------------//
}  // namespace vh

namespace celeritas
{
template<>
class GenerateCanonical<vh::CountingXorwow, double>
{
  public:
    using real_type = double;
    using result_type = double;
    result_type operator()(vh::CountingXorwow& rng)
    {
        ++rng.count;
        return GenerateCanonical<XorwowRngEngine, double>()(*rng.eng);
    }
};
}  // namespace celeritas

using namespace celeritas;
using std::string;
using vecd = std::vector<double>;
using units::MevEnergy;

namespace
{
//---------------------------------------------------------------------------//
string hv(Real3 const& v)
{
    return vh::hexd(v[0]) + " " + vh::hexd(v[1]) + " " + vh::hexd(v[2]);
}

bool parse_all(std::vector<string> const& w, std::size_t b, std::size_t e, vecd* out)
{
    for (std::size_t i = b; i < e; ++i)
    {
        std::uint64_t u;
        if (w[i].size() != 16 || !vh::parse_hex(w[i], &u))
            return false;
        out->push_back(vh::bits_dbl(u));
    }
    return true;
}

bool parse_nat(string const& s, std::size_t* out)
{
    if (s.empty() || s.size() > 9)
        return false;
    std::size_t v = 0;
    for (char c : s)
    {
        if (c < '0' || c > '9')
            return false;
        v = v * 10 + static_cast<std::size_t>(c - '0');
    }
    *out = v;
    return true;
}

string show_secondary(Secondary const& s)
{
    string pid = s.particle_id ? std::to_string(s.particle_id.unchecked_get()) : string("-1");
    return pid + " " + vh::hexd(s.energy.value()) + " " + hv(s.direction);
}

string show_interaction(Interaction const& r, std::size_t alloc_size, std::size_t draws)
{
    using A = Interaction::Action;
    string tail = " " + std::to_string(alloc_size) + " " + std::to_string(draws);
    if (r.action == A::failed)
        return "failed" + tail;
    if (r.action == A::unchanged)
        return "unchanged" + tail;
    string secs = std::to_string(r.secondaries.size());
    for (Secondary const& s : r.secondaries)
        secs += " " + show_secondary(s);
    secs += " " + vh::hexd(r.energy_deposition.value());
    if (r.action == A::absorbed)
        return "absorbed " + secs + tail;
    return "scattered " + vh::hexd(r.energy.value()) + " " + hv(r.direction) + " " + secs + tail;
}

//---------------------------------------------------------------------------//
}  // namespace

namespace vh
{
//---------------------------------------------------------------------------//
Fixture::Fixture()
{
    auto const& params = *this->particle_params();
    electron = params.find(pdg::electron());
    positron = params.find(pdg::positron());
    gamma = params.find(pdg::gamma());
    mu_minus = params.find(pdg::mu_minus());
    mu_plus = params.find(pdg::mu_plus());
    emass = params.get(electron).mass();
    this->set_material("Cu");
}

void Fixture::set_cutoffs(double electron_cut, double gamma_cut, double positron_cut)
{
    CutoffParams::Input input;
    input.materials = this->material_params();
    input.particles = this->particle_params();
    CutoffParams::MaterialCutoffs ec(this->material_params()->size());
    CutoffParams::MaterialCutoffs gc(this->material_params()->size());
    CutoffParams::MaterialCutoffs pc(this->material_params()->size());
    for (auto& c : ec)
        c = {MevEnergy{electron_cut}, 0.1};
    for (auto& c : gc)
        c = {MevEnergy{gamma_cut}, 0.1};
    for (auto& c : pc)
        c = {MevEnergy{positron_cut}, 0.1};
    input.cutoffs.insert({pdg::electron(), ec});
    input.cutoffs.insert({pdg::positron(), pc});
    input.cutoffs.insert({pdg::gamma(), gc});
    this->set_cutoff_params(input);
}

//! allocator of capacity `cap` with `size` slots already taken; storage pre-filled with a
//! sentinel so that writes are detectable
AllocBox::AllocBox(std::size_t cap, std::size_t size)
    : store(static_cast<size_type>(cap > 0 ? cap : 1)), cap_(cap)
{
    if (cap == 0)
    {
        // a 0-capacity store cannot be built through the public resize (size > 0 expected);
        // an allocator whose single slot is taken behaves identically for every request
        size = 1;
    }
    alloc = std::make_shared<StackAllocator<Secondary>>(store.ref());
    if (size > 0)
        (*alloc)(static_cast<size_type>(size));
    auto all = store.ref().storage[AllItems<Secondary>{}];
    std::memset(static_cast<void*>(all.data()), 0xAB, all.size() * sizeof(Secondary));
    snapshot.assign(reinterpret_cast<unsigned char const*>(all.data()),
                    reinterpret_cast<unsigned char const*>(all.data())
                        + all.size() * sizeof(Secondary));
    size0 = alloc->get().size();
}

bool AllocBox::untouched() const
{
    auto all = store.ref().storage[AllItems<Secondary>{}];
    return std::memcmp(all.data(), snapshot.data(), snapshot.size()) == 0
           && alloc->get().size() == size0;
}


std::string join_hex(std::vector<double> const& v)
{
    std::string out;
    for (double x : v)
        out += (out.empty() ? "" : " ") + hexd(x);
    return out;
}

//! what MuBremsDiffXsCalculator uses for the fixture's Cu element (same expressions)
std::vector<double> mubrems_consts(Fixture& fx)
{
    fx.set_material("Cu");
    auto const material = fx.material_track().make_material_view();
    auto const element = material.make_element_view(ElementComponentId{0});
    int z = element.atomic_number().unchecked_get();
    double amass = value_as<units::AmuMass>(element.atomic_mass());
    double d_n = 1.54 * std::pow(amass, 0.27);
    double b = 202.4, bp = 446;
    if (z != 1)
    {
        b = 183;
        bp = 1429;
        d_n = std::pow(d_n, 1 - 1.0 / z);
    }
    return {16 * constants::alpha_fine_structure * constants::na_avogadro,
            constants::r_electron,
            std::sqrt(constants::euler),
            d_n,
            1 / element.cbrt_z(),
            static_cast<double>(z),
            amass,
            b,
            bp};
}

//! `centimeter / (c_light h_planck)` and one MeV in native units (RayleighInteractor)
std::vector<double> rayleigh_consts()
{
    return {units::centimeter / (constants::c_light * constants::h_planck),
            native_value_from(MevEnergy{1})};
}

//! nothing was written past the slots the allocator handed out
bool AllocBox::tail_untouched() const
{
    auto all = store.ref().storage[AllItems<Secondary>{}];
    std::size_t off = alloc->get().size() * sizeof(Secondary);
    return std::memcmp(reinterpret_cast<unsigned char const*>(all.data()) + off,
                       snapshot.data() + off,
                       snapshot.size() - off)
           == 0;
}

std::size_t AllocBox::reported_size() const
{
    // report in the op's own terms (cap 0 is emulated by a full 1-slot allocator)
    return cap_ == 0 ? alloc->get().size() - 1 : alloc->get().size();
}
//---------------------------------------------------------------------------//
}  // namespace vh

namespace vh
{
//---------------------------------------------------------------------------//
//! fixtures that mirror the SetUp of the repository's own interactor tests
struct FxCu : Fixture
{
    std::shared_ptr<SeltzerBergerModel> sb;
    std::shared_ptr<CombinedBremModel> cb;
    std::shared_ptr<RelativisticBremModel> rb, rb_lpm;
    FxCu()
    {
        using namespace units;
        MaterialParams::Input mat_inp;
        mat_inp.elements = {{AtomicNumber{29}, AmuMass{63.546}, {}, Label{"Cu"}}};
        mat_inp.materials = {{native_value_from(MolCcDensity{0.141}), 293.0, MatterState::solid,
                              {{ElementId{0}, 1.0}}, Label{"Cu"}}};
        this->set_material_params(mat_inp);
        std::string data_path = this->test_data_path("celeritas", "");
        SeltzerBergerReader read_element_data(data_path.c_str());
        ImportProcess ipe = this->make_import_process(
            pdg::electron(), pdg::gamma(), ImportProcessClass::e_brems,
            {ImportModelClass::e_brems_sb, ImportModelClass::e_brems_lpm});
        ImportProcess ipp = ipe;
        ipp.particle_pdg = pdg::positron().get();
        this->set_imported_processes({std::move(ipe), std::move(ipp)});
        sb = std::make_shared<SeltzerBergerModel>(ActionId{0}, *this->particle_params(),
                                                  *this->material_params(),
                                                  this->imported_processes(), read_element_data);
        cb = std::make_shared<CombinedBremModel>(ActionId{0}, *this->particle_params(),
                                                 *this->material_params(),
                                                 this->imported_processes(), read_element_data,
                                                 true);
        rb = std::make_shared<RelativisticBremModel>(ActionId{0}, *this->particle_params(),
                                                     *this->material_params(),
                                                     this->imported_processes(), false);
        rb_lpm = std::make_shared<RelativisticBremModel>(ActionId{0}, *this->particle_params(),
                                                         *this->material_params(),
                                                         this->imported_processes(), true);
        this->set_material("Cu");
    }
};

struct FxK : Fixture
{
    std::shared_ptr<LivermorePEModel> model;
    AtomicRelaxationParams::Input relax_inp;
    std::shared_ptr<AtomicRelaxationParams> relax_params;
    HostVal<AtomicRelaxStateData> relax_states;
    HostCRef<AtomicRelaxParamsData> relax_params_ref;
    HostRef<AtomicRelaxStateData> relax_states_ref;
    HostCRef<AtomicRelaxParamsData> no_relax_params_ref;
    HostRef<AtomicRelaxStateData> no_relax_states_ref;

    FxK()
    {
        using namespace units;
        MaterialParams::Input mi;
        mi.elements = {{AtomicNumber{19}, AmuMass{39.0983}, {}, Label{"K"}}};
        mi.materials = {{native_value_from(MolCcDensity{1e-5}), 293., MatterState::solid,
                         {{ElementId{0}, 1.0}}, Label{"K"}}};
        this->set_material_params(mi);
        this->set_cutoffs(0, 0);
        std::string data_path = this->test_data_path("celeritas", "");
        LivermorePEReader read_element_data(data_path.c_str());
        model = std::make_shared<LivermorePEModel>(ActionId{0}, *this->particle_params(),
                                                   *this->material_params(), read_element_data);
        this->set_material("K");
    }
    void set_relax(double ecut, double gcut, bool auger)
    {
        if (ecut == relax_ecut && gcut == relax_gcut && auger == relax_auger && relax_params)
            return;
        relax_ecut = ecut;
        relax_gcut = gcut;
        relax_auger = auger;
        this->set_cutoffs(ecut, gcut, ecut);
        if (!reader)
        {
            std::string data_path = this->test_data_path("celeritas", "");
            reader = std::make_shared<AtomicRelaxationReader>(data_path.c_str(),
                                                              data_path.c_str());
        }
        auto rd = reader;
        auto cache = imported;
        relax_inp.cutoffs = this->cutoff_params();
        relax_inp.materials = this->material_params();
        relax_inp.particles = this->particle_params();
        relax_inp.load_data = [rd, cache](AtomicNumber z) {
            auto it = cache->find(z.unchecked_get());
            if (it == cache->end())
                it = cache->insert({z.unchecked_get(), (*rd)(z)}).first;
            return it->second;
        };
        relax_inp.is_auger_enabled = auger;
        relax_params = std::make_shared<AtomicRelaxationParams>(relax_inp);
        relax_params_ref = relax_params->host_ref();
        relax_states = {};
        resize(&relax_states, relax_params_ref, 1);
        relax_states_ref = relax_states;
    }
    std::shared_ptr<AtomicRelaxationReader> reader;
    std::shared_ptr<std::map<int, ImportAtomicRelaxation>> imported
        = std::make_shared<std::map<int, ImportAtomicRelaxation>>();
    double relax_ecut{-1}, relax_gcut{-1};
    bool relax_auger{false};
};

struct FxRay : Fixture
{
    std::shared_ptr<RayleighModel> model;
    FxRay()
    {
        this->set_imported_processes({this->make_import_process(
            pdg::gamma(), {}, ImportProcessClass::rayleigh,
            {ImportModelClass::livermore_rayleigh})});
        model = std::make_shared<RayleighModel>(ActionId{0}, *this->particle_params(),
                                                *this->material_params(),
                                                this->imported_processes());
        this->set_material("PbWO");
    }
};

struct FxCoul : Fixture
{
    std::shared_ptr<CoulombScatteringModel> model;
    std::vector<std::shared_ptr<WentzelOKVIParams>> wentzel;
    FxCoul()
    {
        using namespace units;
        MaterialParams::Input mat_inp;
        mat_inp.isotopes = {{AtomicNumber{29}, AtomicNumber{63}, MevEnergy{551.384},
                             MevEnergy{6.122}, MevEnergy{10.864}, MevMass{58618.5}, Label{"63Cu"}},
                            {AtomicNumber{29}, AtomicNumber{65}, MevEnergy{569.211},
                             MevEnergy{7.454}, MevEnergy{9.911}, MevMass{60479.8}, Label{"65Cu"}}};
        mat_inp.elements = {{AtomicNumber{29}, AmuMass{63.546},
                             {{IsotopeId{0}, 0.692}, {IsotopeId{1}, 0.308}}, Label{"Cu"}}};
        mat_inp.materials = {{native_value_from(MolCcDensity{0.141}), 293.0, MatterState::solid,
                              {{ElementId{0}, 1.0}}, Label{"Cu"}}};
        this->set_material_params(mat_inp);
        ImportProcess ipe = this->make_import_process(pdg::electron(), {},
                                                      ImportProcessClass::coulomb_scat,
                                                      {ImportModelClass::e_coulomb_scattering});
        ImportProcess ipp = ipe;
        ipp.particle_pdg = pdg::positron().get();
        this->set_imported_processes({std::move(ipe), std::move(ipp)});
        model = std::make_shared<CoulombScatteringModel>(ActionId{0}, *this->particle_params(),
                                                         *this->material_params(),
                                                         this->imported_processes());
        for (auto ff : range(NuclearFormFactorType::size_))
        {
            WentzelOKVIParams::Options options;
            options.is_combined = false;
            options.polar_angle_limit = 0;
            options.form_factor = ff;
            wentzel.push_back(
                std::make_shared<WentzelOKVIParams>(this->material_params(), options));
        }
        this->set_material("Cu");
    }
};

//---------------------------------------------------------------------------//
/*!
 * Impl-side oracle: `x <model> <cap> <size> <E> <dx> <dy> <dz> <cut> | s <seed>` (real
 * XorwowRngEngine) or `| u <script…>` (ScriptedEngine).  Every interactor named by the property
 * can be run; output format is the protocol's.
 */
class Oracle
{
  public:
    explicit Oracle(Fixture& fx) : fx_(fx)
    {
        rng_params_ = std::make_shared<XorwowRngParams>(0);
        rng_states_ = std::make_unique<RngStore>(rng_params_->host_ref(), StreamId{0}, 1);
    }
    std::string run(std::vector<std::string> const& w);
    std::vector<double> rayleigh_params();
    std::string run_rayleigh(std::vector<std::string> const& w);
    std::string run_coulomb(std::vector<std::string> const& w);

  private:
    using RngStore = CollectionStateStore<XorwowRngStateData, MemSpace::host>;
    Fixture& fx_;
    std::shared_ptr<XorwowRngParams> rng_params_;
    std::unique_ptr<RngStore> rng_states_;
    std::unique_ptr<FxCu> cu_;
    std::unique_ptr<FxK> k_;
    std::unique_ptr<FxRay> ray_;
    std::unique_ptr<FxCoul> coul_;

    template<class Rng>
    std::string dispatch(std::string const& model, std::size_t cap, std::size_t size,
                         std::vector<double> const& d, Rng& rng);
};
//---------------------------------------------------------------------------//
}  // namespace vh

namespace
{
//---------------------------------------------------------------------------//
//! run `call(allocator, rng)` with a scripted stream; print in the protocol's format
template<class F>
string run_scripted(std::size_t cap, std::size_t size, vecd const& script, F&& call)
{
    if (size > cap)
        return "bad-op";
    vh::AllocBox box(cap, size);
    vh::ScriptedEngine rng{script};
    try
    {
        Interaction r = call(*box.alloc, rng);
        if (r.action == Interaction::Action::failed && !box.untouched())
            return "failed-but-wrote";
        if (r.action == Interaction::Action::failed && rng.draws() != 0)
            return "failed-after-draws";
        if (!box.tail_untouched())
            return "wrote-past-allocation";
        return show_interaction(r, box.reported_size(), rng.draws());
    }
    catch (vh::ScriptExhausted const&)
    {
        return "script-exhausted";
    }
}

bool unit_ok(vecd const& d, std::size_t i)
{
    // the protocol accepts any finite direction; the fixture would normalise, so directions
    // are passed to the interactor as given (callers send unit vectors)
    return std::isfinite(d[i]) && std::isfinite(d[i + 1]) && std::isfinite(d[i + 2]);
}

//---------------------------------------------------------------------------//
}  // namespace

namespace vh
{
//---------------------------------------------------------------------------//
template<class Rng>
std::string Oracle::dispatch(std::string const& model, std::size_t cap, std::size_t size,
                             std::vector<double> const& d, Rng& rng)
{
    if (size > cap)
        return "bad-op";
    double const E = d[0];
    Real3 const dir{d[1], d[2], d[3]};
    double const cut_e = d[4];
    double const cut_g = d[5];
    double const cut_p = d[6];
    AllocBox box(cap, size);
    auto& alloc = *box.alloc;
    Interaction r;
    auto pdg_of = [](std::string const& m, char const* minus, PDGNumber a, PDGNumber b) {
        return m.find(minus) != std::string::npos ? a : b;
    };

    if (model == "kn")
    {
        KleinNishinaData data;
        data.ids.electron = fx_.electron;
        data.ids.gamma = fx_.gamma;
        data.inv_electron_mass = 1 / fx_.emass.value();
        fx_.set_inc_particle(pdg::gamma(), MevEnergy{E});
        r = KleinNishinaInteractor(data, fx_.particle_track(), dir, alloc)(rng);
    }
    else if (model == "gg")
    {
        EPlusGGData data;
        data.positron = fx_.positron;
        data.gamma = fx_.gamma;
        data.electron_mass = fx_.emass;
        fx_.set_inc_particle(pdg::positron(), MevEnergy{E});
        r = EPlusGGInteractor(data, fx_.particle_track(), dir, alloc)(rng);
    }
    else if (model == "mb-" || model == "mb+")
    {
        MollerBhabhaData data;
        data.ids.electron = fx_.electron;
        data.ids.positron = fx_.positron;
        data.electron_mass = fx_.emass;
        fx_.set_inc_particle(model == "mb-" ? pdg::electron() : pdg::positron(), MevEnergy{E});
        fx_.set_cutoffs(cut_e, cut_g, cut_p);
        r = MollerBhabhaInteractor(
            data, fx_.particle_track(), fx_.cutoff_params()->get(MaterialId{0}), dir, alloc)(rng);
    }
    else if (model == "bb-" || model == "bb+" || model == "mubb-" || model == "mubb+"
             || model == "bragg" || model == "icru")
    {
        MuHadIonizationData data;
        data.electron = fx_.electron;
        data.electron_mass = fx_.emass;
        PDGNumber p = model == "bragg" ? pdg::mu_plus()
                      : model == "icru" ? pdg::mu_minus()
                                        : pdg_of(model, "-", pdg::mu_minus(), pdg::mu_plus());
        fx_.set_inc_particle(p, MevEnergy{E});
        fx_.set_cutoffs(cut_e, cut_g, cut_p);
        auto cv = fx_.cutoff_params()->get(MaterialId{0});
        if (model[0] == 'b' && model[1] == 'b')
            r = MuHadIonizationInteractor<BetheBlochEnergyDistribution>(
                data, fx_.particle_track(), cv, dir, alloc)(rng);
        else if (model[0] == 'm')
            r = MuHadIonizationInteractor<MuBBEnergyDistribution>(
                data, fx_.particle_track(), cv, dir, alloc)(rng);
        else
            r = MuHadIonizationInteractor<BraggICRU73QOEnergyDistribution>(
                data, fx_.particle_track(), cv, dir, alloc)(rng);
    }
    else if (model == "bh" || model == "bhnolpm" || model == "bhpb")
    {
        BetheHeitlerData data;
        data.ids.electron = fx_.electron;
        data.ids.positron = fx_.positron;
        data.ids.gamma = fx_.gamma;
        data.electron_mass = fx_.emass;
        data.enable_lpm = model != "bhnolpm";
        fx_.set_inc_particle(pdg::gamma(), MevEnergy{E});
        fx_.set_material(model == "bhpb" ? "Pb" : "Cu");
        auto const material = fx_.material_track().make_material_view();
        auto const element = material.make_element_view(ElementComponentId{0});
        r = BetheHeitlerInteractor(data, fx_.particle_track(), dir, alloc, material, element)(rng);
        fx_.set_material("Cu");
    }
    else if (model == "mubrems-" || model == "mubrems+")
    {
        MuBremsstrahlungData data;
        data.gamma = fx_.gamma;
        data.mu_minus = fx_.mu_minus;
        data.mu_plus = fx_.mu_plus;
        data.electron_mass = fx_.emass;
        fx_.set_inc_particle(model == "mubrems-" ? pdg::mu_minus() : pdg::mu_plus(), MevEnergy{E});
        fx_.set_cutoffs(cut_e, cut_g, cut_p);
        auto const material = fx_.material_track().make_material_view();
        r = MuBremsstrahlungInteractor(data, fx_.particle_track(), dir,
                                       fx_.cutoff_params()->get(MaterialId{0}), alloc, material,
                                       ElementComponentId{0})(rng);
    }
    else if (model == "sb-" || model == "sb+" || model == "rb-" || model == "rb+"
             || model == "rblpm-" || model == "rblpm+" || model == "cb-" || model == "cb+")
    {
        if (!cu_)
            cu_ = std::make_unique<FxCu>();
        auto& f = *cu_;
        f.set_inc_particle(model.back() == '-' ? pdg::electron() : pdg::positron(), MevEnergy{E});
        f.set_cutoffs(cut_e, cut_g, cut_p);
        auto const material = f.material_track().make_material_view();
        auto cv = f.cutoff_params()->get(MaterialId{0});
        if (model[0] == 's')
            r = SeltzerBergerInteractor(f.sb->host_ref(), f.particle_track(), dir, cv, alloc,
                                        material, ElementComponentId{0})(rng);
        else if (model[0] == 'c')
            r = CombinedBremInteractor(f.cb->host_ref(), f.particle_track(), dir, cv, alloc,
                                       material, ElementComponentId{0})(rng);
        else
            r = RelativisticBremInteractor(
                (model[2] == 'l' ? f.rb_lpm : f.rb)->host_ref(), f.particle_track(), dir, cv,
                alloc, material, ElementComponentId{0})(rng);
    }
    else if (model == "pe" || model == "perelax" || model == "perelaxf")
    {
        if (!k_)
            k_ = std::make_unique<FxK>();
        auto& f = *k_;
        f.set_inc_particle(pdg::gamma(), MevEnergy{E});
        ElementId el_id{0};
        if (model != "pe")
        {
            f.set_relax(cut_e, cut_g, model == "perelax");
            AtomicRelaxationHelper relaxation(
                f.relax_params_ref, f.relax_states_ref, el_id, TrackSlotId{0});
            r = LivermorePEInteractor(f.model->host_ref(), relaxation, el_id, f.particle_track(),
                                      f.cutoff_params()->get(MaterialId{0}), dir, alloc)(rng);
        }
        else
        {
            f.set_cutoffs(cut_e, cut_g, cut_p);
            AtomicRelaxationHelper relaxation(
                f.no_relax_params_ref, f.no_relax_states_ref, el_id, TrackSlotId{0});
            r = LivermorePEInteractor(f.model->host_ref(), relaxation, el_id, f.particle_track(),
                                      f.cutoff_params()->get(MaterialId{0}), dir, alloc)(rng);
        }
    }
    else if (model == "ray0" || model == "ray1" || model == "ray2")
    {
        if (!ray_)
            ray_ = std::make_unique<FxRay>();
        auto& f = *ray_;
        f.set_inc_particle(pdg::gamma(), MevEnergy{E});
        auto const material = f.material_track().make_material_view();
        ElementId el_id = material.element_id(ElementComponentId{
            static_cast<ElementComponentId::size_type>(model[3] - '0')});
        r = RayleighInteractor(f.model->host_ref(), f.particle_track(), dir, el_id)(rng);
    }
    else if (model.size() == 5 && model.substr(0, 2) == "cs" && (model[2] == '-' || model[2] == '+')
             && model[3] >= '0' && model[3] <= '2' && (model[4] == 'a' || model[4] == 'b'))
    {
        if (!coul_)
            coul_ = std::make_unique<FxCoul>();
        auto& f = *coul_;
        f.set_inc_particle(model[2] == '-' ? pdg::electron() : pdg::positron(), MevEnergy{E});
        f.set_cutoffs(cut_e, cut_g, cut_p);
        auto const material = f.material_track().make_material_view();
        IsotopeView const isotope
            = material.make_element_view(ElementComponentId{0})
                  .make_isotope_view(IsotopeComponentId{
                      static_cast<IsotopeComponentId::size_type>(model[4] - 'a')});
        std::size_t ff = static_cast<std::size_t>(model[3] - '0');
        if (ff >= f.wentzel.size())
            return "bad-op";
        r = CoulombScatteringInteractor(f.model->host_ref(), f.wentzel[ff]->host_ref(),
                                        f.particle_track(), dir, material, isotope, ElementId{0},
                                        f.cutoff_params()->get(MaterialId{0}))(rng);
    }
    else
    {
        return "bad-op";
    }
    if (r.action == Interaction::Action::failed && !box.untouched())
        return "failed-but-wrote";
    if (r.action == Interaction::Action::failed && rng.draws() != 0)
        return "failed-after-draws";
    if (!box.tail_untouched())
        return "wrote-past-allocation";
    return show_interaction(r, box.reported_size(), rng.draws());
}

std::vector<double> Oracle::rayleigh_params()
{
    if (!ray_)
        ray_ = std::make_unique<FxRay>();
    auto const material = ray_->material_track().make_material_view();
    std::vector<double> out;
    for (int i = 0; i < 3; ++i)
    {
        ElementId el = material.element_id(ElementComponentId{static_cast<size_type>(i)});
        auto const& p = ray_->model->host_ref().params[el];
        for (auto const* v : {&p.a, &p.b, &p.n})
            for (double x : *v)
                out.push_back(x);
    }
    return out;
}

//! `rayleigh <el> E dx dy dz k1 k2 a(3) b(3) n(3) | script` : the real RayleighInteractor
std::string Oracle::run_rayleigh(std::vector<std::string> const& w)
{
    std::size_t el = 0;
    vecd d, script;
    if (w.size() < 18 || w[17] != "|" || !parse_nat(w[1], &el) || el > 2
        || !parse_all(w, 2, 17, &d) || !parse_all(w, 18, w.size(), &script))
        return "bad-op";
    auto params = this->rayleigh_params();
    auto consts = rayleigh_consts();
    bool same = dbl_bits(consts[0]) == dbl_bits(d[4]) && dbl_bits(consts[1]) == dbl_bits(d[5]);
    for (std::size_t i = 0; i < 9; ++i)
        same = same && dbl_bits(params[9 * el + i]) == dbl_bits(d[6 + i]);
    if (!same)
        return "bad-oracle";
    if (!(d[0] > 0) || !std::isfinite(d[0]))
        return "bad-op";
    auto& f = *ray_;
    f.set_inc_particle(pdg::gamma(), MevEnergy{d[0]});
    Real3 dir{d[1], d[2], d[3]};
    auto const material = f.material_track().make_material_view();
    ElementId el_id = material.element_id(ElementComponentId{static_cast<size_type>(el)});
    ScriptedEngine rng{script};
    try
    {
        Interaction r = RayleighInteractor(f.model->host_ref(), f.particle_track(), dir, el_id)(rng);
        return show_interaction(r, 0, rng.draws());
    }
    catch (ScriptExhausted const&)
    {
        return "script-exhausted";
    }
}

//! pass 1: `wentzel <-|+> <ff> <a|b> E cut_e | script` → `wz <cosθ> <draws> <target mass>` (the
//! real WentzelDistribution, built exactly as CoulombScatteringInteractor builds it);
//! pass 2: `coulomb <-|+> <ff> <a|b> <draws> E cut_e dx dy dz cosθ m_target | script`: checks the
//! recorded (cosθ, draws) against its own sample and runs the REAL interactor on the script
std::string Oracle::run_coulomb(std::vector<std::string> const& w)
{
    bool const pass2 = w[0] == "coulomb";
    std::size_t const nh = pass2 ? 5 : 4;
    if (w.size() < nh + 1 || (w[1] != "-" && w[1] != "+") || w[2].size() != 1 || w[2][0] < '0'
        || w[2][0] > '2' || (w[3] != "a" && w[3] != "b"))
        return "bad-op";
    std::size_t nd_given = 0;
    if (pass2 && !parse_nat(w[4], &nd_given))
        return "bad-op";
    std::size_t bar = nh;
    while (bar < w.size() && w[bar] != "|")
        ++bar;
    vecd d, script;
    if (bar >= w.size() || bar - nh != (pass2 ? 7u : 2u) || !parse_all(w, nh, bar, &d)
        || !parse_all(w, bar + 1, w.size(), &script))
        return "bad-op";
    if (!(d[0] > 0 && d[0] < 1e8) || !(d[1] > 0) || !std::isfinite(d[1]))
        return "bad-op";
    if (!coul_)
        coul_ = std::make_unique<FxCoul>();
    auto& f = *coul_;
    f.set_inc_particle(w[1] == "-" ? pdg::electron() : pdg::positron(), MevEnergy{d[0]});
    f.set_cutoffs(d[1], d[1], d[1]);
    auto const material = f.material_track().make_material_view();
    IsotopeView const isotope
        = material.make_element_view(ElementComponentId{0})
              .make_isotope_view(IsotopeComponentId{static_cast<size_type>(w[3][0] - 'a')});
    auto const& wentzel = f.wentzel[static_cast<std::size_t>(w[2][0] - '0')]->host_ref();
    auto const& shared = f.model->host_ref();
    auto cutoffs = f.cutoff_params()->get(MaterialId{0});
    double cos_theta = 0;
    std::size_t nd = 0;
    try
    {
        WentzelHelper helper(f.particle_track(), material, isotope.atomic_number(), wentzel,
                             shared.ids, cutoffs.energy(shared.ids.electron));
        WentzelDistribution sample_angle(wentzel, helper, f.particle_track(), isotope, ElementId{0},
                                         helper.cos_thetamax_nuclear(), shared.cos_thetamax());
        ScriptedEngine rng{script};
        cos_theta = sample_angle(rng);
        nd = rng.draws();
    }
    catch (ScriptExhausted const&)
    {
        return "script-exhausted";
    }
    double const mt = value_as<units::MevMass>(isotope.nuclear_mass());
    if (!pass2)
        return "wz " + hexd(cos_theta) + " " + std::to_string(nd) + " " + hexd(mt);
    if (nd != nd_given || dbl_bits(cos_theta) != dbl_bits(d[5]) || dbl_bits(mt) != dbl_bits(d[6]))
        return "bad-oracle";
    Real3 dir{d[2], d[3], d[4]};
    ScriptedEngine rng{script};
    try
    {
        Interaction r = CoulombScatteringInteractor(shared, wentzel, f.particle_track(), dir,
                                                    material, isotope, ElementId{0}, cutoffs)(rng);
        return show_interaction(r, 0, rng.draws());
    }
    catch (ScriptExhausted const&)
    {
        return "script-exhausted";
    }
}

std::string Oracle::run(std::vector<std::string> const& w)
{
    // x model cap size E dx dy dz cut_e cut_g cut_p | s seed   /   | u script…
    if (w.size() < 14 || w[11] != "|" || w[0] != "x")
        return "bad-op";
    std::size_t cap = 0, size = 0;
    vecd d, script;
    if (!parse_nat(w[2], &cap) || !parse_nat(w[3], &size) || !parse_all(w, 4, 11, &d))
        return "bad-op";
    for (double v : d)
        if (!std::isfinite(v))
            return "bad-op";
    try
    {
        if (w[12] == "s" && w.size() == 14)
        {
            std::uint64_t seed;
            if (!vh::parse_hex(w[13], &seed) || seed >= (1ull << 32))
                return "bad-op";
            XorwowRngEngine eng(rng_params_->host_ref(), rng_states_->ref(), TrackSlotId{0});
            XorwowRngInitializer init;
            init.seed = {static_cast<unsigned int>(seed)};
            init.subsequence = 0;
            init.offset = 0;
            eng = init;
            CountingXorwow rng{&eng, 0};
            return this->dispatch(w[1], cap, size, d, rng);
        }
        if (w[12] == "u" && parse_all(w, 13, w.size(), &script))
        {
            ScriptedEngine rng{script};
            return this->dispatch(w[1], cap, size, d, rng);
        }
    }
    catch (ScriptExhausted const&)
    {
        return "script-exhausted";
    }
    catch (std::exception const& e)
    {
        return std::string("exception ") + typeid(e).name();
    }
    return "bad-op";
}
//---------------------------------------------------------------------------//
}  // namespace vh

namespace
{
//---------------------------------------------------------------------------//
/*!
 * The REAL AtomicRelaxation on a transition table given on the op line:
 * `relax <shell> <nshells> <ecut> <gcut> {t <shell> <initial> <auger|-> <prob> <energy>}* | script`.
 * `with_max`: also print calc_max_secondaries() and whether anything was written past it.
 */
string run_relax(vh::Fixture& fx, std::vector<string> const& w, bool with_max)
{
    std::size_t bar = 1;
    while (bar < w.size() && w[bar] != "|")
        ++bar;
    if (bar >= w.size() || bar < 5 || (bar - 5) % 6 != 0)
        return "bad-op";
    std::size_t sh0 = 0, n = 0;
    vecd cuts, script;
    if (!parse_nat(w[1], &sh0) || !parse_nat(w[2], &n) || !parse_all(w, 3, 5, &cuts)
        || !parse_all(w, bar + 1, w.size(), &script))
        return "bad-op";
    if (n == 0 || n > 64 || sh0 >= n)
        return "bad-op";
    std::vector<std::vector<AtomicRelaxTransition>> table(n);
    for (std::size_t i = 5; i < bar; i += 6)
    {
        std::size_t sh = 0, ini = 0, au = 0;
        vecd pe;
        if (w[i] != "t" || !parse_nat(w[i + 1], &sh) || !parse_nat(w[i + 2], &ini)
            || !parse_all(w, i + 4, i + 6, &pe))
            return "bad-op";
        bool has_auger = w[i + 3] != "-";
        if (has_auger && !parse_nat(w[i + 3], &au))
            return "bad-op";
        if (sh >= n || ini <= sh || (has_auger && au <= sh))
            return "bad-op";
        AtomicRelaxTransition t;
        t.initial_shell = SubshellId{static_cast<size_type>(ini)};
        t.auger_shell = has_auger ? SubshellId{static_cast<size_type>(au)} : SubshellId{};
        t.probability = pe[0];
        t.energy = MevEnergy{pe[1]};
        table[sh].push_back(t);
    }
    HostVal<AtomicRelaxParamsData> data;
    data.ids.electron = fx.electron;
    data.ids.gamma = fx.gamma;
    std::vector<AtomicRelaxSubshell> shells(n);
    for (std::size_t i = 0; i < n; ++i)
    {
        shells[i].transitions
            = make_builder(&data.transitions).insert_back(table[i].begin(), table[i].end());
    }
    AtomicRelaxElement el;
    el.shells = make_builder(&data.shells).insert_back(shells.begin(), shells.end());
    el.max_secondary = celeritas::detail::calc_max_secondaries(
        make_const_ref(data), el.shells, MevEnergy{cuts[0]}, MevEnergy{cuts[1]});
    data.max_stack_size = 2 * n + 8;
    make_builder(&data.elements).push_back(el);
    HostCRef<AtomicRelaxParamsData> ref;
    ref = data;

    fx.set_cutoffs(cuts[0], cuts[1], cuts[0]);
    // secondaries: the span the caller would allocate is max_secondary long; the backing store
    // is larger and pre-filled so that writes past the span are visible, not fatal
    std::size_t const backing = 3 * script.size() + 8;
    std::vector<Secondary> secs(backing);
    std::memset(static_cast<void*>(secs.data()), 0xAB, backing * sizeof(Secondary));
    std::vector<SubshellId> vac(data.max_stack_size);
    vh::ScriptedEngine rng{script};
    try
    {
        AtomicRelaxation relax(ref,
                               fx.cutoff_params()->get(MaterialId{0}),
                               ElementId{0},
                               SubshellId{static_cast<size_type>(sh0)},
                               Span<Secondary>{secs.data(), backing},
                               Span<SubshellId>{vac.data(), vac.size()});
        auto res = relax(rng);
        if (res.count > backing)
            return "relax-overflow";
        string out = with_max ? "xrelaxed " + std::to_string(el.max_secondary) + " " : "relaxed ";
        out += std::to_string(res.count) + " " + vh::hexd(res.energy.value());
        for (std::size_t i = 0; i < res.count; ++i)
            out += " " + show_secondary(secs[i]);
        out += " " + std::to_string(rng.draws());
        return out;
    }
    catch (vh::ScriptExhausted const&)
    {
        return "script-exhausted";
    }
}
//---------------------------------------------------------------------------//
}  // namespace

int main(int argc, char** argv)
{
    vh::Fixture fx;
    vh::Oracle oracle(fx);

    string line;
    while (std::getline(std::cin, line))
    {
        auto w = vh::words(line);
        if (w.empty())
        {
            std::cout << "bad-op\n";
            continue;
        }
        string const& op = w[0];
        // `cap size <hex…> | <script…>` ops
        auto alloc_op = [&](std::size_t first, std::size_t nargs, std::size_t* cap,
                            std::size_t* size, vecd* d, vecd* script) {
            std::size_t bar = first;
            while (bar < w.size() && w[bar] != "|")
                ++bar;
            if (bar >= w.size() || bar != first + 2 + nargs)
                return false;
            return parse_nat(w[first], cap) && parse_nat(w[first + 1], size)
                   && parse_all(w, first + 2, bar, d) && parse_all(w, bar + 1, w.size(), script);
        };
        std::size_t cap = 0, size = 0;
        vecd d, script;

        if (op == "consts" && w.size() == 1)
        {
            double const vals[] = {constants::pi,
                                   2 * constants::pi,
                                   KleinNishinaInteractor::secondary_cutoff().value(),
                                   detail::RealVecTraits<double>::min_accurate_sintheta(),
                                   0.5,
                                   1.6,
                                   1.6 / 3,
                                   0.25,
                                   fx.emass.value(),
                                   fx.particle_params()->get(fx.mu_minus).mass().value(),
                                   1 / fx.emass.value()};
            string out;
            for (double v : vals)
                out += (out.empty() ? "" : " ") + vh::hexd(v);
            std::cout << out << "\n";
        }
        else if (op == "kn" && alloc_op(1, 4, &cap, &size, &d, &script) && unit_ok(d, 1))
        {
            KleinNishinaData data;
            data.ids.electron = fx.electron;
            data.ids.gamma = fx.gamma;
            data.inv_electron_mass = 1 / fx.emass.value();
            fx.set_inc_particle(pdg::gamma(), MevEnergy{d[0]});
            Real3 dir{d[1], d[2], d[3]};
            std::cout << run_scripted(cap, size, script, [&](auto& alloc, auto& rng) {
                KleinNishinaInteractor interact(data, fx.particle_track(), dir, alloc);
                return interact(rng);
            }) << "\n";
        }
        else if (op == "gg" && alloc_op(1, 4, &cap, &size, &d, &script) && unit_ok(d, 1))
        {
            EPlusGGData data;
            data.positron = fx.positron;
            data.gamma = fx.gamma;
            data.electron_mass = fx.emass;
            fx.set_inc_particle(pdg::positron(), MevEnergy{d[0]});
            Real3 dir{d[1], d[2], d[3]};
            std::cout << run_scripted(cap, size, script, [&](auto& alloc, auto& rng) {
                EPlusGGInteractor interact(data, fx.particle_track(), dir, alloc);
                return interact(rng);
            }) << "\n";
        }
        else if (op == "mb" && w.size() > 2 && (w[1] == "e-" || w[1] == "e+")
                 && alloc_op(2, 5, &cap, &size, &d, &script) && unit_ok(d, 2))
        {
            MollerBhabhaData data;
            data.ids.electron = fx.electron;
            data.ids.positron = fx.positron;
            data.electron_mass = fx.emass;
            fx.set_inc_particle(w[1] == "e-" ? pdg::electron() : pdg::positron(),
                                MevEnergy{d[0]});
            fx.set_cutoffs(d[1], d[1]);
            Real3 dir{d[2], d[3], d[4]};
            std::cout << run_scripted(cap, size, script, [&](auto& alloc, auto& rng) {
                MollerBhabhaInteractor interact(data,
                                                fx.particle_track(),
                                                fx.cutoff_params()->get(MaterialId{0}),
                                                dir,
                                                alloc);
                return interact(rng);
            }) << "\n";
        }
        else if (op == "muhad" && alloc_op(1, 5, &cap, &size, &d, &script) && unit_ok(d, 2))
        {
            MuHadIonizationData data;
            data.electron = fx.electron;
            data.electron_mass = fx.emass;
            fx.set_inc_particle(pdg::mu_minus(), MevEnergy{d[0]});
            fx.set_cutoffs(d[1], d[1]);
            Real3 dir{d[2], d[3], d[4]};
            std::cout << run_scripted(cap, size, script, [&](auto& alloc, auto& rng) {
                MuHadIonizationInteractor<BetheBlochEnergyDistribution> interact(
                    data, fx.particle_track(), fx.cutoff_params()->get(MaterialId{0}), dir, alloc);
                return interact(rng);
            }) << "\n";
        }
        else if (op == "bhlow" && alloc_op(1, 4, &cap, &size, &d, &script) && unit_ok(d, 1)
                 && d[0] < 2.0)
        {
            BetheHeitlerData data;
            data.ids.electron = fx.electron;
            data.ids.positron = fx.positron;
            data.ids.gamma = fx.gamma;
            data.electron_mass = fx.emass;
            data.enable_lpm = true;
            fx.set_inc_particle(pdg::gamma(), MevEnergy{d[0]});
            Real3 dir{d[1], d[2], d[3]};
            auto const material = fx.material_track().make_material_view();
            auto const element = material.make_element_view(ElementComponentId{0});
            std::cout << run_scripted(cap, size, script, [&](auto& alloc, auto& rng) {
                BetheHeitlerInteractor interact(
                    data, fx.particle_track(), dir, alloc, material, element);
                return interact(rng);
            }) << "\n";
        }
        else if (op == "bremtail")
        {
            // TsaiUrbanDistribution + BremFinalStateHelper as SB/RB/CombinedBrem call them,
            // with the photon energy given (their table samplers are not modelled)
            std::size_t bar = 1;
            while (bar < w.size() && w[bar] != "|")
                ++bar;
            if (bar != 6 || !parse_all(w, 1, bar, &d) || !parse_all(w, bar + 1, w.size(), &script))
            {
                std::cout << "bad-op\n";
                continue;
            }
            fx.set_inc_particle(pdg::electron(), MevEnergy{d[0]});
            Real3 dir{d[1], d[2], d[3]};
            Secondary sec;
            vh::ScriptedEngine rng{script};
            try
            {
                auto const& p = fx.particle_track();
                TsaiUrbanDistribution sample_costheta(p.energy(), p.mass());
                Interaction r = celeritas::detail::BremFinalStateHelper{p.energy(),
                                                                         dir,
                                                                         p.momentum(),
                                                                         fx.gamma,
                                                                         MevEnergy{d[4]},
                                                                         sample_costheta(rng),
                                                                         &sec}(rng);
                std::cout << show_interaction(r, 0, rng.draws()) << "\n";
            }
            catch (vh::ScriptExhausted const&)
            {
                std::cout << "script-exhausted\n";
            }
        }
        else if (op == "rotate" && w.size() == 7 && parse_all(w, 1, 7, &d))
        {
            std::cout << hv(rotate(Real3{d[0], d[1], d[2]}, Real3{d[3], d[4], d[5]})) << "\n";
        }
        else if (op == "exitdir" && w.size() == 6 && parse_all(w, 1, 6, &d))
        {
            vh::ScriptedEngine rng{{d[4]}};
            Real3 dir{d[1], d[2], d[3]};
            std::cout << hv(ExitingDirectionSampler{d[0], dir}(rng)) << "\n";
        }
        else if (op == "calcexit" && w.size() == 9 && parse_all(w, 1, 9, &d))
        {
            Real3 a{d[1], d[2], d[3]}, b{d[5], d[6], d[7]};
            std::cout << hv(calc_exiting_direction({d[0], a}, {d[4], b})) << "\n";
        }
        else if (op == "consts2" && w.size() == 1)
        {
            // oracle constants for the mubrems / rayleigh model ops (values the real code uses)
            std::cout << vh::join_hex(vh::mubrems_consts(fx)) << " | "
                      << vh::join_hex(vh::rayleigh_consts()) << " | "
                      << vh::join_hex(oracle.rayleigh_params()) << "\n";
        }
        else if (op == "mubrems" && alloc_op(1, 14, &cap, &size, &d, &script) && unit_ok(d, 2))
        {
            auto own = vh::mubrems_consts(fx);
            bool same = true;
            for (std::size_t i = 0; i < 9; ++i)
                same = same && vh::dbl_bits(own[i]) == vh::dbl_bits(d[5 + i]);
            if (!same)
            {
                std::cout << "bad-oracle\n";
                continue;
            }
            MuBremsstrahlungData data;
            data.gamma = fx.gamma;
            data.mu_minus = fx.mu_minus;
            data.mu_plus = fx.mu_plus;
            data.electron_mass = fx.emass;
            fx.set_inc_particle(pdg::mu_minus(), MevEnergy{d[0]});
            fx.set_cutoffs(d[1], d[1], d[1]);
            Real3 dir{d[2], d[3], d[4]};
            auto const material = fx.material_track().make_material_view();
            std::cout << run_scripted(cap, size, script, [&](auto& alloc, auto& rng) {
                MuBremsstrahlungInteractor interact(data, fx.particle_track(), dir,
                                                    fx.cutoff_params()->get(MaterialId{0}), alloc,
                                                    material, ElementComponentId{0});
                return interact(rng);
            }) << "\n";
        }
        else if (op == "wentzel" || op == "coulomb")
        {
            std::cout << oracle.run_coulomb(w) << "\n";
        }
        else if (op == "rayleigh")
        {
            std::cout << oracle.run_rayleigh(w) << "\n";
        }
        else if (op == "relax" || op == "xrelax")
        {
            std::cout << run_relax(fx, w, op == "xrelax") << "\n";
        }
        else if (op == "x")
        {
            std::cout << oracle.run(w) << "\n";
        }
        else
        {
            std::cout << "bad-op\n";
        }
    }
    return 0;
}
