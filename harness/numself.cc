// Numeric self-test: the C++ side of lean/CelerVerif/Num/SelfDriver.lean.
// Applies the same primitives the real code uses (celeritas::fma, std::sqrt, ...) to the bit
// patterns on each line.
#include <cmath>
#include <cstdlib>
#include <limits>

#include "corecel/math/Algorithms.hh"

#include "common/lineio.hh"

int main()
{
    std::string line;
    while (std::getline(std::cin, line))
    {
        auto w = vh::words(line);
        std::uint64_t u[3] = {0, 0, 0};
        bool ok = !w.empty();
        std::string const op = ok ? w[0] : "";
        bool const hexargs = op != "nat" && op != "sci" && op != "inf";
        if (ok && hexargs)
        {
            for (std::size_t i = 1; i < w.size() && i <= 3; ++i)
                ok = ok && vh::parse_hex(w[i], &u[i - 1]);
        }
        double a = vh::bits_dbl(u[0]), b = vh::bits_dbl(u[1]), c = vh::bits_dbl(u[2]);
        auto n = w.size();
        if (!ok)
            std::cout << "bad-op\n";
        else if (op == "fma" && n == 4)
            std::cout << vh::hexd(celeritas::fma(a, b, c)) << "\n";
        else if (op == "add" && n == 3)
            std::cout << vh::hexd(a + b) << "\n";
        else if (op == "sub" && n == 3)
            std::cout << vh::hexd(a - b) << "\n";
        else if (op == "mul" && n == 3)
            std::cout << vh::hexd(a * b) << "\n";
        else if (op == "div" && n == 3)
            std::cout << vh::hexd(a / b) << "\n";
        else if (op == "neg" && n == 2)
            std::cout << vh::hexd(-a) << "\n";
        else if (op == "abs" && n == 2)
            std::cout << vh::hexd(std::fabs(a)) << "\n";
        else if (op == "sqrt" && n == 2)
            std::cout << vh::hexd(std::sqrt(a)) << "\n";
        else if (op == "exp" && n == 2)
            std::cout << vh::hexd(std::exp(a)) << "\n";
        else if (op == "log" && n == 2)
            std::cout << vh::hexd(std::log(a)) << "\n";
        else if (op == "sin" && n == 2)
            std::cout << vh::hexd(std::sin(a)) << "\n";
        else if (op == "cos" && n == 2)
            std::cout << vh::hexd(std::cos(a)) << "\n";
        else if (op == "lt" && n == 3)
            std::cout << (a < b ? "1" : "0") << "\n";
        else if (op == "le" && n == 3)
            std::cout << (a <= b ? "1" : "0") << "\n";
        else if (op == "eq" && n == 3)
            std::cout << (a == b ? "1" : "0") << "\n";
        else if (op == "nat" && n == 2)
            std::cout << vh::hexd(static_cast<double>(std::strtoull(w[1].c_str(), nullptr, 10)))
                      << "\n";
        else if (op == "sci" && n == 4)
        {
            std::string s = w[1] + "e" + (w[2] == "-" ? "-" : "+") + w[3];
            std::cout << vh::hexd(std::strtod(s.c_str(), nullptr)) << "\n";
        }
        else if (op == "inf" && n == 1)
            std::cout << vh::hexd(std::numeric_limits<double>::infinity()) << "\n";
        else
            std::cout << "bad-op\n";
    }
    return 0;
}
