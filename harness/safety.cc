// C11 harness: the REAL safety-distance path of ORANGE.
//
// Mode 1 (diffed bit-for-bit against lean/CelerVerif/Model/SafetyDriver.lean):
//   safety <tag> <data…> | x y z     detail::CalcSafetyDistance{pos}(surf) on the real surface class
//   flag   <tag> <data…> |           S::simple_safety()
//   findmax m x y z / <level> / …    same through find_safety(max_step = m)
//   find x y z / <level> / …         a real OrangeParams is built from the op line (one universe per
//                                    level, UnitInserter / RectArrayInserter), a real
//                                    OrangeTrackView is initialised at the point and
//                                    find_safety() is called
// Mode 2 (impl-side oracle only; the model driver answers bad-op):
//   isect  <tag> <data…> | x y z u v w   calc_intersections (off surface): nearest distance
//   geo <path.org.json>                  load a real geometry (OrangeParams(filename))
//   gscan x y z n seed [max]             find_safety() at the point (and find_safety(max), the
//                                        overload Urban MSC calls), then min over n directions
//                                        (splitmix64(seed) uniform on the sphere) of
//                                        find_next_step(); prints `vol=<id> safety=<hex>
//                                        [safetymax=<hex> level=<l>] mindist=<hex> dir=<hex hex hex>`
//   gnear x y z u v w eps n seed max     same at the point `eps` before the next boundary of the
//                                        ray (x y z; u v w): near a wall known to some level
//   gseq x y z n seed max [u v w frac]+  init → [set_dir(u v w) → find_next_step →
//                                        move_internal(frac·min(step,10))]… → find_safety() and
//                                        find_safety(max) on that state (`seqsafety= seqsafetymax=`),
//                                        then the scan from a FRESH state at the reached global point
//   gfind x y z / <level> / … | n seed [max [u v w frac]*]   same scans on the synthetic geometry of `find`
#include <cmath>
#include <cstdlib>
#include <map>
#include <memory>
#include <string>
#include <vector>

#include "corecel/data/CollectionStateStore.hh"
#include "corecel/io/Logger.hh"
#include "orange/OrangeData.hh"
#include "orange/OrangeInput.hh"
#include "orange/OrangeParams.hh"
#include "orange/OrangeTrackView.hh"
#include "orange/surf/ConeAligned.hh"
#include "orange/surf/CylAligned.hh"
#include "orange/surf/CylCentered.hh"
#include "orange/surf/GeneralQuadric.hh"
#include "orange/surf/Plane.hh"
#include "orange/surf/PlaneAligned.hh"
#include "orange/surf/SimpleQuadric.hh"
#include "orange/surf/Sphere.hh"
#include "orange/surf/SphereCentered.hh"
#include "orange/surf/VariantSurface.hh"
#include "orange/transform/VariantTransform.hh"
#include "orange/univ/detail/SurfaceFunctors.hh"

#include "common/lineio.hh"

using namespace celeritas;
using std::string;
using vecd = std::vector<double>;
using vecs = std::vector<string>;

namespace
{
string const inf_bits = "7ff0000000000000";

bool parse_all(vecs const& w, std::size_t b, std::size_t e, vecd* out)
{
    if (e > w.size() || b > e)
        return false;
    for (std::size_t i = b; i < e; ++i)
    {
        std::uint64_t u;
        if (!vh::parse_hex(w[i], &u))
            return false;
        out->push_back(vh::bits_dbl(u));
    }
    return true;
}

bool parse_nat(string const& s, std::size_t* out)
{
    if (s.empty() || s.size() > 18)
        return false;
    std::size_t v = 0;
    for (char c : s)
    {
        if (c < '0' || c > '9')
            return false;
        v = v * 10 + static_cast<std::size_t>(c - '0');
    }
    *out = v;
    return true;
}

//---------------------------------------------------------------------------//
// Surface dispatch by tag
template<class F>
bool with_surface(string const& tag, vecd const& d, F&& f)
{
#define CASE(T, S)                                                     \
    if (tag == S)                                                      \
    {                                                                  \
        constexpr auto N = T::StorageSpan::extent;                     \
        if (d.size() != N)                                             \
            return false;                                              \
        f(T{Span<double const, N>{d.data(), N}});                      \
        return true;                                                   \
    }
    CASE(PlaneX, "px") CASE(PlaneY, "py") CASE(PlaneZ, "pz") CASE(Plane, "p")
    CASE(CCylX, "cxc") CASE(CCylY, "cyc") CASE(CCylZ, "czc")
    CASE(CylX, "cx") CASE(CylY, "cy") CASE(CylZ, "cz")
    CASE(SphereCentered, "sc") CASE(Sphere, "s")
    CASE(ConeX, "kx") CASE(ConeY, "ky") CASE(ConeZ, "kz")
    CASE(SimpleQuadric, "sq") CASE(GeneralQuadric, "gq")
#undef CASE
    return false;
}

bool parse_surface(vecs const& w, std::size_t b, std::size_t e, string* tag, vecd* d)
{
    if (b >= e || e > w.size())
        return false;
    *tag = w[b];
    return parse_all(w, b + 1, e, d);
}

//---------------------------------------------------------------------------//
// Synthetic geometry from the op line
struct LevelSpec
{
    VariantTransform xf{NoTransformation{}};
    bool is_unit{true};
    // unit
    logic_int in_flags{0};
    std::vector<VariantSurface> faces;
    // rect
    std::size_t volid{0};
    Array<std::vector<double>, 3> grid;
};

bool parse_level(vecs const& w, std::size_t b, std::size_t e, LevelSpec* out)
{
    if (b >= e)
        return false;
    std::size_t i = b;
    if (w[i] == "n")
    {
        ++i;
    }
    else if (w[i] == "t")
    {
        vecd a;
        if (!parse_all(w, i + 1, i + 4, &a) || i + 4 > e)
            return false;
        out->xf = Translation{Real3{a[0], a[1], a[2]}};
        i += 4;
    }
    else if (w[i] == "x")
    {
        vecd a;
        if (i + 13 > e || !parse_all(w, i + 1, i + 13, &a))
            return false;
        out->xf = Transformation{Span<double const, 12>{a.data(), 12}};
        i += 13;
    }
    else
    {
        return false;
    }
    if (i >= e)
        return false;
    if (w[i] == "u")
    {
        std::size_t fl;
        if (i + 1 >= e || !parse_nat(w[i + 1], &fl))
            return false;
        out->is_unit = true;
        out->in_flags = static_cast<logic_int>(fl);
        i += 2;
        // `; surf ; surf …`
        while (i < e)
        {
            if (w[i] != ";")
                return false;
            std::size_t j = i + 1;
            while (j < e && w[j] != ";")
                ++j;
            string tag;
            vecd d;
            if (!parse_surface(w, i + 1, j, &tag, &d))
                return false;
            bool ok = with_surface(tag, d, [&](auto const& s) { out->faces.emplace_back(s); });
            if (!ok)
                return false;
            i = j;
        }
        return true;
    }
    if (w[i] == "r")
    {
        out->is_unit = false;
        if (i + 1 >= e || !parse_nat(w[i + 1], &out->volid))
            return false;
        i += 2;
        for (int ax = 0; ax < 3; ++ax)
        {
            std::size_t n;
            if (i >= e || !parse_nat(w[i], &n) || n < 2 || i + 1 + n > e)
                return false;
            if (!parse_all(w, i + 1, i + 1 + n, &out->grid[ax]))
                return false;
            i += 1 + n;
        }
        std::size_t nv = (out->grid[0].size() - 1) * (out->grid[1].size() - 1)
                         * (out->grid[2].size() - 1);
        return i == e && out->volid < nv;
    }
    return false;
}

struct Geo
{
    std::shared_ptr<OrangeParams const> params;
    std::unique_ptr<CollectionStateStore<OrangeStateData, MemSpace::host>> state;

    void make_state()
    {
        state = std::make_unique<CollectionStateStore<OrangeStateData, MemSpace::host>>(
            params->host_ref(), 1);
    }
    OrangeTrackView view()
    {
        return OrangeTrackView(params->host_ref(), state->ref(), TrackSlotId{0});
    }
};

// one universe per level; volume 1 of a unit level ("everywhere", faces = the given surfaces)
// holds the next level; every cell of a rect level holds the next level
OrangeInput make_input(std::vector<LevelSpec> const& levels)
{
    OrangeInput inp;
    inp.tol = Tolerance<>::from_default();
    for (std::size_t k = 0; k < levels.size(); ++k)
    {
        auto const& L = levels[k];
        bool last = (k + 1 == levels.size());
        string lab = "L" + std::to_string(k);
        if (L.is_unit)
        {
            UnitInput u;
            u.label = Label{lab};
            u.bbox = BBox{{-1e6, -1e6, -1e6}, {1e6, 1e6, 1e6}};
            u.surfaces = L.faces;
            for (std::size_t i = 0; i < L.faces.size(); ++i)
                u.surface_labels.push_back(Label{lab + "s" + std::to_string(i)});
            VolumeInput ext;
            ext.label = Label{lab + "ext"};
            ext.logic = {logic::ltrue, logic::lnot};
            ext.flags = VolumeRecord::implicit_vol;
            ext.zorder = ZOrder::media;
            u.volumes.push_back(ext);
            VolumeInput v;
            v.label = Label{lab + "vol"};
            for (std::size_t i = 0; i < L.faces.size(); ++i)
                v.faces.push_back(LocalSurfaceId{static_cast<size_type>(i)});
            v.logic = {logic::ltrue};
            v.flags = L.in_flags;
            v.zorder = ZOrder::media;
            u.volumes.push_back(v);
            if (!last)
            {
                u.daughter_map.emplace(
                    LocalVolumeId{1},
                    DaughterInput{UniverseId{static_cast<size_type>(k + 1)}, levels[k + 1].xf});
            }
            inp.universes.emplace_back(std::move(u));
        }
        else
        {
            RectArrayInput r;
            r.label = Label{lab};
            r.grid = L.grid;
            std::size_t nv = (L.grid[0].size() - 1) * (L.grid[1].size() - 1)
                             * (L.grid[2].size() - 1);
            for (std::size_t i = 0; i < nv; ++i)
            {
                r.daughters.push_back(
                    DaughterInput{UniverseId{static_cast<size_type>(k + 1)}, levels[k + 1].xf});
            }
            inp.universes.emplace_back(std::move(r));
        }
    }
    return inp;
}

bool parse_levels(vecs const& w, std::size_t b, std::size_t e, std::vector<LevelSpec>* levels)
{
    // w[b..e) = `/ level / level …`
    std::size_t i = b;
    while (i < e)
    {
        if (w[i] != "/")
            return false;
        std::size_t j = i + 1;
        while (j < e && w[j] != "/")
            ++j;
        LevelSpec L;
        if (!parse_level(w, i + 1, j, &L))
            return false;
        levels->push_back(std::move(L));
        i = j;
    }
    if (levels->empty() || !levels->front().is_unit || !levels->back().is_unit)
        return false;
    return true;
}

//---------------------------------------------------------------------------//
struct SplitMix
{
    std::uint64_t s;
    std::uint64_t next()
    {
        s += 0x9E3779B97F4A7C15ull;
        std::uint64_t z = s;
        z = (z ^ (z >> 30)) * 0xBF58476D1CE4E5B9ull;
        z = (z ^ (z >> 27)) * 0x94D049BB133111EBull;
        return z ^ (z >> 31);
    }
    double unit() { return static_cast<double>(next() >> 11) / 9007199254740992.0; }
};

Real3 random_dir(SplitMix& rng, std::size_t k)
{
    // first six directions are the axes, then uniform on the sphere
    if (k < 6)
    {
        Real3 d{0, 0, 0};
        d[k / 2] = (k % 2) ? -1.0 : 1.0;
        return d;
    }
    double mu = 2 * rng.unit() - 1;
    double phi = 6.283185307179586 * rng.unit();
    double st = std::sqrt(1 - mu * mu);
    Real3 d{st * std::cos(phi), st * std::sin(phi), mu};
    double n = std::sqrt(d[0] * d[0] + d[1] * d[1] + d[2] * d[2]);
    for (auto& c : d)
        c /= n;
    return d;
}

string scan(Geo& g, Real3 const& pos, std::size_t n, std::uint64_t seed, double const* max_step)
{
    auto geo = g.view();
    geo = GeoTrackInitializer{pos, Real3{1, 0, 0}};
    if (geo.failed())
        return "init-failed";
    if (geo.is_outside())
        return "outside";
    auto vol = geo.volume_id();
    double safety = geo.find_safety();
    string smax;
    if (max_step)
    {
        // the overload the consumers call, on a freshly initialised state
        auto gm = g.view();
        gm = GeoTrackInitializer{pos, Real3{1, 0, 0}};
        smax = " safetymax=" + vh::hexd(gm.find_safety(*max_step)) + " level="
               + std::to_string(gm.level().unchecked_get());
    }
    SplitMix rng{seed};
    double best = std::numeric_limits<double>::infinity();
    Real3 bestdir{0, 0, 0};
    for (std::size_t k = 0; k < n; ++k)
    {
        Real3 d = random_dir(rng, k);
        auto t = g.view();
        t = GeoTrackInitializer{pos, d};
        if (t.failed() || t.is_outside())
            continue;
        auto p = t.find_next_step();
        if (p.distance < best)
        {
            best = p.distance;
            bestdir = d;
        }
    }
    return "vol=" + std::to_string(vol.unchecked_get()) + " safety=" + vh::hexd(safety) + smax
           + " mindist=" + vh::hexd(best) + " dir=" + vh::hexd(bestdir[0]) + " "
           + vh::hexd(bestdir[1]) + " " + vh::hexd(bestdir[2]);
}

// a point `eps` before the boundary that the ray (pos, dir) hits next: near a wall of the current
// volume at SOME level (e.g. the outer wall of a daughter, which only the parent level knows)
bool near_wall(Geo& g, Real3 const& pos, Real3 const& dir, double eps, Real3* out)
{
    auto t = g.view();
    t = GeoTrackInitializer{pos, dir};
    if (t.failed() || t.is_outside())
        return false;
    auto p = t.find_next_step();
    if (!(p.distance < std::numeric_limits<double>::infinity()) || !(p.distance > 2 * eps))
        return false;
    for (int i = 0; i < 3; ++i)
        (*out)[i] = pos[i] + (p.distance - eps) * dir[i];
    return true;
}

// init → [set_dir → find_next_step → move_internal(frac · step)]× → find_safety / find_safety(max)
// on the SAME state, then the usual scan from a FRESH state at the same global point.
// steps = (u v w frac)*
string seq_scan(Geo& g, Real3 const& pos, vecd const& steps, std::size_t n, std::uint64_t seed,
                double max_step)
{
    auto geo = g.view();
    geo = GeoTrackInitializer{pos, Real3{1, 0, 0}};
    if (geo.failed())
        return "init-failed";
    if (geo.is_outside())
        return "outside";
    std::size_t moves = 0;
    for (std::size_t k = 0; k + 3 < steps.size(); k += 4)
    {
        Real3 d{steps[k], steps[k + 1], steps[k + 2]};
        geo.set_dir(d);
        auto p = geo.find_next_step();
        double len = p.distance < 10.0 ? p.distance : 10.0;
        double dist = steps[k + 3] * len;
        if (!(dist > 1e-9) || !(dist < p.distance))
            continue;
        geo.move_internal(dist);
        ++moves;
    }
    double s_seq = geo.find_safety();
    double sm_seq = geo.find_safety(max_step);
    Real3 gp = geo.pos();
    auto lev = geo.level().unchecked_get();
    return "seqsafety=" + vh::hexd(s_seq) + " seqsafetymax=" + vh::hexd(sm_seq)
           + " moves=" + std::to_string(moves) + " seqlevel=" + std::to_string(lev) + " pos="
           + vh::hexd(gp[0]) + "," + vh::hexd(gp[1]) + "," + vh::hexd(gp[2]) + " fresh: "
           + scan(g, gp, n, seed, &max_step);
}

//---------------------------------------------------------------------------//
string op_find(vecs const& w, bool do_scan, bool with_max)
{
    // find x y z / level / level …            findmax m x y z / level / …
    // gfind x y z / level / … | n seed [max]
    std::size_t e = w.size();
    std::size_t nscan = 0, seed = 0;
    double scan_max = 0;
    bool have_scan_max = false;
    vecd seq_steps;
    if (do_scan)
    {
        std::size_t bar = w.size();
        while (bar > 0 && w[bar - 1] != "|")
            --bar;
        // w[bar-1] == "|", then n seed [max]
        std::size_t nt = w.size() - bar;
        if (bar < 6 || (nt != 2 && (nt < 3 || (nt - 3) % 4 != 0)) || !parse_nat(w[bar], &nscan)
            || !parse_nat(w[bar + 1], &seed))
            return "bad-op";
        if (nt >= 3)
        {
            // n seed max [u v w frac]*
            vecd m;
            if (!parse_all(w, bar + 2, bar + 3, &m) || !parse_all(w, bar + 3, w.size(), &seq_steps))
                return "bad-op";
            scan_max = m[0];
            have_scan_max = true;
        }
        e = bar - 1;
    }
    std::size_t first = with_max ? 2 : 1;
    vecd p, mx;
    if (e < first + 5 || !parse_all(w, first, first + 3, &p)
        || (with_max && !parse_all(w, 1, 2, &mx)))
        return "bad-op";
    std::vector<LevelSpec> levels;
    if (!parse_levels(w, first + 3, e, &levels))
        return "bad-op";
    Geo g;
    try
    {
        g.params = std::make_shared<OrangeParams>(make_input(levels));
        g.make_state();
    }
    catch (std::exception const& ex)
    {
        return string("build-error");
    }
    Real3 pos{p[0], p[1], p[2]};
    if (do_scan && !seq_steps.empty())
        return seq_scan(g, pos, seq_steps, nscan, seed, scan_max);
    if (do_scan)
        return scan(g, pos, nscan, seed, have_scan_max ? &scan_max : nullptr);

    auto geo = g.view();
    geo = GeoTrackInitializer{pos, Real3{1, 0, 0}};
    if (geo.failed())
        return "init-failed";
    if (geo.level().unchecked_get() + 1 != levels.size())
        return "wrong-depth " + std::to_string(geo.level().unchecked_get());
    // flags of volume 1 of every unit level and the unit's simple_safety
    auto const& data = g.params->host_ref();
    string fl;
    std::size_t unit_idx = 0;
    for (std::size_t k = 0; k < levels.size(); ++k)
    {
        if (k)
            fl += " ";
        if (!levels[k].is_unit)
        {
            fl += "-";
            continue;
        }
        auto const& su = data.simple_units[SimpleUnitId{static_cast<size_type>(unit_idx++)}];
        auto const& vr = data.volume_records[su.volumes[LocalVolumeId{1}]];
        // embedded_universe (0x8) is set by process_daughter, not part of the safety model
        fl += std::to_string(vr.flags & 0x7) + "," + (su.simple_safety ? "1" : "0");
    }
    double s = with_max ? geo.find_safety(mx[0]) : geo.find_safety();
    return "flags=" + fl + " safety=" + vh::hexd(s);
}

}  // namespace

int main()
{
    // expected initialisation failures (point exactly on a face) are answered on stdout;
    // keep the library's error log out of the merged output stream
    setenv("CELER_LOG", "critical", 1);
    setenv("CELER_LOG_LOCAL", "critical", 1);
    string line;
    Geo loaded;
    while (std::getline(std::cin, line))
    {
        auto w = vh::words(line);
        if (w.empty())
        {
            std::cout << "bad-op\n";
            continue;
        }
        string const& op = w[0];
        if (op == "safety" || op == "flag" || op == "isect")
        {
            std::size_t bar = 1;
            while (bar < w.size() && w[bar] != "|")
                ++bar;
            string tag;
            vecd d, a;
            if (w.size() < 3 || bar >= w.size() || !parse_surface(w, 1, bar, &tag, &d)
                || !parse_all(w, bar + 1, w.size(), &a))
            {
                std::cout << "bad-op\n";
                continue;
            }
            string out = "bad-op";
            if (op == "safety" && a.size() == 3)
            {
                Real3 pos{a[0], a[1], a[2]};
                with_surface(tag, d, [&](auto const& s) {
                    detail::CalcSafetyDistance calc{pos};
                    out = vh::hexd(calc(s));
                });
            }
            else if (op == "flag" && a.empty())
            {
                with_surface(tag, d, [&](auto const& s) {
                    using S = std::decay_t<decltype(s)>;
                    out = S::simple_safety() ? "1" : "0";
                });
            }
            else if (op == "isect" && a.size() == 6)
            {
                Real3 pos{a[0], a[1], a[2]};
                Real3 dir{a[3], a[4], a[5]};
                with_surface(tag, d, [&](auto const& s) {
                    auto r = s.calc_intersections(pos, dir, SurfaceState::off);
                    double m = std::numeric_limits<double>::infinity();
                    for (double t : r)
                        if (t < m)
                            m = t;
                    out = vh::hexd(m);
                });
            }
            std::cout << out << "\n";
        }
        else if (op == "find")
        {
            std::cout << op_find(w, false, false) << "\n";
        }
        else if (op == "findmax")
        {
            std::cout << op_find(w, false, true) << "\n";
        }
        else if (op == "gfind")
        {
            std::cout << op_find(w, true, false) << "\n";
        }
        else if (op == "geo" && w.size() == 2)
        {
            try
            {
                loaded.params = std::make_shared<OrangeParams>(w[1]);
                loaded.make_state();
                auto const& bb = loaded.params->bbox();
                std::cout << "ok volumes=" << loaded.params->volumes().size()
                          << " supports_safety=" << loaded.params->supports_safety()
                          << " depth=" << loaded.params->max_depth() << " bbox";
                for (int i = 0; i < 3; ++i)
                    std::cout << " " << vh::hexd(bb.lower()[i]) << " " << vh::hexd(bb.upper()[i]);
                std::cout << "\n";
            }
            catch (std::exception const& ex)
            {
                loaded.params.reset();
                std::cout << "load-error\n";
            }
        }
        else if (op == "gscan" && (w.size() == 6 || w.size() == 7))
        {
            // gscan x y z n seed [max]
            vecd p, m;
            std::size_t n, seed;
            if (!loaded.params || !parse_all(w, 1, 4, &p) || !parse_nat(w[4], &n)
                || !parse_nat(w[5], &seed) || (w.size() == 7 && !parse_all(w, 6, 7, &m)))
            {
                std::cout << "bad-op\n";
                continue;
            }
            std::cout << scan(loaded, Real3{p[0], p[1], p[2]}, n, seed, m.empty() ? nullptr : &m[0])
                      << "\n";
        }
        else if (op == "gseq" && w.size() >= 11 && (w.size() - 7) % 4 == 0)
        {
            // gseq x y z n seed max [u v w frac]+
            vecd p, m, st;
            std::size_t n, seed;
            if (!loaded.params || !parse_all(w, 1, 4, &p) || !parse_nat(w[4], &n)
                || !parse_nat(w[5], &seed) || !parse_all(w, 6, 7, &m)
                || !parse_all(w, 7, w.size(), &st))
            {
                std::cout << "bad-op\n";
                continue;
            }
            std::cout << seq_scan(loaded, Real3{p[0], p[1], p[2]}, st, n, seed, m[0]) << "\n";
        }
        else if (op == "gnear" && w.size() == 11)
        {
            // gnear x y z u v w eps n seed max : scan at the point `eps` before the next boundary
            vecd p, m;
            std::size_t n, seed;
            if (!loaded.params || !parse_all(w, 1, 8, &p) || !parse_nat(w[8], &n)
                || !parse_nat(w[9], &seed) || !parse_all(w, 10, 11, &m))
            {
                std::cout << "bad-op\n";
                continue;
            }
            Real3 q;
            if (!near_wall(loaded, Real3{p[0], p[1], p[2]}, Real3{p[3], p[4], p[5]}, p[6], &q))
            {
                std::cout << "no-wall\n";
                continue;
            }
            std::cout << scan(loaded, q, n, seed, &m[0]) << " pos=" << vh::hexd(q[0]) << ","
                      << vh::hexd(q[1]) << "," << vh::hexd(q[2]) << "\n";
        }
        else
        {
            std::cout << "bad-op\n";
        }
    }
    return 0;
}
