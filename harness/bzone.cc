// C09 (bounding-zone part) harness: real orangeinp::detail::BoundingZone algebra.
// Protocol of lean/CelerVerif/Model/BZoneDriver.lean: a zone is `neg` + interior lo(3) hi(3)
// + exterior lo(3) hi(3) as hex doubles (boxes are constructed unchecked, so null/infinite
// boxes can be passed as they occur inside the builder).
#include "orange/BoundingBoxUtils.hh"
#include "orange/orangeinp/detail/BoundingZone.hh"

#include "common/lineio.hh"

using namespace celeritas;
using celeritas::orangeinp::detail::BoundingZone;
namespace od = celeritas::orangeinp::detail;

static std::string show_box(BBox const& b)
{
    std::string out;
    for (auto const& p : {b.lower(), b.upper()})
        for (auto v : p)
            out += (out.empty() ? "" : " ") + vh::hexd(v);
    return out;
}
static std::string show_zone(BoundingZone const& z)
{
    return std::string(z.negated ? "1 " : "0 ") + show_box(z.interior) + " " + show_box(z.exterior);
}
static bool parse_zone(std::vector<std::string> const& w, std::size_t b, BoundingZone* z)
{
    if (w.size() < b + 13 || (w[b] != "0" && w[b] != "1"))
        return false;
    double d[12];
    for (int i = 0; i < 12; ++i)
    {
        std::uint64_t u;
        if (!vh::parse_hex(w[b + 1 + i], &u))
            return false;
        d[i] = vh::bits_dbl(u);
    }
    z->negated = (w[b] == "1");
    z->interior = BBox::from_unchecked({d[0], d[1], d[2]}, {d[3], d[4], d[5]});
    z->exterior = BBox::from_unchecked({d[6], d[7], d[8]}, {d[9], d[10], d[11]});
    return true;
}

int main()
{
    std::string line;
    while (std::getline(std::cin, line))
    {
        auto w = vh::words(line);
        BoundingZone a, b;
        if (w.size() == 27 && (w[0] == "inter" || w[0] == "union") && parse_zone(w, 1, &a)
            && parse_zone(w, 14, &b))
        {
            auto r = w[0] == "inter" ? od::calc_intersection(a, b) : od::calc_union(a, b);
            std::cout << show_zone(r) << "\n";
        }
        else if (w.size() == 14 && w[0] == "extbbox" && parse_zone(w, 1, &a))
        {
            std::cout << show_box(od::get_exterior_bbox(a)) << "\n";
        }
        else if (w.size() == 14 && w[0] == "negate" && parse_zone(w, 1, &a))
        {
            a.negated = !a.negated;   // BoundingZone::negate() (its CELER_EXPECT is compiled out)
            std::cout << show_zone(a) << "\n";
        }
        else
        {
            std::cout << "bad-op\n";
        }
    }
    return 0;
}
