// C03 harness: the real OrangeParams / OrangeTrackView / unit trackers, driven by the line
// protocol of lean/CelerVerif/Model/NavDriver.lean.
//
//   geo file <path.org.json>            load a bundled ORANGE JSON input
//   geo build <out.json> <tol> <spec..> build through the orangeinp API (UnitProto, Shape, Transformed,
//                                       Any/All/NegatedObject), write the OrangeInput as JSON, load it
//   dump                                one line `def ...`: the runtime OrangeParamsData (what the
//                                       trackers read) in flat token form; `def` lines are answered `ok`
//   init x y z u v w | find [max] | move_internal d | move_pos x y z | move_to_boundary | cross
//   set_dir u v w | state | safety | faces | locate x y z
// Every navigation op answers the full logical state (doubles as 16-hex-digit bit patterns).
#include <cmath>
#include <fstream>
#include <memory>
#include <string>
#include <vector>
#include <nlohmann/json.hpp>

#include "corecel/data/CollectionStateStore.hh"
#include "corecel/io/Logger.hh"
#include "orange/MatrixUtils.hh"
#include "orange/OrangeData.hh"
#include "orange/OrangeInput.hh"
#include "orange/OrangeInputIO.json.hh"
#include "orange/OrangeParams.hh"
#include "orange/OrangeTrackView.hh"
#include "orange/orangeinp/CsgObject.hh"
#include "orange/orangeinp/InputBuilder.hh"
#include "orange/orangeinp/Shape.hh"
#include "orange/orangeinp/Transformed.hh"
#include "orange/orangeinp/UnitProto.hh"
#include "orange/surf/LocalSurfaceVisitor.hh"
#include "orange/univ/VolumeView.hh"

#include "common/lineio.hh"

using namespace celeritas;
using std::string;
using Words = std::vector<string>;
using PRef = HostCRef<OrangeParamsData>;

namespace
{
//---------------------------------------------------------------------------//
string hv(Real3 const& v)
{
    return vh::hexd(v[0]) + " " + vh::hexd(v[1]) + " " + vh::hexd(v[2]);
}
template<class Id>
string ids(Id i)
{
    return i ? std::to_string(i.unchecked_get()) : string("-");
}
bool parse_d(string const& s, double* out)
{
    std::uint64_t u;
    if (s.size() != 16 || !vh::parse_hex(s, &u))
        return false;
    *out = vh::bits_dbl(u);
    return true;
}
bool parse_3(Words const& w, std::size_t b, Real3* out)
{
    if (w.size() < b + 3)
        return false;
    for (int i = 0; i < 3; ++i)
        if (!parse_d(w[b + i], &(*out)[i]))
            return false;
    return true;
}

//---------------------------------------------------------------------------//
// Geometry construction through the orangeinp API from a token spec
//---------------------------------------------------------------------------//
using SPObj = std::shared_ptr<orangeinp::ObjectInterface const>;
using SPProto = std::shared_ptr<orangeinp::ProtoInterface const>;

struct SpecParser
{
    Words const& w;
    std::size_t i;
    int counter{0};
    bool ok{true};

    string next()
    {
        if (i >= w.size())
        {
            ok = false;
            return "";
        }
        return w[i++];
    }
    double num()
    {
        string s = next();
        if (!ok)
            return 0;
        char* end = nullptr;
        double v = std::strtod(s.c_str(), &end);
        if (end == s.c_str() || *end != '\0')
            ok = false;
        return v;
    }
    int integer() { return static_cast<int>(num()); }
    string label(string const& base) { return base + std::to_string(counter++); }

    VariantTransform transform()
    {
        string k = next();
        if (k == "t0")
            return NoTransformation{};
        if (k == "tt")
        {
            Real3 t{num(), num(), num()};
            return Translation{t};
        }
        if (k == "tx")
        {
            SquareMatrixReal3 m;
            for (int r = 0; r < 3; ++r)
                for (int c = 0; c < 3; ++c)
                    m[r][c] = num();
            Real3 t{num(), num(), num()};
            return Transformation{m, t};
        }
        ok = false;
        return NoTransformation{};
    }

    SPObj shape()
    {
        using namespace orangeinp;
        string k = next();
        if (k == "box")
        {
            Real3 h{num(), num(), num()};
            return std::make_shared<Shape<Box>>(label("box"), Box{h});
        }
        if (k == "sph")
        {
            double r = num();
            return std::make_shared<Shape<orangeinp::Sphere>>(label("sph"), orangeinp::Sphere{r});
        }
        if (k == "cyl")
        {
            double r = num();
            double h = num();
            return std::make_shared<Shape<Cylinder>>(label("cyl"), Cylinder{r, h});
        }
        if (k == "ell")
        {
            Real3 h{num(), num(), num()};
            return std::make_shared<Shape<Ellipsoid>>(label("ell"), Ellipsoid{h});
        }
        if (k == "cone")
        {
            double r0 = num(), r1 = num(), h = num();
            return std::make_shared<Shape<Cone>>(label("cone"), Cone{{r0, r1}, h});
        }
        if (k == "tr")
        {
            auto t = transform();
            auto s = shape();
            if (!ok)
                return nullptr;
            return std::make_shared<Transformed>(s, t);
        }
        if (k == "any" || k == "all")
        {
            int n = integer();
            std::vector<SPObj> v;
            for (int j = 0; j < n && ok; ++j)
                v.push_back(shape());
            if (!ok || v.empty())
            {
                ok = false;
                return nullptr;
            }
            if (k == "any")
                return std::make_shared<AnyObjects>(label("any"), std::move(v));
            return std::make_shared<AllObjects>(label("all"), std::move(v));
        }
        if (k == "neg")
        {
            auto s = shape();
            if (!ok)
                return nullptr;
            return std::make_shared<NegatedObject>(label("neg"), s);
        }
        ok = false;
        return nullptr;
    }
};

// spec: nunits N  then N times:
//   unit <label> <shape boundary> bg <0|1> nmat k (<shape>)*k ndau m (<unit index> <transform>)*m
// units are listed leaves first; the last one is the global unit
bool build_from_spec(Words const& w, std::size_t start, double tol, OrangeInput* out, string* err)
{
    using namespace orangeinp;
    SpecParser p{w, start};
    std::vector<std::shared_ptr<UnitProto>> units;
    if (p.next() != "nunits")
        return false;
    int n = p.integer();
    int mat = 0;
    for (int u = 0; u < n && p.ok; ++u)
    {
        if (p.next() != "unit")
            return false;
        UnitProto::Input inp;
        inp.label = p.next();
        inp.boundary.interior = p.shape();
        bool is_global = (u == n - 1);
        inp.boundary.zorder = is_global ? ZOrder::media : ZOrder::exterior;
        if (p.next() != "bg")
            return false;
        if (p.integer())
        {
            inp.background.fill = GeoMaterialId{static_cast<unsigned>(mat++)};
            inp.background.label = Label{inp.label + "_bg"};
        }
        if (p.next() != "nmat")
            return false;
        int k = p.integer();
        for (int j = 0; j < k && p.ok; ++j)
        {
            UnitProto::MaterialInput m;
            m.interior = p.shape();
            m.fill = GeoMaterialId{static_cast<unsigned>(mat++)};
            m.label = Label{inp.label + "_m" + std::to_string(j)};
            inp.materials.push_back(std::move(m));
        }
        if (p.next() != "ndau")
            return false;
        int m = p.integer();
        for (int j = 0; j < m && p.ok; ++j)
        {
            int idx = p.integer();
            if (idx < 0 || idx >= static_cast<int>(units.size()))
                return false;
            UnitProto::DaughterInput d;
            d.fill = units[idx];
            d.transform = p.transform();
            inp.daughters.push_back(std::move(d));
        }
        if (!p.ok)
            return false;
        units.push_back(std::make_shared<UnitProto>(std::move(inp)));
    }
    if (!p.ok || units.empty() || p.i != w.size())
        return false;
    try
    {
        InputBuilder::Options o;
        o.tol = Tolerance<>::from_relative(tol);
        *out = InputBuilder{std::move(o)}(*units.back());
    }
    catch (std::exception const& e)
    {
        *err = e.what();
        return false;
    }
    return true;
}

//---------------------------------------------------------------------------//
// Dump of the runtime data
//---------------------------------------------------------------------------//
struct SurfDataGetter
{
    template<class S>
    std::vector<double> operator()(S const& s) const
    {
        auto d = s.data();
        return std::vector<double>(d.begin(), d.end());
    }
};

string dump_params(PRef const& p)
{
    std::ostringstream os;
    os << "def tol " << vh::hexd(p.scalars.tol.rel) << " " << vh::hexd(p.scalars.tol.abs)
       << " nuniv " << p.universe_types.size();
    for (auto uid : range(UniverseId{p.universe_types.size()}))
    {
        auto idx = p.universe_indices[uid];
        if (p.universe_types[uid] == UniverseType::simple)
        {
            SimpleUnitRecord const& u = p.simple_units[SimpleUnitId{idx}];
            LocalSurfaceVisitor visit(p, u.surfaces);
            os << " U simple nsurf " << u.surfaces.size();
            for (auto s : range(LocalSurfaceId{u.surfaces.size()}))
            {
                auto t = p.surface_types[u.surfaces.types[s.unchecked_get()]];
                auto d = visit(SurfDataGetter{}, s);
                os << " " << to_cstring(t) << " " << d.size();
                for (double x : d)
                    os << " " << vh::hexd(x);
                // connectivity
                auto const& conn = p.connectivity_records[u.connectivity[s.unchecked_get()]];
                auto nb = p.local_volume_ids[conn.neighbors];
                os << " " << nb.size();
                for (auto v : nb)
                    os << " " << v.unchecked_get();
            }
            os << " nvol " << u.volumes.size();
            for (auto v : range(LocalVolumeId{u.volumes.size()}))
            {
                VolumeRecord const& vr = p.volume_records[u.volumes[v]];
                auto faces = p.local_surface_ids[vr.faces];
                auto logic = p.logic_ints[vr.logic];
                os << " " << faces.size();
                for (auto f : faces)
                    os << " " << f.unchecked_get();
                os << " " << logic.size();
                for (auto l : logic)
                {
                    // operator tokens are the highest values of logic_int (whatever its width):
                    // print them in the 32-bit convention used by the model (lnot = 2^32-2 ...)
                    unsigned long long k = static_cast<unsigned long long>(
                        static_cast<logic_int>(~logic_int(0)) - l);
                    if (l >= logic::lbegin)
                        os << " " << (4294967295ull - k);
                    else
                        os << " " << l;
                }
                os << " " << vr.flags << " " << ids(vr.daughter_id);
                // bbox used by the BIH
                auto const& bb = p.bih_tree_data.bboxes[u.bih_tree.bboxes[v]];
                for (int k = 0; k < 3; ++k)
                    os << " " << vh::hexd(bb.lower()[k]);
                for (int k = 0; k < 3; ++k)
                    os << " " << vh::hexd(bb.upper()[k]);
            }
            os << " bg " << ids(u.background);
            auto const& t = u.bih_tree;
            os << " bih " << t.inner_nodes.size();
            for (auto i : range(t.inner_nodes.size()))
            {
                auto const& nd = p.bih_tree_data.inner_nodes[t.inner_nodes[i]];
                using Edge = detail::BIHInnerNode::Edge;
                os << " " << ids(nd.parent) << " " << to_int(nd.axis) << " "
                   << vh::hexd(nd.bounding_planes[Edge::left].position) << " "
                   << ids(nd.bounding_planes[Edge::left].child) << " "
                   << vh::hexd(nd.bounding_planes[Edge::right].position) << " "
                   << ids(nd.bounding_planes[Edge::right].child);
            }
            os << " " << t.leaf_nodes.size();
            for (auto i : range(t.leaf_nodes.size()))
            {
                auto const& nd = p.bih_tree_data.leaf_nodes[t.leaf_nodes[i]];
                auto vols = p.bih_tree_data.local_volume_ids[nd.vol_ids];
                os << " " << ids(nd.parent) << " " << vols.size();
                for (auto v : vols)
                    os << " " << v.unchecked_get();
            }
            auto inf = p.bih_tree_data.local_volume_ids[t.inf_volids];
            os << " " << inf.size();
            for (auto v : inf)
                os << " " << v.unchecked_get();
        }
        else
        {
            RectArrayRecord const& r = p.rect_arrays[RectArrayId{idx}];
            os << " U rect " << r.dims[0] << " " << r.dims[1] << " " << r.dims[2];
            for (int ax = 0; ax < 3; ++ax)
            {
                auto g = p.reals[r.grid[ax]];
                os << " " << g.size();
                for (double x : g)
                    os << " " << vh::hexd(x);
            }
            for (int k = 0; k < 4; ++k)
                os << " " << r.surface_indexer_data.offsets[k];
            os << " " << r.daughters.size();
            for (auto v : range(LocalVolumeId{r.daughters.size()}))
                os << " " << ids(r.daughters[v]);
        }
    }
    os << " ndau " << p.daughters.size();
    for (auto d : range(DaughterId{p.daughters.size()}))
    {
        os << " " << p.daughters[d].universe_id.unchecked_get() << " "
           << p.daughters[d].transform_id.unchecked_get();
    }
    os << " ntra " << p.transforms.size();
    for (auto t : range(TransformId{p.transforms.size()}))
    {
        TransformRecord const& tr = p.transforms[t];
        int n = tr.type == TransformType::no_transformation ? 0
                : tr.type == TransformType::translation     ? 3
                                                            : 12;
        os << " " << n;
        for (int k = 0; k < n; ++k)
            os << " " << vh::hexd(p.reals[OpaqueId<real_type>{tr.data_offset.unchecked_get() + k}]);
    }
    auto so = p.universe_indexer_data.surfaces[AllItems<size_type, MemSpace::native>{}];
    auto vo = p.universe_indexer_data.volumes[AllItems<size_type, MemSpace::native>{}];
    os << " idx " << so.size();
    for (auto x : so)
        os << " " << x;
    for (auto x : vo)
        os << " " << x;
    os << " end";
    return os.str();
}

//---------------------------------------------------------------------------//
struct Harness
{
    std::unique_ptr<OrangeParams> params;
    std::unique_ptr<CollectionStateStore<OrangeStateData, MemSpace::host>> state;
    std::unique_ptr<OrangeTrackView> geo;
    bool inited{false};

    bool load(OrangeInput&& inp, string* err)
    {
        geo.reset();
        state.reset();
        params.reset();
        inited = false;
        try
        {
            params = std::make_unique<OrangeParams>(std::move(inp));
            state = std::make_unique<CollectionStateStore<OrangeStateData, MemSpace::host>>(
                params->host_ref(), 1);
            geo = std::make_unique<OrangeTrackView>(params->host_ref(), state->ref(), TrackSlotId{0});
        }
        catch (std::exception const& e)
        {
            *err = e.what();
            params.reset();
            return false;
        }
        return true;
    }

    string show_state()
    {
        auto const& s = state->ref();
        TrackSlotId t{0};
        std::ostringstream os;
        LevelId lev = s.level[t];
        os << "L " << ids(lev) << " sl " << ids(s.surface_level[t]) << " s " << ids(s.surf[t]) << " "
           << static_cast<int>(s.sense[t]) << " b " << static_cast<int>(s.boundary[t]) << " ns "
           << vh::hexd(s.next_step[t]) << " nf " << ids(s.next_surf[t]) << " "
           << static_cast<int>(s.next_sense[t]) << " nl " << ids(s.next_level[t]);
        if (lev)
        {
            for (auto l : range(LevelId{lev.unchecked_get() + 1}))
            {
                detail::LevelStateAccessor lsa(&s, t, l);
                os << " | u " << ids(lsa.universe()) << " v " << ids(lsa.vol()) << " " << hv(lsa.pos())
                   << " " << hv(lsa.dir());
            }
            os << " | vid " << ids(geo->volume_id()) << " sid " << ids(geo->surface_id()) << " out "
               << geo->is_outside();
        }
        os << " fail " << geo->failed();
        return os.str();
    }

    // per-level, per-face data of the sub-queries the unit tracker makes from the current state
    string show_faces()
    {
        auto const& p = params->host_ref();
        auto const& s = state->ref();
        TrackSlotId t{0};
        std::ostringstream os;
        LevelId lev = s.level[t];
        os << "faces";
        for (auto l : range(LevelId{lev.unchecked_get() + 1}))
        {
            detail::LevelStateAccessor lsa(&s, t, l);
            UniverseId uid = lsa.universe();
            os << " | L" << l.unchecked_get();
            if (p.universe_types[uid] != UniverseType::simple)
            {
                os << " rect";
                continue;
            }
            SimpleUnitRecord const& u = p.simple_units[SimpleUnitId{p.universe_indices[uid]}];
            VolumeView vol(p, u, lsa.vol());
            LocalSurfaceVisitor visit(p, u.surfaces);
            FaceId on_face;
            if (l == s.surface_level[t])
                on_face = vol.find_face(s.surf[t]);
            Real3 pos = lsa.pos();
            Real3 dir = lsa.dir();
            size_type fi = 0;
            for (LocalSurfaceId sid : vol.faces())
            {
                bool on = (on_face && on_face.unchecked_get() == fi);
                auto dists = visit(
                    [&](auto const& sf) {
                        auto r = sf.calc_intersections(
                            pos, dir, on ? SurfaceState::on : SurfaceState::off);
                        return std::vector<double>(r.begin(), r.end());
                    },
                    sid);
                auto ss = visit([&](auto const& sf) { return sf.calc_sense(pos); }, sid);
                os << " f" << fi << " s" << sid.unchecked_get() << " " << static_cast<int>(ss);
                for (double d : dists)
                    os << " " << vh::hexd(d);
                ++fi;
            }
        }
        return os.str();
    }
};

}  // namespace

int main()
{
    Harness h;
    string line;
    while (std::getline(std::cin, line))
    {
        auto w = vh::words(line);
        string out = "bad-op";
        try
        {
            if (w.empty())
            {
            }
            else if (w[0] == "def")
            {
                out = "ok";
            }
            else if (w[0] == "geo" && w.size() >= 3 && w[1] == "file")
            {
                std::ifstream in(w[2]);
                string err;
                if (in)
                {
                    OrangeInput inp;
                    nlohmann::json::parse(in).get_to(inp);
                    out = h.load(std::move(inp), &err) ? "ok" : ("load-error " + err.substr(0, 200));
                }
                else
                {
                    out = "load-error no-file";
                }
            }
            else if (w[0] == "geo" && w.size() >= 5 && w[1] == "build")
            {
                OrangeInput inp;
                string err;
                double tol = std::strtod(w[3].c_str(), nullptr);
                if (build_from_spec(w, 4, tol, &inp, &err))
                {
                    {
                        nlohmann::json j = inp;
                        std::ofstream of(w[2]);
                        of << j.dump(0);
                    }
                    out = h.load(std::move(inp), &err) ? "ok" : ("load-error " + err.substr(0, 200));
                }
                else
                {
                    out = "build-error " + err.substr(0, 200);
                }
                for (auto& c : out)
                    if (c == '\n')
                        c = ' ';
            }
            else if (!h.params)
            {
                out = "bad-op";
            }
            else if (w[0] == "dump" && w.size() == 1)
            {
                out = dump_params(h.params->host_ref());
            }
            else if (w[0] == "init" && w.size() == 7)
            {
                Real3 pos, dir;
                if (parse_3(w, 1, &pos) && parse_3(w, 4, &dir))
                {
                    *h.geo = GeoTrackInitializer{pos, dir};
                    h.inited = true;
                    out = h.show_state();
                }
            }
            else if (w[0] == "bihcand" && w.size() == 5)
            {
                // the candidate volumes the REAL BIHTraverser offers to its predicate, in order
                // (recording predicate that never accepts)
                Real3 pos;
                auto const& p = h.params->host_ref();
                unsigned long uidx = std::strtoul(w[1].c_str(), nullptr, 10);
                bool num = !w[1].empty()
                           && w[1].find_first_not_of("0123456789") == string::npos;
                if (num && uidx < p.universe_types.size() && parse_3(w, 2, &pos))
                {
                    UniverseId uid{static_cast<UniverseId::size_type>(uidx)};
                    if (p.universe_types[uid] != UniverseType::simple)
                    {
                        out = "cand rect";
                    }
                    else
                    {
                        SimpleUnitRecord const& u
                            = p.simple_units[SimpleUnitId{p.universe_indices[uid]}];
                        detail::BIHTraverser traverse{u.bih_tree, p.bih_tree_data};
                        std::ostringstream os;
                        os << "cand";
                        traverse(pos, [&os](LocalVolumeId id) {
                            os << " " << id.unchecked_get();
                            return false;
                        });
                        out = os.str();
                    }
                }
            }
            else if (w[0] == "locate" && w.size() == 4)
            {
                // fresh initialisation used only as a convenience; does not touch the main track
                Real3 pos;
                if (parse_3(w, 1, &pos))
                {
                    CollectionStateStore<OrangeStateData, MemSpace::host> st(h.params->host_ref(), 1);
                    OrangeTrackView g(h.params->host_ref(), st.ref(), TrackSlotId{0});
                    g = GeoTrackInitializer{pos, Real3{0, 0, 1}};
                    out = "loc " + ids(g.volume_id()) + " fail " + std::to_string(g.failed());
                }
            }
            else if (!h.inited)
            {
                out = "bad-op";
            }
            else if (w[0] == "find" && w.size() == 1)
            {
                auto p = h.geo->find_next_step();
                out = "prop " + vh::hexd(p.distance) + " " + std::to_string(p.boundary) + " "
                      + h.show_state();
            }
            else if (w[0] == "find" && w.size() == 2)
            {
                double mx;
                if (parse_d(w[1], &mx) && mx > 0)
                {
                    auto p = h.geo->find_next_step(mx);
                    out = "prop " + vh::hexd(p.distance) + " " + std::to_string(p.boundary) + " "
                          + h.show_state();
                }
            }
            else if (w[0] == "move_internal" && w.size() == 2)
            {
                double d;
                auto const& st = h.state->ref();
                TrackSlotId t{0};
                double ns = st.next_step[t];
                // documented preconditions (CELER_EXPECT, compiled out in this build)
                if (parse_d(w[1], &d) && ns != 0 && d > 0 && d <= ns
                    && (d != ns || !st.next_surf[t]))
                {
                    h.geo->move_internal(d);
                    out = h.show_state();
                }
            }
            else if (w[0] == "move_pos" && w.size() == 4)
            {
                Real3 pos;
                if (parse_3(w, 1, &pos))
                {
                    h.geo->move_internal(pos);
                    out = h.show_state();
                }
            }
            else if (w[0] == "move_to_boundary" && w.size() == 1)
            {
                auto const& st = h.state->ref();
                TrackSlotId t{0};
                if (st.boundary[t] != BoundaryResult::reentrant && st.next_step[t] != 0
                    && st.next_surf[t])
                {
                    h.geo->move_to_boundary();
                    out = h.show_state();
                }
            }
            else if (w[0] == "cross" && w.size() == 1)
            {
                auto const& st = h.state->ref();
                TrackSlotId t{0};
                if (st.surface_level[t] && st.next_step[t] == 0)
                {
                    h.geo->cross_boundary();
                    out = h.show_state();
                }
            }
            else if (w[0] == "set_dir" && w.size() == 4)
            {
                Real3 dir;
                if (parse_3(w, 1, &dir))
                {
                    h.geo->set_dir(dir);
                    out = h.show_state();
                }
            }
            else if (w[0] == "state" && w.size() == 1)
            {
                out = h.show_state();
            }
            else if (w[0] == "safety" && w.size() == 1)
            {
                out = "safety " + vh::hexd(h.geo->find_safety());
            }
            else if (w[0] == "faces" && w.size() == 1)
            {
                out = h.show_faces();
            }
        }
        catch (std::exception const& e)
        {
            out = string("exception ") + e.what();
            for (auto& c : out)
                if (c == '\n')
                    c = ' ';
            out = out.substr(0, 300);
        }
        std::cout << out << std::endl;
    }
    return 0;
}
