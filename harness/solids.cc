// C09 (solid-emission half) harness: the real IntersectRegion::build of every region class against
// a real CsgUnitBuilder / IntersectSurfaceBuilder (surfaces, senses, bounding zones), the real
// RecursiveSimplifier/SurfaceSimplifier, and an end-to-end InputBuilder -> OrangeParams ->
// OrangeTrackView point location.  Protocol of lean/CelerVerif/Model/SolidsDriver.lean:
//
//   sincos <turn>                         -> <sin> <cos>     (sincos(Turn): sincospi(2 turn))
//   simplify <tol> <+|-> <tag> <data..>   -> <+|-> <tag> <data..>   (RecursiveSimplifier)
//   xform <tag> <data..> | <r00..r22 tx ty tz>  -> <tag> <data..>   (SurfaceTransformer)
//   softeq <rel> <abs> <surfA> | <surfB>        -> <soft 0|1> <exact 0|1>   (SoftSurfaceEqual)
//   build2 <tol> <xf1> <region1> / <xf2> <region2> [/ ...] -> ok nodes.. | nodes.. | … | surfs..  (ONE unit)
//   build <tol> <n | t tx ty tz | x r00..r22 tx ty tz> <region> -> ok nodes k ; <s> <id> <surf> ... | surfs n ; ... | L .. G .. M ..
//   e2e <tol> <world hw> <f0|f1> <object> | x y z ...  -> ok <one char per probe: m b F x f>
//        (f1: two filler material boxes at ±0.85 world so that the BIH gets inner nodes)
//   member ...                            -> (model only op; harness answers with the real CSG
//                                            SenseEvaluator on the standalone built region)
//
// region  := box hx hy hz | sphere r | cyl r hh | cone rlo rhi hh | ellipsoid rx ry rz
//          | prism <n dec> apothem hh orient | ppiped hx hy hz alpha theta phi <6 oracle sin/cos>
//          | wedge start interior <4 oracle sin/cos> | genprism hz <n dec> lo(x y)*n hi(x y)*n
// object  := shape <region> | solid <region> (excl <region params of same type> | noexcl)
//            (angle start interior | noangle) | tr tx ty tz <object>
//          | xf <r00..r22 tx ty tz> <object> | neg <object>
//          | trd hz lox loy hix hiy | trap hz theta phi (hy hxlo hxhi alpha)x2   (GenPrism factories)
//          | polycone <n> z*n outer*n (inner r*n|noinner) (angle s i|noangle)   (PolyCone::or_solid)
//          | polyprism <n> z*n outer*n (inner..|noinner) (angle..|noangle) <nsides> orient
//          | all <k> <object>*k | any <k> <object>*k | sub <object> <object>
// All doubles are 16-hex-digit bit patterns.  Every op that runs construction code is guarded so
// that a crash (e.g. unbounded recursion -> stack overflow) is reported as `crash sig<N>`.
#include <cmath>
#include <csetjmp>
#include <csignal>
#include <cstdlib>
#include <functional>
#include <memory>
#include <optional>
#include <string>
#include <vector>
#include <sys/resource.h>
#include <sys/wait.h>
#include <unistd.h>

#include "corecel/data/CollectionStateStore.hh"
#include "corecel/math/Turn.hh"
#include "orange/OrangeInput.hh"
#include "orange/OrangeParams.hh"
#include "orange/OrangeTrackView.hh"
#include "orange/orangeinp/CsgObject.hh"
#include "orange/orangeinp/InputBuilder.hh"
#include "orange/orangeinp/IntersectRegion.hh"
#include "orange/orangeinp/IntersectSurfaceBuilder.hh"
#include "orange/orangeinp/PolySolid.hh"
#include "orange/orangeinp/Shape.hh"
#include "orange/orangeinp/Solid.hh"
#include "orange/orangeinp/Transformed.hh"
#include "orange/orangeinp/UnitProto.hh"
#include "orange/orangeinp/detail/CsgUnit.hh"
#include "orange/orangeinp/detail/CsgUnitBuilder.hh"
#include "orange/orangeinp/detail/IntersectSurfaceState.hh"
#include "orange/orangeinp/detail/SenseEvaluator.hh"
#include "orange/surf/RecursiveSimplifier.hh"
#include "orange/surf/SoftSurfaceEqual.hh"
#include "orange/surf/VariantSurface.hh"
#include "orange/transform/VariantTransform.hh"

#include "common/lineio.hh"

using namespace celeritas;
using std::string;
using Words = std::vector<string>;
using vecd = std::vector<double>;
namespace oid = celeritas::orangeinp::detail;

//---------------------------------------------------------------------------//
template<class T>
struct TagOf;
#define TAG(T, S)                         \
    template<>                            \
    struct TagOf<T>                       \
    {                                     \
        static string get() { return S; } \
    }
TAG(PlaneX, "px"); TAG(PlaneY, "py"); TAG(PlaneZ, "pz"); TAG(Plane, "p");
TAG(CCylX, "cxc"); TAG(CCylY, "cyc"); TAG(CCylZ, "czc");
TAG(CylX, "cx"); TAG(CylY, "cy"); TAG(CylZ, "cz");
TAG(SphereCentered, "sc"); TAG(Sphere, "s");
TAG(ConeX, "kx"); TAG(ConeY, "ky"); TAG(ConeZ, "kz");
TAG(SimpleQuadric, "sq"); TAG(GeneralQuadric, "gq"); TAG(Involute, "inv");

template<class S>
static string show_surf(S const& s)
{
    string out = TagOf<S>::get();
    for (auto d : s.data())
        out += " " + vh::hexd(d);
    return out;
}
static string show_surf(VariantSurface const& vs)
{
    return std::visit([](auto const& s) { return show_surf(s); }, vs);
}
static char sense_char(Sense s)
{
    return s == Sense::inside ? '-' : '+';
}
// bounding boxes: -0 is printed as +0
static string show_box(BBox const& b)
{
    string out;
    for (auto const* p : {&b.lower(), &b.upper()})
        for (int i = 0; i < 3; ++i)
        {
            double v = (*p)[i] + 0.0;
            out += (out.empty() ? "" : " ") + (std::isnan(v) ? string("nan") : vh::hexd(v));
        }
    return out;
}

//---------------------------------------------------------------------------//
struct Parser
{
    Words const& w;
    std::size_t i;
    bool ok{true};
    bool oracle{true};  // ppiped / wedge carry sincos oracle inputs (build/member ops)

    string next()
    {
        if (i >= w.size())
        {
            ok = false;
            return "";
        }
        return w[i++];
    }
    double real()
    {
        std::uint64_t u = 0;
        string s = next();
        if (!ok || s.size() != 16 || !vh::parse_hex(s, &u))
        {
            ok = false;
            return 0;
        }
        return vh::bits_dbl(u);
    }
    int integer()
    {
        string s = next();
        if (!ok || s.empty() || s.size() > 4)
        {
            ok = false;
            return 0;
        }
        int v = 0;
        for (char c : s)
        {
            if (c < '0' || c > '9')
            {
                ok = false;
                return 0;
            }
            v = v * 10 + (c - '0');
        }
        return v;
    }
    bool done() const { return ok && i == w.size(); }
};

//---------------------------------------------------------------------------//
// Region description (parsed in the parent; constructed in the child because constructors
// validate and throw)
struct RegionSpec
{
    string type;
    vecd p;
    int n{0};
    bool oracle_ok{true};
};

static bool same_bits(double a, double b)
{
    return vh::dbl_bits(a) == vh::dbl_bits(b);
}

static bool parse_region_params(Parser& p, string const& type, RegionSpec* r)
{
    r->type = type;
    auto reals = [&](int k) {
        for (int j = 0; j < k; ++j)
            r->p.push_back(p.real());
    };
    if (type == "box" || type == "ellipsoid")
        reals(3);
    else if (type == "sphere")
        reals(1);
    else if (type == "cyl")
        reals(2);
    else if (type == "cone")
        reals(3);
    else if (type == "prism")
    {
        r->n = p.integer();
        reals(3);
    }
    else if (type == "ppiped" && !p.oracle)
        reals(6);
    else if (type == "wedge" && !p.oracle)
        reals(2);
    else if (type == "ppiped")
    {
        reals(12);
        if (p.ok)
        {
            // oracle inputs must be what the real sincos(Turn) gives
            for (int k = 0; k < 3; ++k)
            {
                double s, c;
                sincos(Turn{r->p[3 + k]}, &s, &c);
                if (!same_bits(s, r->p[6 + 2 * k]) || !same_bits(c, r->p[7 + 2 * k]))
                    r->oracle_ok = false;
            }
        }
    }
    else if (type == "wedge")
    {
        reals(6);
        if (p.ok)
        {
            double s, c;
            sincos(Turn{r->p[0]}, &s, &c);
            if (!same_bits(s, r->p[2]) || !same_bits(c, r->p[3]))
                r->oracle_ok = false;
            sincos(Turn{r->p[0]} + Turn{r->p[1]}, &s, &c);
            if (!same_bits(s, r->p[4]) || !same_bits(c, r->p[5]))
                r->oracle_ok = false;
        }
    }
    else if (type == "genprism")
    {
        reals(1);
        r->n = p.integer();
        if (r->n < 1 || r->n > 16)
            p.ok = false;
        else
            reals(4 * r->n);
    }
    else
        p.ok = false;
    return p.ok;
}
static bool parse_region(Parser& p, RegionSpec* r)
{
    string t = p.next();
    return p.ok && parse_region_params(p, t, r);
}

using orangeinp::IntersectRegionInterface;
static std::shared_ptr<IntersectRegionInterface> make_region(RegionSpec const& r)
{
    using namespace orangeinp;
    auto const& p = r.p;
    if (r.type == "box")
        return std::make_shared<Box>(Real3{p[0], p[1], p[2]});
    if (r.type == "sphere")
        return std::make_shared<orangeinp::Sphere>(p[0]);
    if (r.type == "cyl")
        return std::make_shared<Cylinder>(p[0], p[1]);
    if (r.type == "cone")
        return std::make_shared<Cone>(Real2{p[0], p[1]}, p[2]);
    if (r.type == "ellipsoid")
        return std::make_shared<Ellipsoid>(Real3{p[0], p[1], p[2]});
    if (r.type == "prism")
        return std::make_shared<Prism>(r.n, p[0], p[1], p[2]);
    if (r.type == "ppiped")
        return std::make_shared<Parallelepiped>(
            Real3{p[0], p[1], p[2]}, Turn{p[3]}, Turn{p[4]}, Turn{p[5]});
    if (r.type == "wedge")
        return std::make_shared<InfWedge>(Turn{p[0]}, Turn{p[1]});
    if (r.type == "genprism")
    {
        GenPrism::VecReal2 lo, hi;
        for (int k = 0; k < r.n; ++k)
            lo.push_back({p[1 + 2 * k], p[2 + 2 * k]});
        for (int k = 0; k < r.n; ++k)
            hi.push_back({p[1 + 2 * r.n + 2 * k], p[2 + 2 * r.n + 2 * k]});
        return std::make_shared<GenPrism>(p[0], lo, hi);
    }
    return nullptr;
}

//---------------------------------------------------------------------------//
// run `f` guarded: exceptions become `err ...`; a stack overflow (unbounded recursion) or any
// other SIGSEGV/SIGBUS/SIGFPE/SIGABRT inside the construction code becomes `crash sig<N>`.
// (fork() per op costs ~100 ms in this sandbox, so the guard is a signal handler on an alternate
// stack that long-jumps back; whatever the abandoned frames owned is leaked, nothing else.)
static sigjmp_buf g_jmp;
static volatile sig_atomic_t g_armed = 0;

static void on_fatal_signal(int sig)
{
    if (g_armed)
    {
        g_armed = 0;
        siglongjmp(g_jmp, sig);
    }
    _exit(128 + sig);
}

static void install_guard()
{
    static bool done = false;
    if (done)
        return;
    done = true;
    stack_t ss;
    ss.ss_size = 1 << 18;
    ss.ss_sp = std::malloc(ss.ss_size);
    ss.ss_flags = 0;
    sigaltstack(&ss, nullptr);
    struct sigaction sa;
    std::memset(&sa, 0, sizeof sa);
    sa.sa_handler = on_fatal_signal;
    sa.sa_flags = SA_ONSTACK;
    sigemptyset(&sa.sa_mask);
    for (int sig : {SIGSEGV, SIGBUS, SIGFPE, SIGABRT})
        sigaction(sig, &sa, nullptr);
    // a smaller stack makes an unbounded recursion end quickly
    struct rlimit rl;
    if (getrlimit(RLIMIT_STACK, &rl) == 0)
    {
        rl.rlim_cur = 4u << 20;
        setrlimit(RLIMIT_STACK, &rl);
    }
}

static string run_catching(std::function<string()> const& f)
{
    try
    {
        return f();
    }
    catch (RuntimeError const& e)
    {
        return "err validate";
    }
    catch (DebugError const& e)
    {
        return "err assert";
    }
    catch (std::exception const& e)
    {
        return "err exception";
    }
}

static string forked(std::function<string()> const& f)
{
    install_guard();
    int sig = sigsetjmp(g_jmp, 1);
    if (sig == 0)
    {
        g_armed = 1;
        string r = run_catching(f);
        g_armed = 0;
        return r;
    }
    return "crash sig" + std::to_string(sig);
}

//---------------------------------------------------------------------------//
// standalone build of one region against a fresh unit builder
struct Built
{
    orangeinp::detail::CsgUnit unit;
    std::vector<orangeinp::NodeId> nodes;
    orangeinp::detail::BoundingZone local, global, merged;
};

static void build_region(double tol, VariantTransform const& vt, RegionSpec const& spec, Built* b)
{
    using namespace orangeinp;
    oid::CsgUnitBuilder ub{&b->unit, Tolerance<>::from_relative(tol), BBox::from_infinite()};
    oid::IntersectSurfaceState css;
    css.transform = &vt;
    css.object_name = "cr";
    css.make_face_name = {};
    auto region = make_region(spec);
    IntersectSurfaceBuilder insert_surface{&ub, &css};
    region->build(insert_surface);
    b->nodes = css.nodes;
    b->local = css.local_bzone;
    b->global = css.global_bzone;
    b->merged = oid::calc_merged_bzone(css);
}

static string do_build(double tol, VariantTransform const& vt, RegionSpec const& spec)
{
    using namespace orangeinp;
    Built b;
    build_region(tol, vt, spec, &b);
    string out = "ok nodes " + std::to_string(b.nodes.size());
    for (NodeId n : b.nodes)
    {
        Node const& node = b.unit.tree[n];
        Sense s = Sense::outside;
        NodeId sn = n;
        if (auto* neg = std::get_if<Negated>(&node))
        {
            s = Sense::inside;
            sn = neg->node;
        }
        auto* surf = std::get_if<orangeinp::Surface>(&b.unit.tree[sn]);
        if (!surf)
        {
            out += " ; ? node";
            continue;
        }
        out += string(" ; ") + sense_char(s) + " " + std::to_string(surf->id.unchecked_get()) + " "
               + show_surf(b.unit.surfaces[surf->id.unchecked_get()]);
    }
    out += " | surfs " + std::to_string(b.unit.surfaces.size());
    for (auto const& vs : b.unit.surfaces)
        out += " ; " + show_surf(vs);
    out += " | L " + show_box(b.local.interior) + " " + show_box(b.local.exterior);
    out += " G " + show_box(b.global.interior) + " " + show_box(b.global.exterior);
    out += " M " + show_box(b.merged.interior) + " " + show_box(b.merged.exterior);
    return out;
}

// real CSG evaluation of the built region at probe points: i inside, o outside, s on a surface
static string do_member(double tol, VariantTransform const& vt, RegionSpec const& spec,
                        vecd const& pts)
{
    using namespace orangeinp;
    Built b;
    build_region(tol, vt, spec, &b);
    string out = "ok ";
    for (std::size_t k = 0; k + 2 < pts.size(); k += 3)
    {
        Real3 pos{pts[k], pts[k + 1], pts[k + 2]};
        oid::SenseEvaluator eval(b.unit.tree, b.unit.surfaces, pos);
        // all(nodes) as SenseEvaluator evaluates a Joined{op_and}: first non-"inside" decides
        // (evaluated on the emitted literals in emission order, before CsgTree sorts them)
        SignedSense ss = SignedSense::inside;
        for (NodeId n : b.nodes)
        {
            ss = eval(n);
            if (ss != SignedSense::inside)
                break;
        }
        out += ss == SignedSense::inside ? 'i' : ss == SignedSense::outside ? 'o' : 's';
    }
    return out;
}

// two regions built one after the other against ONE unit builder (shared surface inserter)
static string show_nodes(orangeinp::detail::CsgUnit const& unit,
                         std::vector<orangeinp::NodeId> const& nodes)
{
    using namespace orangeinp;
    string out = "nodes " + std::to_string(nodes.size());
    for (NodeId n : nodes)
    {
        Node const& node = unit.tree[n];
        Sense s = Sense::outside;
        NodeId sn = n;
        if (auto* neg = std::get_if<Negated>(&node))
        {
            s = Sense::inside;
            sn = neg->node;
        }
        auto* surf = std::get_if<orangeinp::Surface>(&unit.tree[sn]);
        if (!surf)
        {
            out += " ; ? node";
            continue;
        }
        out += string(" ; ") + sense_char(s) + " " + std::to_string(surf->id.unchecked_get()) + " "
               + show_surf(unit.surfaces[surf->id.unchecked_get()]);
    }
    return out;
}

static string do_build2(double tol, std::vector<VariantTransform> const& vts,
                        std::vector<RegionSpec> const& specs)
{
    using namespace orangeinp;
    oid::CsgUnit unit;
    oid::CsgUnitBuilder ub{&unit, Tolerance<>::from_relative(tol), BBox::from_infinite()};
    string out = "ok";
    for (std::size_t k = 0; k < specs.size(); ++k)
    {
        oid::IntersectSurfaceState css;
        css.transform = &vts[k];
        css.object_name = "o" + std::to_string(k);
        css.make_face_name = {};
        auto region = make_region(specs[k]);
        IntersectSurfaceBuilder insert_surface{&ub, &css};
        region->build(insert_surface);
        out += " " + show_nodes(unit, css.nodes) + " |";
    }
    out += " surfs " + std::to_string(unit.surfaces.size());
    for (auto const& vs : unit.surfaces)
        out += " ; " + show_surf(vs);
    return out;
}

// SoftSurfaceEqual / ExactSurfaceEqual on two surfaces of the same class ("0 0" otherwise)
static string do_softeq(double rel, double abs, VariantSurface const& a, VariantSurface const& b)
{
    Tolerance<> t;
    t.rel = rel;
    t.abs = abs;
    SoftSurfaceEqual soft{t};
    ExactSurfaceEqual exact;
    return std::visit(
        [&](auto const& sa) -> string {
            using S = std::decay_t<decltype(sa)>;
            if (auto* sb = std::get_if<S>(&b))
                return string(soft(sa, *sb) ? "1" : "0") + " " + (exact(sa, *sb) ? "1" : "0");
            return "0 0";
        },
        a);
}

static bool parse_xf(Parser& p, VariantTransform* vt)
{
    string tk = p.next();
    if (tk == "n")
        *vt = NoTransformation{};
    else if (tk == "t")
    {
        double x = p.real(), y = p.real(), z = p.real();
        *vt = Translation{Real3{x, y, z}};
    }
    else if (tk == "x")
    {
        double d[12];
        for (double& v : d)
            v = p.real();
        if (!p.ok)
            return false;
        *vt = Transformation{Span<double const, 12>{d, 12}};
    }
    else
        return false;
    return p.ok;
}

//---------------------------------------------------------------------------//
// simplify
template<class S>
static bool try_surface(string const& tag, vecd const& d, std::optional<VariantSurface>* out)
{
    if (tag != TagOf<S>::get())
        return false;
    constexpr auto N = S::StorageSpan::extent;
    if (d.size() != N)
        return false;
    *out = S{Span<double const, N>{d.data(), N}};
    return true;
}
static bool parse_surface(string const& tag, vecd const& d, std::optional<VariantSurface>* out)
{
    return try_surface<PlaneX>(tag, d, out) || try_surface<PlaneY>(tag, d, out)
           || try_surface<PlaneZ>(tag, d, out) || try_surface<Plane>(tag, d, out)
           || try_surface<CCylX>(tag, d, out) || try_surface<CCylY>(tag, d, out)
           || try_surface<CCylZ>(tag, d, out) || try_surface<CylX>(tag, d, out)
           || try_surface<CylY>(tag, d, out) || try_surface<CylZ>(tag, d, out)
           || try_surface<SphereCentered>(tag, d, out) || try_surface<Sphere>(tag, d, out)
           || try_surface<ConeX>(tag, d, out) || try_surface<ConeY>(tag, d, out)
           || try_surface<ConeZ>(tag, d, out) || try_surface<SimpleQuadric>(tag, d, out)
           || try_surface<GeneralQuadric>(tag, d, out);
}

static string do_simplify(double tol, Sense s, VariantSurface const& vs)
{
    string out;
    auto print = [&out](Sense fs, auto const& surf) {
        out = string(1, sense_char(fs)) + " " + show_surf(surf);
    };
    RecursiveSimplifier simp(print, tol);
    simp(s, vs);
    return out;
}

//---------------------------------------------------------------------------//
// end to end
struct ObjParser
{
    Parser& p;
    int counter{0};
    string label(string const& b) { return b + std::to_string(counter++); }

    using SP = std::shared_ptr<orangeinp::ObjectInterface const>;

    template<class R>
    SP solid_or_shape(RegionSpec const& r, R&& interior)
    {
        using namespace orangeinp;
        string k = p.next();
        std::optional<R> excl;
        if (k == "excl")
        {
            RegionSpec e;
            if (!parse_region_params(p, r.type, &e))
                return nullptr;
            auto reg = make_region(e);
            excl = *dynamic_cast<R*>(reg.get());
        }
        else if (k != "noexcl")
        {
            p.ok = false;
            return nullptr;
        }
        k = p.next();
        SolidEnclosedAngle sea;
        if (k == "angle")
        {
            double st = p.real(), in = p.real();
            if (!p.ok)
                return nullptr;
            sea = SolidEnclosedAngle{Turn{st}, Turn{in}};
        }
        else if (k != "noangle")
        {
            p.ok = false;
            return nullptr;
        }
        return Solid<R>::or_shape(label("solid"), std::move(interior), std::move(excl), std::move(sea));
    }

    SP object()
    {
        using namespace orangeinp;
        string k = p.next();
        if (!p.ok)
            return nullptr;
        if (k == "shape")
        {
            RegionSpec r;
            if (!parse_region(p, &r))
                return nullptr;
            auto reg = make_region(r);
            auto const& q = r.p;
            if (r.type == "box")
                return std::make_shared<Shape<Box>>(label("box"), Box{Real3{q[0], q[1], q[2]}});
            if (r.type == "sphere")
                return std::make_shared<Shape<orangeinp::Sphere>>(label("sph"), orangeinp::Sphere{q[0]});
            if (r.type == "cyl")
                return std::make_shared<Shape<Cylinder>>(label("cyl"), Cylinder{q[0], q[1]});
            if (r.type == "cone")
                return std::make_shared<Shape<Cone>>(label("cone"), Cone{Real2{q[0], q[1]}, q[2]});
            if (r.type == "ellipsoid")
                return std::make_shared<Shape<Ellipsoid>>(label("ell"),
                                                          Ellipsoid{Real3{q[0], q[1], q[2]}});
            if (r.type == "prism")
                return std::make_shared<Shape<Prism>>(label("prism"), Prism{r.n, q[0], q[1], q[2]});
            if (r.type == "ppiped")
                return std::make_shared<Shape<Parallelepiped>>(
                    label("pp"),
                    Parallelepiped{Real3{q[0], q[1], q[2]}, Turn{q[3]}, Turn{q[4]}, Turn{q[5]}});
            if (r.type == "genprism")
                return std::make_shared<Shape<GenPrism>>(
                    label("gp"), GenPrism{*dynamic_cast<GenPrism*>(reg.get())});
            p.ok = false;
            return nullptr;
        }
        if (k == "trd")
        {
            // trd hz lox loy hix hiy  -> GenPrism::from_trd
            double hz = p.real(), lx = p.real(), ly = p.real(), hxx = p.real(), hy = p.real();
            if (!p.ok)
                return nullptr;
            return std::make_shared<Shape<GenPrism>>(
                label("trd"), GenPrism::from_trd(hz, Real2{lx, ly}, Real2{hxx, hy}));
        }
        if (k == "trap")
        {
            // trap hz theta phi (hy hxlo hxhi alpha)x2 -> GenPrism::from_trap
            double hz = p.real(), th = p.real(), ph = p.real();
            GenPrism::TrapFace f[2];
            for (auto& face : f)
            {
                face.hy = p.real();
                face.hx_lo = p.real();
                face.hx_hi = p.real();
                face.alpha = Turn{p.real()};
            }
            if (!p.ok)
                return nullptr;
            return std::make_shared<Shape<GenPrism>>(
                label("trap"), GenPrism::from_trap(hz, Turn{th}, Turn{ph}, f[0], f[1]));
        }
        if (k == "polycone" || k == "polyprism")
        {
            // polycone <npts> z*n outer*n (inner r*n | noinner) (angle s i | noangle)
            // polyprism ... <nsides> orientation      (through the or_solid factories)
            int n = p.integer();
            if (!p.ok || n < 2 || n > 12)
            {
                p.ok = false;
                return nullptr;
            }
            std::vector<double> z, outer, inner;
            for (int j = 0; j < n; ++j)
                z.push_back(p.real());
            for (int j = 0; j < n; ++j)
                outer.push_back(p.real());
            string ik = p.next();
            if (ik == "inner")
            {
                for (int j = 0; j < n; ++j)
                    inner.push_back(p.real());
            }
            else if (ik != "noinner")
            {
                p.ok = false;
                return nullptr;
            }
            string ak = p.next();
            SolidEnclosedAngle sea;
            if (ak == "angle")
            {
                double st = p.real(), in = p.real();
                if (!p.ok)
                    return nullptr;
                sea = SolidEnclosedAngle{Turn{st}, Turn{in}};
            }
            else if (ak != "noangle")
            {
                p.ok = false;
                return nullptr;
            }
            int nsides = 0;
            double orient = 0;
            if (k == "polyprism")
            {
                nsides = p.integer();
                orient = p.real();
            }
            if (!p.ok)
                return nullptr;
            PolySegments seg = inner.empty()
                                   ? PolySegments{std::move(outer), std::move(z)}
                                   : PolySegments{std::move(inner), std::move(outer), std::move(z)};
            if (k == "polycone")
                return PolyCone::or_solid(label("pcone"), std::move(seg), std::move(sea));
            return PolyPrism::or_solid(label("pprism"), std::move(seg), std::move(sea), nsides, orient);
        }
        if (k == "solid")
        {
            RegionSpec r;
            if (!parse_region(p, &r))
                return nullptr;
            auto const& q = r.p;
            if (r.type == "sphere")
                return solid_or_shape<orangeinp::Sphere>(r, orangeinp::Sphere{q[0]});
            if (r.type == "cyl")
                return solid_or_shape<Cylinder>(r, Cylinder{q[0], q[1]});
            if (r.type == "cone")
                return solid_or_shape<Cone>(r, Cone{Real2{q[0], q[1]}, q[2]});
            if (r.type == "prism")
                return solid_or_shape<Prism>(r, Prism{r.n, q[0], q[1], q[2]});
            p.ok = false;
            return nullptr;
        }
        if (k == "tr")
        {
            double x = p.real(), y = p.real(), z = p.real();
            auto o = object();
            if (!o || !p.ok)
                return nullptr;
            return std::make_shared<Transformed>(o, Translation{Real3{x, y, z}});
        }
        if (k == "xf")
        {
            double d[12];
            for (double& v : d)
                v = p.real();
            auto o = object();
            if (!o || !p.ok)
                return nullptr;
            return std::make_shared<Transformed>(o, Transformation{Span<double const, 12>{d, 12}});
        }
        if (k == "neg")
        {
            auto o = object();
            if (!o)
                return nullptr;
            return std::make_shared<NegatedObject>(label("neg"), o);
        }
        if (k == "all" || k == "any")
        {
            int n = p.integer();
            if (!p.ok || n < 1 || n > 8)
            {
                p.ok = false;
                return nullptr;
            }
            std::vector<SP> v;
            for (int j = 0; j < n; ++j)
            {
                auto o = object();
                if (!o)
                    return nullptr;
                v.push_back(o);
            }
            if (k == "any")
                return std::make_shared<AnyObjects>(label("any"), std::move(v));
            return std::make_shared<AllObjects>(label("all"), std::move(v));
        }
        if (k == "sub")
        {
            auto a = object();
            if (!a)
                return nullptr;
            auto b = object();
            if (!b)
                return nullptr;
            return make_subtraction(label("sub"), a, b);
        }
        p.ok = false;
        return nullptr;
    }
};

static string do_e2e(double tol, double world, bool fillers, Words const& w, std::size_t start,
                     std::size_t bar)
{
    using namespace orangeinp;
    Words ow(w.begin() + start, w.begin() + bar);
    Parser p{ow, 0};
    p.oracle = false;
    ObjParser op{p};
    auto obj = op.object();
    if (!obj || !p.done())
        return "bad-op";
    vecd pts;
    for (std::size_t k = bar + 1; k < w.size(); ++k)
    {
        std::uint64_t u;
        if (w[k].size() != 16 || !vh::parse_hex(w[k], &u))
            return "bad-op";
        pts.push_back(vh::bits_dbl(u));
    }
    if (pts.size() % 3 != 0)
        return "bad-op";
    UnitProto::Input inp;
    inp.label = "world";
    inp.boundary.interior = std::make_shared<Shape<Box>>("worldbox", Box{Real3{world, world, world}});
    inp.boundary.zorder = ZOrder::media;
    inp.background.fill = GeoMaterialId{0};
    inp.background.label = Label{"bg"};
    UnitProto::MaterialInput m;
    m.interior = obj;
    m.fill = GeoMaterialId{1};
    m.label = Label{"mat"};
    inp.materials.push_back(std::move(m));
    if (fillers)
    {
        // two more finite volumes far from the object so that the BIH has inner nodes and the
        // object's exterior bounding box takes part in point location
        for (int sgn : {-1, 1})
        {
            double c = sgn * 0.85 * world, h = 0.05 * world;
            UnitProto::MaterialInput f;
            f.interior = std::make_shared<Transformed>(
                std::make_shared<Shape<Box>>(sgn < 0 ? "fillbox0" : "fillbox1", Box{Real3{h, h, h}}),
                Translation{Real3{c, c, c}});
            f.fill = GeoMaterialId{2};
            f.label = Label{"fill"};
            inp.materials.push_back(std::move(f));
        }
    }
    UnitProto proto{std::move(inp)};
    InputBuilder::Options o;
    o.tol = Tolerance<>::from_relative(tol);
    OrangeInput oi = InputBuilder{std::move(o)}(proto);
    OrangeParams params(std::move(oi));
    string out = "ok ";
    for (std::size_t k = 0; k + 2 < pts.size(); k += 3)
    {
        CollectionStateStore<OrangeStateData, MemSpace::host> st(params.host_ref(), 1);
        OrangeTrackView g(params.host_ref(), st.ref(), TrackSlotId{0});
        g = GeoTrackInitializer{Real3{pts[k], pts[k + 1], pts[k + 2]}, Real3{0, 0, 1}};
        char c = 'f';
        if (!g.failed() && g.volume_id())
        {
            string const& name = params.volumes().at(g.volume_id()).name;
            c = name == "mat" ? 'm' : name == "bg" ? 'b' : name == "fill" ? 'F' : g.is_outside() ? 'x' : '?';
        }
        else if (!g.failed() && g.is_outside())
            c = 'x';
        out += c;
    }
    return out;
}

//---------------------------------------------------------------------------//
static bool parse_tol(Parser& p, double* tol)
{
    *tol = p.real();
    return p.ok && *tol > 0 && *tol < 1;
}

static string handle(Words const& w)
{
    if (w.empty())
        return "bad-op";
    Parser p{w, 1};
    string const& op = w[0];
    if (op == "sincos")
    {
        double t = p.real();
        if (!p.done())
            return "bad-op";
        double s, c;
        sincos(Turn{t}, &s, &c);
        return vh::hexd(s) + " " + vh::hexd(c);
    }
    if (op == "softeq")
    {
        // softeq <rel> <abs> <tagA> <dataA..> | <tagB> <dataB..>  -> <soft 0|1> <exact 0|1>
        double rel = p.real(), abs = p.real();
        if (!p.ok || !(rel > 0) || !(abs > 0))
            return "bad-op";
        std::size_t bar = p.i;
        while (bar < w.size() && w[bar] != "|")
            ++bar;
        if (bar >= w.size() || bar == p.i || bar + 1 >= w.size())
            return "bad-op";
        Words aw(w.begin() + p.i + 1, w.begin() + bar), bw(w.begin() + bar + 2, w.end());
        Parser ap{aw, 0}, bp{bw, 0};
        vecd da, db;
        while (ap.ok && ap.i < aw.size())
            da.push_back(ap.real());
        while (bp.ok && bp.i < bw.size())
            db.push_back(bp.real());
        std::optional<VariantSurface> oa, ob;
        if (!ap.ok || !bp.ok || !parse_surface(w[p.i], da, &oa) || !parse_surface(w[bar + 1], db, &ob))
            return "bad-op";
        VariantSurface const& sa = *oa;
        VariantSurface const& sb = *ob;
        return forked([&] { return do_softeq(rel, abs, sa, sb); });
    }
    if (op == "build2")
    {
        // build2 <tol> <xf1> <region1> / <xf2> <region2>   (xf := n | t x y z | x r00..tz)
        double tol;
        if (!parse_tol(p, &tol))
            return "bad-op";
        // two or more `<xf> <region>` groups separated by "/"
        std::vector<VariantTransform> vts;
        std::vector<RegionSpec> specs;
        std::size_t start = p.i;
        for (;;)
        {
            std::size_t slash = start;
            while (slash < w.size() && w[slash] != "/")
                ++slash;
            Words wk(w.begin() + start, w.begin() + slash);
            Parser pk{wk, 0};
            VariantTransform vt = NoTransformation{};
            RegionSpec sp;
            if (!parse_xf(pk, &vt) || !parse_region(pk, &sp) || !pk.done())
                return "bad-op";
            if (!sp.oracle_ok)
                return "oracle-mismatch";
            vts.push_back(vt);
            specs.push_back(sp);
            if (slash >= w.size())
                break;
            start = slash + 1;
        }
        if (specs.size() < 2 || specs.size() > 24)
            return "bad-op";
        return forked([&] { return do_build2(tol, vts, specs); });
    }
    if (op == "simplify")
    {
        double tol;
        if (!parse_tol(p, &tol))
            return "bad-op";
        string ss = p.next(), tag = p.next();
        if (!p.ok || (ss != "+" && ss != "-"))
            return "bad-op";
        vecd d;
        while (p.ok && p.i < w.size())
            d.push_back(p.real());
        std::optional<VariantSurface> ovs;
        if (!p.ok || !parse_surface(tag, d, &ovs))
            return "bad-op";
        Sense s = ss == "-" ? Sense::inside : Sense::outside;
        VariantSurface const& vs = *ovs;
        return forked([&] { return do_simplify(tol, s, vs); });
    }
    if (op == "xform")
    {
        // xform <tag> <data..> | r00 .. r22 tx ty tz   -> SurfaceTransformer
        std::size_t bar = 1;
        while (bar < w.size() && w[bar] != "|")
            ++bar;
        if (bar >= w.size() || bar < 2)
            return "bad-op";
        vecd d, a;
        Words dw(w.begin() + 2, w.begin() + bar), aw(w.begin() + bar + 1, w.end());
        Parser dp{dw, 0}, ap{aw, 0};
        while (dp.ok && dp.i < dw.size())
            d.push_back(dp.real());
        while (ap.ok && ap.i < aw.size())
            a.push_back(ap.real());
        std::optional<VariantSurface> ovs;
        if (!dp.ok || !ap.ok || a.size() != 12 || !parse_surface(w[1], d, &ovs))
            return "bad-op";
        VariantTransform vt = Transformation{Span<double const, 12>{a.data(), 12}};
        VariantSurface const& vs = *ovs;
        return forked([&] { return show_surf(apply_transform(vt, vs)); });
    }
    if (op == "build" || op == "member")
    {
        double tol;
        if (!parse_tol(p, &tol))
            return "bad-op";
        string tk = p.next();
        VariantTransform vt = NoTransformation{};
        if (tk == "t")
        {
            double x = p.real(), y = p.real(), z = p.real();
            vt = Translation{Real3{x, y, z}};
        }
        else if (tk == "x")
        {
            // storage constructor: 9 rotation entries (row major) + 3 translation, unchecked
            double d[12];
            for (double& v : d)
                v = p.real();
            if (!p.ok)
                return "bad-op";
            vt = Transformation{Span<double const, 12>{d, 12}};
        }
        else if (tk != "n")
            return "bad-op";
        // region words end at the bar (member) or at the end of line (build)
        std::size_t bar = w.size();
        if (op == "member")
        {
            bar = p.i;
            while (bar < w.size() && w[bar] != "|")
                ++bar;
            if (bar >= w.size())
                return "bad-op";
        }
        Words rw(w.begin() + p.i, w.begin() + bar);
        Parser rp{rw, 0};
        RegionSpec spec;
        if (!p.ok || !parse_region(rp, &spec) || !rp.done())
            return "bad-op";
        if (!spec.oracle_ok)
            return "oracle-mismatch";
        if (op == "build")
            return forked([&] { return do_build(tol, vt, spec); });
        vecd pts;
        for (std::size_t k = bar + 1; k < w.size(); ++k)
        {
            std::uint64_t u;
            if (w[k].size() != 16 || !vh::parse_hex(w[k], &u))
                return "bad-op";
            pts.push_back(vh::bits_dbl(u));
        }
        if (pts.size() % 3 != 0)
            return "bad-op";
        return forked([&] { return do_member(tol, vt, spec, pts); });
    }
    if (op == "e2e")
    {
        double tol;
        if (!parse_tol(p, &tol))
            return "bad-op";
        double world = p.real();
        if (!p.ok || !(world > 0))
            return "bad-op";
        string fk = p.next();
        if (!p.ok || (fk != "f0" && fk != "f1"))
            return "bad-op";
        bool fillers = fk == "f1";
        std::size_t bar = p.i;
        while (bar < w.size() && w[bar] != "|")
            ++bar;
        if (bar >= w.size())
            return "bad-op";
        return forked([&] { return do_e2e(tol, world, fillers, w, p.i, bar); });
    }
    return "bad-op";
}

int main()
{
    // the library logs failed initialisations to stderr, which the runner merges into stdout
    std::freopen("/dev/null", "w", stderr);
    string line;
    while (std::getline(std::cin, line))
    {
        std::cout << handle(vh::words(line)) << "\n";
        std::cout.flush();
    }
    return 0;
}
