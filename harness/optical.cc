// C20 harness: the real optical photon generators (Cerenkov / scintillation), their offload
// helpers, dN/dx calculator, Params classes and the ArrayUtils rotations, driven by the protocol
// of lean/CelerVerif/Model/OpticalDriver.lean.  Random numbers come from vh::ScriptedEngine.
#include <cmath>
#include <memory>
#include <string>
#include <vector>

#include "corecel/cont/Span.hh"
#include "corecel/data/CollectionBuilder.hh"
#include "corecel/data/CollectionStateStore.hh"
#include "corecel/math/Algorithms.hh"
#include "corecel/math/ArrayUtils.hh"
#include "celeritas/Constants.hh"
#include "celeritas/Quantities.hh"
#include "celeritas/Units.hh"
#include "celeritas/grid/GenericGridBuilder.hh"
#include "celeritas/grid/GenericGridInserter.hh"
#include "celeritas/io/ImportOpticalMaterial.hh"
#include "celeritas/optical/CerenkovDndxCalculator.hh"
#include "celeritas/optical/CerenkovGenerator.hh"
#include "celeritas/optical/CerenkovOffload.hh"
#include "celeritas/optical/CerenkovParams.hh"
#include "celeritas/optical/MaterialParams.hh"
#include "celeritas/optical/MaterialView.hh"
#include "celeritas/optical/ScintillationGenerator.hh"
#include "celeritas/optical/ScintillationOffload.hh"
#include "celeritas/optical/ScintillationParams.hh"
#include "celeritas/phys/PDGNumber.hh"
#include "celeritas/phys/ParticleParams.hh"
#include "celeritas/phys/ParticleTrackView.hh"
#include "celeritas/track/SimParams.hh"
#include "celeritas/track/SimTrackView.hh"

#include "common/lineio.hh"
#include "common/scripted_engine.hh"

using namespace celeritas;
using std::string;
using vecd = std::vector<double>;
using optical::GeneratorDistributionData;

static string hv(Real3 const& v)
{
    return vh::hexd(v[0]) + " " + vh::hexd(v[1]) + " " + vh::hexd(v[2]);
}

static bool parse_all(std::vector<string> const& w, vecd* out)
{
    for (auto const& s : w)
    {
        std::uint64_t u;
        if (!vh::parse_hex(s, &u))
            return false;
        out->push_back(vh::bits_dbl(u));
    }
    return true;
}

// split the words after position `from` at every "|" and parse each section as hex doubles
static bool sections(std::vector<string> const& w, std::size_t from, std::vector<vecd>* out)
{
    std::vector<string> cur;
    for (std::size_t i = from; i <= w.size(); ++i)
    {
        if (i == w.size() || w[i] == "|")
        {
            vecd v;
            if (!parse_all(cur, &v))
                return false;
            out->push_back(v);
            cur.clear();
        }
        else
            cur.push_back(w[i]);
    }
    return true;
}

static bool parse_nat(string const& s, unsigned long* out)
{
    if (s.empty() || s.size() > 9)
        return false;
    unsigned long v = 0;
    for (char c : s)
    {
        if (c < '0' || c > '9')
            return false;
        v = v * 10 + (c - '0');
    }
    *out = v;
    return true;
}

static string show_photon(optical::TrackInitializer const& p, std::size_t draws)
{
    return vh::hexd(p.energy.value()) + " " + hv(p.position) + " " + hv(p.direction) + " "
           + hv(p.polarization) + " " + vh::hexd(p.time) + " " + std::to_string(draws);
}

static string join_out(std::vector<string> const& acc, bool exhausted)
{
    string out;
    for (auto const& s : acc)
        out += (out.empty() ? "" : " ; ") + s;
    if (exhausted)
        out += string(out.empty() ? "" : " ; ") + "exhausted";
    return out.empty() ? "none" : out;
}

static bool make_dist(vecd const& d, unsigned long n, GeneratorDistributionData* out)
{
    if (d.size() != 11)
        return false;
    out->num_photons = static_cast<size_type>(n);
    out->charge = units::ElementaryCharge{d[0]};
    out->time = d[1];
    out->step_length = d[2];
    out->material = OpticalMaterialId{0};
    out->points[StepPoint::pre].speed = units::LightSpeed{d[3]};
    out->points[StepPoint::pre].pos = Real3{d[4], d[5], d[6]};
    out->points[StepPoint::post].speed = units::LightSpeed{d[7]};
    out->points[StepPoint::post].pos = Real3{d[8], d[9], d[10]};
    return true;
}

//---------------------------------------------------------------------------//
// Scintillation params through the real ScintillationParams constructor (validation included)
static std::shared_ptr<optical::ScintillationParams>
make_scint(vecd const& hdr, vecd const& comps, bool* bad)
{
    *bad = false;
    if (hdr.size() != 2 || comps.empty() || comps.size() % 5 != 0)
    {
        *bad = true;
        return nullptr;
    }
    optical::ScintillationParams::Input inp;
    inp.resolution_scale = {hdr[1]};
    ImportMaterialScintSpectrum spec;
    spec.yield_per_energy = hdr[0];
    for (std::size_t i = 0; i < comps.size(); i += 5)
    {
        ImportScintComponent c;
        c.yield_frac = comps[i];
        c.lambda_mean = comps[i + 1];
        c.lambda_sigma = comps[i + 2];
        c.rise_time = comps[i + 3];
        c.fall_time = comps[i + 4];
        spec.components.push_back(c);
    }
    inp.materials.push_back(spec);
    try
    {
        return std::make_shared<optical::ScintillationParams>(inp);
    }
    catch (RuntimeError const&)
    {
        return nullptr;
    }
}

//---------------------------------------------------------------------------//
// Cerenkov material: mode P = through MaterialParams + CerenkovParams, R = raw collections
struct CerMat
{
    std::shared_ptr<optical::MaterialParams const> mat_params;
    std::shared_ptr<optical::CerenkovParams const> cer_params;
    HostVal<optical::MaterialParamsData> raw_mat;
    HostVal<optical::CerenkovData> raw_cer;
    HostCRef<optical::MaterialParamsData> mat_ref;
    HostCRef<optical::CerenkovData> cer_ref;
};

// returns "" (ok), "bad-op" or "validate-error"; consumes 2 (P) or 3 (R) sections from `secs`
static string
make_cer(string const& mode, std::vector<vecd> const& secs, std::size_t at, CerMat* m, std::size_t* used)
{
    if (mode == "P")
    {
        if (secs.size() < at + 2)
            return "bad-op";
        vecd const& es = secs[at];
        vecd const& ns = secs[at + 1];
        if (es.size() != ns.size() || es.size() < 2)
            return "bad-op";
        *used = 2;
        try
        {
            ImportOpticalProperty prop;
            prop.refractive_index.vector_type = ImportPhysicsVectorType::free;
            prop.refractive_index.x = es;
            prop.refractive_index.y = ns;
            optical::MaterialParams::Input inp;
            inp.properties.push_back(prop);
            inp.volume_to_mat = {OpticalMaterialId{0}};
            m->mat_params = std::make_shared<optical::MaterialParams>(std::move(inp));
            m->cer_params = std::make_shared<optical::CerenkovParams>(m->mat_params);
        }
        catch (RuntimeError const&)
        {
            return "validate-error";
        }
        m->mat_ref = m->mat_params->host_ref();
        m->cer_ref = m->cer_params->host_ref();
        return "";
    }
    if (mode == "R")
    {
        if (secs.size() < at + 3)
            return "bad-op";
        vecd const& es = secs[at];
        vecd const& ns = secs[at + 1];
        vecd const& is = secs[at + 2];
        if (es.size() != ns.size() || es.size() != is.size() || es.size() < 2)
            return "bad-op";
        *used = 3;
        {
            CollectionBuilder ri{&m->raw_mat.refractive_index};
            GenericGridBuilder build(&m->raw_mat.reals);
            ri.push_back(build(make_span(es), make_span(ns)));
            CollectionBuilder{&m->raw_mat.optical_id}.push_back(OpticalMaterialId{0});
        }
        {
            GenericGridInserter<OpticalMaterialId> ins(&m->raw_cer.reals,
                                                      &m->raw_cer.angle_integral);
            ins(make_span(es), make_span(is));
        }
        m->mat_ref = m->raw_mat;
        m->cer_ref = m->raw_cer;
        return "";
    }
    return "bad-op";
}

//---------------------------------------------------------------------------//
// particle / sim views for the offload helpers (as test/celeritas/optical/OpticalTestBase)
struct StepViews
{
    std::shared_ptr<ParticleParams> pp;
    std::shared_ptr<SimParams> sp;
    CollectionStateStore<ParticleStateData, MemSpace::host> pstate;
    CollectionStateStore<SimStateData, MemSpace::host> sstate;

    StepViews(double charge, double mass)
    {
        ParticleParams::Input inp;
        inp.push_back({"p", PDGNumber{11}, units::MevMass{mass}, units::ElementaryCharge{charge},
                       constants::stable_decay_constant});
        pp = std::make_shared<ParticleParams>(std::move(inp));
        pstate = CollectionStateStore<ParticleStateData, MemSpace::host>(pp->host_ref(), 1);
        sp = std::make_shared<SimParams>();
        sstate = CollectionStateStore<SimStateData, MemSpace::host>(sp->host_ref(), 1);
    }
    ParticleTrackView particle(double energy)
    {
        ParticleTrackView::Initializer_t init;
        init.particle_id = ParticleId{0};
        init.energy = units::MevEnergy{energy};
        ParticleTrackView v(pp->host_ref(), pstate.ref(), TrackSlotId{0});
        v = init;
        return v;
    }
    SimTrackView sim(double step)
    {
        SimTrackView::Initializer_t init;
        init.event_id = EventId{0};
        init.parent_id = TrackId{0};
        SimTrackView v(sp->host_ref(), sstate.ref(), TrackSlotId{0});
        v = init;
        v.step_length(step);
        v.status(TrackStatus::alive);
        return v;
    }
};

static string show_dist(GeneratorDistributionData const& d, std::size_t draws)
{
    if (d.num_photons == 0)
        return "0 " + std::to_string(draws);
    return std::to_string(d.num_photons) + " " + vh::hexd(d.time) + " " + vh::hexd(d.step_length)
           + " " + vh::hexd(d.charge.value()) + " " + vh::hexd(d.points[StepPoint::pre].speed.value())
           + " " + hv(d.points[StepPoint::pre].pos) + " "
           + vh::hexd(d.points[StepPoint::post].speed.value()) + " "
           + hv(d.points[StepPoint::post].pos) + " " + std::to_string(draws);
}

//---------------------------------------------------------------------------//
static string handle(std::vector<string> const& w)
{
    if (w.empty())
        return "bad-op";
    string const& op = w[0];
    if (op == "consts" && w.size() == 1)
    {
        return vh::hexd(2 * constants::pi) + " " + vh::hexd(static_cast<double>(2 * m_pi)) + " "
               + vh::hexd(units::CLight::value()) + " "
               + vh::hexd(constants::h_planck * constants::c_light) + " "
               + vh::hexd(units::Mev::value()) + " "
               + vh::hexd(constants::alpha_fine_structure
                          / (constants::hbar_planck * constants::c_light));
    }
    if (op == "sph" || op == "rot" || op == "unit" || op == "sincospi" || op == "expm1"
        || op == "cast" || op == "speed")
    {
        vecd a;
        if (!parse_all(std::vector<string>(w.begin() + 1, w.end()), &a))
            return "bad-op";
        if (op == "sph" && a.size() == 2)
            return hv(from_spherical(a[0], a[1]));
        if (op == "rot" && a.size() == 6)
            return hv(rotate(Real3{a[0], a[1], a[2]}, Real3{a[3], a[4], a[5]}));
        if (op == "unit" && a.size() == 3)
            return hv(make_unit_vector(Real3{a[0], a[1], a[2]}));
        if (op == "sincospi" && a.size() == 1)
        {
            double s, c;
            sincospi(a[0], &s, &c);
            return vh::hexd(s) + " " + vh::hexd(c);
        }
        if (op == "expm1" && a.size() == 1)
            return vh::hexd(std::expm1(a[0]));
        if (op == "cast" && a.size() == 1)
        {
            // opaque to the optimiser so that the run-time conversion instruction is used
            double volatile x = a[0];
            return std::to_string(static_cast<unsigned int>(x));
        }
        if (op == "speed" && a.size() == 2)
        {
            StepViews sv(-1.0, a[1]);
            return vh::hexd(sv.particle(a[0]).speed().value());
        }
        return "bad-op";
    }
    if (op == "integral")
    {
        std::vector<vecd> secs;
        if (!sections(w, 1, &secs) || secs.size() != 2)
            return "bad-op";
        CerMat m;
        std::size_t used = 0;
        string err = make_cer("P", secs, 0, &m, &used);
        if (!err.empty())
            return err;
        auto const& grid = m.cer_ref.angle_integral[OpticalMaterialId{0}];
        auto vals = m.cer_ref.reals[grid.value];
        string out;
        for (auto v : vals)
            out += (out.empty() ? "" : " ") + vh::hexd(v);
        return out;
    }
    if (op == "scint")
    {
        unsigned long n;
        std::vector<vecd> secs;
        if (w.size() < 3 || !parse_nat(w[1], &n) || w[2] != "|" || !sections(w, 3, &secs)
            || secs.size() != 4)
            return "bad-op";
        GeneratorDistributionData dist;
        if (!make_dist(secs[0], n, &dist))
            return "bad-op";
        bool bad;
        auto params = make_scint(secs[1], secs[2], &bad);
        if (bad)
            return "bad-op";
        if (!params)
            return "validate-error";
        vh::ScriptedEngine rng{secs[3]};
        std::vector<string> acc;
        bool exhausted = false;
        try
        {
            optical::ScintillationGenerator gen(params->host_ref(), dist);
            for (unsigned long i = 0; i < n; ++i)
            {
                auto p = gen(rng);
                acc.push_back(show_photon(p, rng.draws()));
            }
        }
        catch (vh::ScriptExhausted const&)
        {
            exhausted = true;
        }
        return join_out(acc, exhausted);
    }
    if (op == "cer")
    {
        unsigned long n;
        std::vector<vecd> secs;
        if (w.size() < 4 || !parse_nat(w[2], &n) || w[3] != "|" || !sections(w, 4, &secs)
            || secs.empty())
            return "bad-op";
        GeneratorDistributionData dist;
        if (!make_dist(secs[0], n, &dist))
            return "bad-op";
        CerMat m;
        std::size_t used = 0;
        string err = make_cer(w[1], secs, 1, &m, &used);
        if (err == "bad-op" || secs.size() != 1 + used + 1)
            return "bad-op";
        if (!err.empty())
            return err;
        vh::ScriptedEngine rng{secs.back()};
        std::vector<string> acc;
        bool exhausted = false;
        try
        {
            optical::MaterialView mv(m.mat_ref, OpticalMaterialId{0});
            optical::CerenkovGenerator gen(mv, m.cer_ref, dist);
            for (unsigned long i = 0; i < n; ++i)
            {
                auto p = gen(rng);
                acc.push_back(show_photon(p, rng.draws()));
            }
        }
        catch (vh::ScriptExhausted const&)
        {
            exhausted = true;
        }
        return join_out(acc, exhausted);
    }
    if (op == "dndx")
    {
        std::vector<vecd> secs;
        if (w.size() < 3 || w[2] != "|" || !sections(w, 3, &secs) || secs.empty()
            || secs[0].size() != 2)
            return "bad-op";
        CerMat m;
        std::size_t used = 0;
        string err = make_cer(w[1], secs, 1, &m, &used);
        if (err == "bad-op" || secs.size() != 1 + used)
            return "bad-op";
        if (!err.empty())
            return err;
        optical::MaterialView mv(m.mat_ref, OpticalMaterialId{0});
        optical::CerenkovDndxCalculator calc(mv, m.cer_ref, units::ElementaryCharge{secs[0][0]});
        return vh::hexd(calc(units::LightSpeed{secs[0][1]}));
    }
    if (op == "ceroff")
    {
        std::vector<vecd> secs;
        if (w.size() < 3 || w[2] != "|" || !sections(w, 3, &secs) || secs.empty()
            || secs[0].size() != 12)
            return "bad-op";
        CerMat m;
        std::size_t used = 0;
        string err = make_cer(w[1], secs, 1, &m, &used);
        if (err == "bad-op" || secs.size() != 1 + used + 1)
            return "bad-op";
        if (!err.empty())
            return err;
        vecd const& a = secs[0];
        StepViews sv(a[0], a[1]);
        auto particle = sv.particle(a[2]);
        auto sim = sv.sim(a[3]);
        OffloadPreStepData pre;
        pre.speed = units::LightSpeed{a[4]};
        pre.pos = Real3{a[5], a[6], a[7]};
        pre.time = a[8];
        pre.material = OpticalMaterialId{0};
        Real3 pos{a[9], a[10], a[11]};
        optical::MaterialView mv(m.mat_ref, OpticalMaterialId{0});
        vh::ScriptedEngine rng{secs.back()};
        try
        {
            CerenkovOffload off(particle, sim, mv, pos, m.cer_ref, pre);
            auto d = off(rng);
            return show_dist(d, rng.draws());
        }
        catch (vh::ScriptExhausted const&)
        {
            return "exhausted";
        }
    }
    if (op == "scoff")
    {
        std::vector<vecd> secs;
        if (w.size() < 2 || w[1] != "|" || !sections(w, 2, &secs) || secs.size() != 4
            || secs[0].size() != 13)
            return "bad-op";
        bool bad;
        auto params = make_scint(secs[1], secs[2], &bad);
        if (bad)
            return "bad-op";
        if (!params)
            return "validate-error";
        vecd const& a = secs[0];
        StepViews sv(a[0], a[1]);
        auto particle = sv.particle(a[2]);
        auto sim = sv.sim(a[3]);
        OffloadPreStepData pre;
        pre.speed = units::LightSpeed{a[4]};
        pre.pos = Real3{a[5], a[6], a[7]};
        pre.time = a[8];
        pre.material = OpticalMaterialId{0};
        Real3 pos{a[9], a[10], a[11]};
        vh::ScriptedEngine rng{secs[3]};
        try
        {
            ScintillationOffload off(
                particle, sim, pos, units::MevEnergy{a[12]}, params->host_ref(), pre);
            auto d = off(rng);
            return show_dist(d, rng.draws());
        }
        catch (vh::ScriptExhausted const&)
        {
            return "exhausted";
        }
    }
    return "bad-op";
}

int main()
{
    string line;
    while (std::getline(std::cin, line))
    {
        string out;
        try
        {
            out = handle(vh::words(line));
        }
        catch (RuntimeError const&)
        {
            out = "validate-error";
        }
        catch (DebugError const&)
        {
            out = "debug-error";
        }
        std::cout << out << "\n";
    }
    return 0;
}
