// C17 harness (H3): runs the REAL StepCollector / StepGatherAction / DetectorSteps::copy_steps /
// SimpleCalo / ActionDiagnostic / StepDiagnostic inside a real Stepper over the repository's
// own programmatic problems, with
//   (i)  independent reader actions at user_pre / user_post that read the core state arrays
//        directly (no CoreTrackView thread indirection),
//   (ii) N step callbacks that serialise what they receive (raw slot arrays, compacted
//        DetectorStepOutput, SimpleCalo tallies),
//   (iii) calorimeter / diagnostic totals at the end.
// For every scenario (one input line) it prints pairs of lines
//   I <op line for the Lean model (lean/CelerVerif/Model/GatherDriver.lean)>
//   O <what the real code produced for that op>
// and finally `done <n>`.  tools/checks/c17.py feeds the I lines to the model and diffs
// its answers with the O lines.
//
// run prob=simple|mock slots=N prims=N seed=S events=E streams=K order=<track order>
//     maxsteps=M warm=0|1 adiag=0|1 sdiag=<max bin or 0> cbs=<spec>;<spec>...
//   spec = raw:<selmask hex>:<detmap>:<nz>  | det:<selmask hex>:<detmap>:<nz> | calo:<v,v,..>
//   detmap = -  |  <vol>><det>,<vol>><det>...
#include <exception>
#include <iostream>

#include "corecel/data/AuxStateVec.hh"
#include "corecel/sys/ActionRegistry.hh"
#include "celeritas/global/ActionInterface.hh"
#include "celeritas/global/CoreTrackData.hh"
#include "celeritas/global/CoreTrackView.hh"
#include "celeritas/user/ActionDiagnostic.hh"
#include "celeritas/user/DetectorSteps.hh"
#include "celeritas/user/SimpleCalo.hh"
#include "celeritas/user/StepCollector.hh"
#include "celeritas/user/StepDiagnostic.hh"
#include "celeritas/user/detail/StepParams.hh"

#include "common/h3common.hh"

using namespace celeritas;
using vh::hex;
using vh::hexd;

namespace
{
//---------------------------------------------------------------------------//
template<class I>
std::string hid(I id)
{
    return id ? hex(id.unchecked_get(), 1) : std::string("x");
}
std::string h3v(Real3 const& v)
{
    return hexd(v[0]) + ":" + hexd(v[1]) + ":" + hexd(v[2]);
}

StepSelection selection_from_mask(unsigned long m)
{
    StepSelection s;
    for (int p = 0; p < 2; ++p)
    {
        auto& pt = s.points[p == 0 ? StepPoint::pre : StepPoint::post];
        pt.time = m >> (5 * p + 0) & 1;
        pt.pos = m >> (5 * p + 1) & 1;
        pt.dir = m >> (5 * p + 2) & 1;
        pt.volume_id = m >> (5 * p + 3) & 1;
        pt.energy = m >> (5 * p + 4) & 1;
    }
    s.event_id = m >> 10 & 1;
    s.parent_id = m >> 11 & 1;
    s.track_step_count = m >> 12 & 1;
    s.action_id = m >> 13 & 1;
    s.step_length = m >> 14 & 1;
    s.particle = m >> 15 & 1;
    s.energy_deposition = m >> 16 & 1;
    return s;
}
unsigned long mask_from_selection(StepSelection const& s)
{
    unsigned long m = 0;
    for (int p = 0; p < 2; ++p)
    {
        auto const& pt = s.points[p == 0 ? StepPoint::pre : StepPoint::post];
        m |= (unsigned long)pt.time << (5 * p + 0);
        m |= (unsigned long)pt.pos << (5 * p + 1);
        m |= (unsigned long)pt.dir << (5 * p + 2);
        m |= (unsigned long)pt.volume_id << (5 * p + 3);
        m |= (unsigned long)pt.energy << (5 * p + 4);
    }
    m |= (unsigned long)s.event_id << 10;
    m |= (unsigned long)s.parent_id << 11;
    m |= (unsigned long)s.track_step_count << 12;
    m |= (unsigned long)s.action_id << 13;
    m |= (unsigned long)s.step_length << 14;
    m |= (unsigned long)s.particle << 15;
    m |= (unsigned long)s.energy_deposition << 16;
    return m;
}

//---------------------------------------------------------------------------//
// (ii) callbacks
template<class C, class F>
std::string join_field(C const& coll, size_type n, F&& fmt)
{
    if (coll.empty())
        return "-";
    std::string s;
    for (auto t : range(TrackSlotId{n}))
    {
        if (t.get())
            s += ",";
        s += fmt(coll[t]);
    }
    return s;
}

std::string serialise_raw(StepStateData<Ownership::reference, MemSpace::host> const& st)
{
    auto const& d = st.data;
    size_type n = d.size();
    auto fid = [](auto id) { return hid(id); };
    auto fre = [](real_type r) { return hexd(r); };
    auto fen = [](units::MevEnergy e) { return hexd(e.value()); };
    auto fv3 = [](Real3 const& v) { return h3v(v); };
    auto fsz = [](size_type v) { return hex(v, 1); };
    std::string s = "n=" + std::to_string(n);
    s += " tid=" + join_field(d.track_id, n, fid);
    s += " det=" + join_field(d.detector, n, fid);
    s += " ev=" + join_field(d.event_id, n, fid);
    s += " par=" + join_field(d.parent_id, n, fid);
    s += " nst=" + join_field(d.track_step_count, n, fsz);
    s += " act=" + join_field(d.action_id, n, fid);
    s += " len=" + join_field(d.step_length, n, fre);
    s += " ptc=" + join_field(d.particle, n, fid);
    s += " edep=" + join_field(d.energy_deposition, n, fen);
    for (int p = 0; p < 2; ++p)
    {
        auto const& pt = d.points[p == 0 ? StepPoint::pre : StepPoint::post];
        std::string k = std::to_string(p);
        s += " t" + k + "=" + join_field(pt.time, n, fre);
        s += " p" + k + "=" + join_field(pt.pos, n, fv3);
        s += " d" + k + "=" + join_field(pt.dir, n, fv3);
        s += " v" + k + "=" + join_field(pt.volume_id, n, fid);
        s += " e" + k + "=" + join_field(pt.energy, n, fen);
    }
    return s;
}

template<class V, class F>
std::string join_vec(V const& v, F&& fmt)
{
    if (v.empty())
        return "-";
    std::string s;
    for (size_t i = 0; i < v.size(); ++i)
    {
        if (i)
            s += ",";
        s += fmt(v[i]);
    }
    return s;
}

std::string serialise_det(DetectorStepOutput const& o)
{
    auto fid = [](auto id) { return hid(id); };
    auto fre = [](real_type r) { return hexd(r); };
    auto fen = [](units::MevEnergy e) { return hexd(e.value()); };
    auto fv3 = [](Real3 const& v) { return h3v(v); };
    auto fsz = [](size_type v) { return hex(v, 1); };
    std::string s = "n=" + std::to_string(o.size());
    s += " det=" + join_vec(o.detector, fid);
    s += " tid=" + join_vec(o.track_id, fid);
    s += " ev=" + join_vec(o.event_id, fid);
    s += " par=" + join_vec(o.parent_id, fid);
    s += " nst=" + join_vec(o.track_step_count, fsz);
    s += " len=" + join_vec(o.step_length, fre);
    s += " ptc=" + join_vec(o.particle, fid);
    s += " edep=" + join_vec(o.energy_deposition, fen);
    for (int p = 0; p < 2; ++p)
    {
        auto const& pt = o.points[p == 0 ? StepPoint::pre : StepPoint::post];
        std::string k = std::to_string(p);
        s += " t" + k + "=" + join_vec(pt.time, fre);
        s += " p" + k + "=" + join_vec(pt.pos, fv3);
        s += " d" + k + "=" + join_vec(pt.dir, fv3);
        s += " e" + k + "=" + join_vec(pt.energy, fen);
    }
    return s;
}

struct CbSpec
{
    char kind = 'r';  // r raw, d det (copy_steps), c calo
    unsigned long sel = 0;
    std::map<VolumeId, DetectorId> dets;
    bool nz = false;
    std::vector<unsigned long> calo_vols;
};

class Recorder final : public StepInterface
{
  public:
    Recorder(CbSpec spec, size_type streams)
        : spec_(std::move(spec)), got_(streams), calls_(streams, 0), out_(streams)
    {
    }
    Filters filters() const final
    {
        Filters f;
        f.detectors = spec_.dets;
        f.nonzero_energy_deposition = spec_.nz;
        return f;
    }
    StepSelection selection() const final { return selection_from_mask(spec_.sel); }
    void process_steps(HostStepState s) final
    {
        auto i = s.stream_id.get();
        ++calls_[i];
        if (spec_.kind == 'r')
        {
            got_[i] = serialise_raw(s.steps);
        }
        else
        {
            // ONE persistent output object per stream, re-used at every iteration as the
            // production callbacks do: whatever copy_steps leaves in it from the previous
            // iteration is delivered again
            copy_steps(&out_[i], s.steps);
            got_[i] = serialise_det(out_[i]);
        }
    }
    void process_steps(DeviceStepState) final {}
    std::string take(size_type stream, size_type* calls)
    {
        *calls = calls_[stream];
        calls_[stream] = 0;
        std::string s;
        s.swap(got_[stream]);
        return s;
    }

  private:
    CbSpec spec_;
    std::vector<std::string> got_;
    std::vector<size_type> calls_;
    std::vector<DetectorStepOutput> out_;
};

//---------------------------------------------------------------------------//
// (i) independent readers: raw core state arrays, indexed by track slot
struct Readings
{
    std::vector<std::string> pre, post;
};

class Reader final : public CoreStepActionInterface, public ConcreteAction
{
  public:
    Reader(ActionId id, bool post, std::vector<Readings>* sink)
        : ConcreteAction(id, post ? "verif-read-post" : "verif-read-pre"), post_(post), sink_(sink)
    {
    }
    StepActionOrder order() const final
    {
        return post_ ? StepActionOrder::user_post : StepActionOrder::user_pre;
    }
    void step(CoreParams const& params, CoreStateHost& state) const final
    {
        auto const& p = params.host_ref();
        auto const& s = state.ref();
        auto& out = (*sink_)[state.stream_id().get()];
        auto& vec = post_ ? out.post : out.pre;
        vec.clear();
        for (auto t : range(TrackSlotId{s.size()}))
        {
            if (s.sim.status[t] == TrackStatus::inactive)
            {
                vec.push_back("-");
                continue;
            }
            GeoTrackView geo(p.geometry, s.geometry, t);
            std::string w;
            if (post_)
            {
                w = hid(s.sim.track_ids[t]) + "," + hid(s.sim.event_ids[t]) + ","
                    + hid(s.sim.parent_ids[t]) + "," + hex(s.sim.num_steps[t], 1) + ","
                    + hid(s.sim.post_step_action[t]) + "," + hexd(s.sim.step_length[t]) + ","
                    + hid(s.particles.particle_id[t]) + ","
                    + hexd(s.physics.state[t].energy_deposition) + ",";
            }
            w += hid(geo.volume_id()) + "," + (geo.is_outside() ? "1," : "0,")
                 + hexd(s.sim.time[t]) + "," + hexd(geo.pos()[0]) + "," + hexd(geo.pos()[1]) + ","
                 + hexd(geo.pos()[2]) + "," + hexd(geo.dir()[0]) + "," + hexd(geo.dir()[1]) + ","
                 + hexd(geo.dir()[2]) + "," + hexd(s.particles.particle_energy[t]);
            if (post_)
                w += "," + std::to_string(int(s.sim.status[t]));
            vec.push_back(w);
        }
    }
    void step(CoreParams const&, CoreStateDevice&) const final {}

  private:
    bool post_;
    std::vector<Readings>* sink_;
};

//---------------------------------------------------------------------------//
bool parse_cb(std::string const& txt, size_type nvol, CbSpec* out)
{
    std::vector<std::string> f;
    size_t a = 0;
    while (true)
    {
        size_t b = txt.find(':', a);
        f.push_back(txt.substr(a, b == std::string::npos ? b : b - a));
        if (b == std::string::npos)
            break;
        a = b + 1;
    }
    auto split = [](std::string const& s, char c) {
        std::vector<std::string> r;
        size_t a = 0;
        while (a <= s.size())
        {
            size_t b = s.find(c, a);
            if (b == std::string::npos)
                b = s.size();
            r.push_back(s.substr(a, b - a));
            a = b + 1;
        }
        return r;
    };
    if (f[0] == "calo" && f.size() == 2)
    {
        out->kind = 'c';
        for (auto const& w : split(f[1], ','))
        {
            unsigned long v;
            if (!h3::parse_dec(w, &v) || v >= nvol)
                return false;
            out->calo_vols.push_back(v);
        }
        return !out->calo_vols.empty();
    }
    if ((f[0] == "raw" || f[0] == "det") && f.size() == 4)
    {
        out->kind = f[0] == "raw" ? 'r' : 'd';
        std::uint64_t m;
        if (!vh::parse_hex(f[1], &m) || m >= (1u << 17))
            return false;
        out->sel = m;
        if (f[2] != "-")
        {
            for (auto const& w : split(f[2], ','))
            {
                auto kv = split(w, '>');
                unsigned long v, d;
                if (kv.size() != 2 || !h3::parse_dec(kv[0], &v) || !h3::parse_dec(kv[1], &d)
                    || v >= nvol || d > 1000)
                    return false;
                out->dets[VolumeId(v)] = DetectorId(d);
            }
        }
        if (out->kind == 'd' && out->dets.empty())
            return false;  // copy_steps requires a detector collection
        if (f[3] != "0" && f[3] != "1")
            return false;
        out->nz = f[3] == "1";
        return true;
    }
    return false;
}

std::string cb_to_model(CbSpec const& c)
{
    if (c.kind == 'c')
    {
        std::string s = "calo:";
        for (size_t i = 0; i < c.calo_vols.size(); ++i)
            s += (i ? "," : "") + std::to_string(c.calo_vols[i]);
        return s;
    }
    std::string s = c.kind == 'r' ? "raw:" : "det:";
    s += hex(c.sel, 1) + ":";
    if (c.dets.empty())
        s += "-";
    bool first = true;
    for (auto const& kv : c.dets)
    {
        s += (first ? "" : ",") + std::to_string(kv.first.get()) + ">"
             + std::to_string(kv.second.get());
        first = false;
    }
    s += c.nz ? ":1" : ":0";
    return s;
}

std::string classify(std::string const& what)
{
    if (what.find("doesn't collect any data") != std::string::npos)
        return "no-data";
    if (what.find("multiple step interfaces map single volume") != std::string::npos)
        return "dup-volume";
    if (what.find("inconsistent step callbacks") != std::string::npos)
        return "mixing";
    return "other";
}

//---------------------------------------------------------------------------//
void run_scenario(std::map<std::string, std::string> const& kv)
{
    size_type n_out = 0;
    auto emit = [&](std::string const& i, std::string const& o) {
        std::cout << "I " << i << "\nO " << o << "\n";
        ++n_out;
    };
    h3::Options opt;
    opt.problem = h3::kv_str(kv, "prob", "simple");
    opt.max_streams = h3::kv_num(kv, "streams", 1);
    if (!h3::parse_order(h3::kv_str(kv, "order", "none"), &opt.order) || opt.max_streams < 1
        || opt.max_streams > 8)
    {
        std::cout << "bad-op\n";
        return;
    }
    size_type slots = h3::kv_num(kv, "slots", 4), prims = h3::kv_num(kv, "prims", 2),
              events = h3::kv_num(kv, "events", 1), maxsteps = h3::kv_num(kv, "maxsteps", 50),
              sdiag = h3::kv_num(kv, "sdiag", 0);
    bool warm = h3::kv_num(kv, "warm", 0), adiag = h3::kv_num(kv, "adiag", 0);
    std::uint64_t seed = h3::kv_num(kv, "seed", 0);
    if (slots < 1 || slots > 64 || prims < 1 || prims > 64 || events > 16)
    {
        std::cout << "bad-op\n";
        return;
    }
    auto prob = h3::make_problem(opt);
    if (!prob)
    {
        std::cout << "bad-op\n";
        return;
    }
    size_type nvol = prob->core->geometry()->volumes().size();
    {
        std::cout << "# volumes";
        for (auto const& n : prob->volume_names())
            std::cout << " " << n;
        std::cout << "\n";
    }

    // callbacks
    std::vector<CbSpec> specs;
    {
        std::string all = h3::kv_str(kv, "cbs", "raw:1ffff:-:0");
        size_t a = 0;
        while (a <= all.size())
        {
            size_t b = all.find(';', a);
            if (b == std::string::npos)
                b = all.size();
            CbSpec c;
            if (!parse_cb(all.substr(a, b - a), nvol, &c))
            {
                std::cout << "bad-op\n";
                return;
            }
            specs.push_back(c);
            a = b + 1;
        }
    }
    StepCollector::VecInterface ifaces;
    std::vector<std::shared_ptr<Recorder>> recs(specs.size());
    std::vector<std::shared_ptr<SimpleCalo>> calos(specs.size());
    std::string model_cbs;
    auto const& vols = prob->core->geometry()->volumes();
    for (size_t j = 0; j < specs.size(); ++j)
    {
        model_cbs += (j ? ";" : "") + cb_to_model(specs[j]);
        if (specs[j].kind == 'c')
        {
            std::vector<Label> labels;
            for (auto v : specs[j].calo_vols)
                labels.push_back(vols.at(VolumeId(v)));
            calos[j] = std::make_shared<SimpleCalo>("calo" + std::to_string(j),
                                                    std::move(labels),
                                                    *prob->core->geometry(),
                                                    opt.max_streams);
            ifaces.push_back(calos[j]);
        }
        else
        {
            recs[j] = std::make_shared<Recorder>(specs[j], opt.max_streams);
            ifaces.push_back(recs[j]);
        }
    }
    std::shared_ptr<ActionDiagnostic> ad;
    std::shared_ptr<StepDiagnostic> sd;
    std::vector<Readings> readings(opt.max_streams);
    std::shared_ptr<StepCollector> collector;
    std::string params_in = "params nvol=" + std::to_string(nvol) + " cbs=" + model_cbs;
    try
    {
        collector = StepCollector::make_and_insert(*prob->core, ifaces);
    }
    catch (RuntimeError const& e)
    {
        emit(params_in, "params validate-error " + classify(e.what()));
        std::cout << "done " << n_out << "\n";
        return;
    }
    {
        auto aux_id = prob->aux().find("detector-step");
        auto sp = std::dynamic_pointer_cast<detail::StepParams>(prob->aux().at(aux_id));
        auto const& ref = sp->host_ref();
        std::string det = "-";
        if (!ref.detector.empty())
        {
            det.clear();
            for (auto v : range(VolumeId{ref.detector.size()}))
                det += (v.get() ? "," : "") + hid(ref.detector[v]);
        }
        bool has_pre = prob->actions().find_action("step-gather-pre")
                       || prob->actions().find_action("gather-pre");
        // label of the pre gather action: look it up by scanning descriptions
        has_pre = false;
        for (auto a : range(ActionId{prob->actions().num_actions()}))
        {
            auto d = prob->actions().action(a)->description();
            if (d == "gather pre-step steps/hits")
                has_pre = true;
        }
        emit(params_in,
             "params ok sel=" + hex(mask_from_selection(ref.selection), 1) + " det=" + det
                 + " nz=" + (ref.nonzero_energy_deposition ? "1" : "0") + " pre="
                 + (has_pre ? "1" : "0"));
    }
    if (adiag)
        ad = ActionDiagnostic::make_and_insert(*prob->core);
    if (sdiag)
        sd = StepDiagnostic::make_and_insert(*prob->core, sdiag);
    for (bool post : {false, true})
    {
        prob->actions().insert(
            std::make_shared<Reader>(prob->actions().next_id(), post, &readings));
    }

    // steppers
    std::vector<std::unique_ptr<Stepper<MemSpace::host>>> steppers;
    for (size_type s = 0; s < opt.max_streams; ++s)
    {
        StepperInput si;
        si.params = prob->core;
        si.stream_id = StreamId{s};
        si.num_track_slots = slots;
        steppers.push_back(std::make_unique<Stepper<MemSpace::host>>(si));
    }
    size_type nact = prob->actions().num_actions();
    size_type nptc = prob->core->particle()->size();
    emit("config slots=" + std::to_string(slots) + " streams=" + std::to_string(opt.max_streams)
             + " nact=" + std::to_string(nact) + " nptc=" + std::to_string(nptc)
             + " adiag=" + (adiag ? "1" : "0") + " sbins=" + std::to_string(sdiag ? sdiag + 2 : 0),
         "config ok");

    auto report_step = [&](size_type s) {
        auto& rd = readings[s];
        std::string in = "step " + std::to_string(s);
        for (auto const& w : rd.pre)
            in += " " + w;
        in += " /";
        for (auto const& w : rd.post)
            in += " " + w;
        std::string out = "step " + std::to_string(s);
        std::string first_raw;
        bool have_raw = false;
        for (size_t j = 0; j < specs.size(); ++j)
        {
            out += " |";
            if (specs[j].kind == 'c')
            {
                out += " c";
                // (SimpleCalo::energy_deposition<M>(StreamId) is declared but never
                // instantiated in the library: use the total over streams)
                for (auto v : calos[j]->calc_total_energy_deposition())
                    out += " " + hexd(v);
            }
            else
            {
                size_type calls = 0;
                std::string got = recs[j]->take(s, &calls);
                out += std::string(" ") + specs[j].kind + " k=" + std::to_string(calls) + " ";
                if (specs[j].kind == 'r')
                {
                    if (have_raw && got == first_raw)
                        got = "=";
                    else if (!have_raw)
                    {
                        first_raw = got;
                        have_raw = true;
                    }
                }
                out += got;
            }
        }
        rd.pre.clear();
        rd.post.clear();
        emit(in, out);
    };

    try
    {
        if (warm)
        {
            for (size_type s = 0; s < opt.max_streams; ++s)
            {
                steppers[s]->warm_up();
                report_step(s);
            }
        }
        for (size_type ev = 0; ev < events; ++ev)
        {
            // events are dealt round-robin to the streams; streams advance in lock step
            std::vector<StepperResult> counts(opt.max_streams);
            std::vector<bool> running(opt.max_streams, false);
            for (size_type s = 0; s < opt.max_streams; ++s)
            {
                auto e = ev * opt.max_streams + s;
                auto prim = h3::make_primaries(*prob, seed * 1000 + e, prims, EventId{0});
                steppers[s]->reseed(UniqueEventId{e});
                counts[s] = (*steppers[s])(make_span(prim));
                report_step(s);
                running[s] = static_cast<bool>(counts[s]);
            }
            for (size_type k = 1; k < maxsteps; ++k)
            {
                bool any = false;
                for (size_type s = 0; s < opt.max_streams; ++s)
                {
                    if (!running[s])
                        continue;
                    counts[s] = (*steppers[s])();
                    report_step(s);
                    running[s] = static_cast<bool>(counts[s]);
                    any = any || running[s];
                }
                if (!any)
                    break;
            }
            // abandon what is left of the event (the state is reset, as after an abort)
            for (size_type s = 0; s < opt.max_streams; ++s)
            {
                if (running[s])
                {
                    auto& st = dynamic_cast<CoreState<MemSpace::host>&>(
                        const_cast<CoreStateInterface&>(steppers[s]->state()));
                    st.reset();
                }
            }
        }
    }
    catch (std::exception const& e)
    {
        std::string w = e.what();
        for (auto& c : w)
            if (c == '\n')
                c = ' ';
        std::cout << "exception " << w.substr(0, 300) << "\n";
        std::cout << "done " << n_out << "\n";
        return;
    }

    // (iii) totals
    {
        std::string out = "end";
        for (size_t j = 0; j < specs.size(); ++j)
        {
            if (specs[j].kind != 'c')
                continue;
            out += " | c" + std::to_string(j);
            for (auto v : calos[j]->calc_total_energy_deposition())
                out += " " + hexd(v);
        }
        if (ad)
        {
            // the map accessor and the id -> label tables go to the impl-side oracle only
            std::cout << "# amap";
            for (auto const& kv : ad->calc_actions_map())
            {
                std::string k = kv.first;
                for (auto& ch : k)
                    if (ch == ' ')
                        ch = '~';
                std::cout << " " << k << "=" << kv.second;
            }
            std::cout << "\n# alabels";
            for (auto a : range(ActionId{prob->actions().num_actions()}))
                std::cout << " " << prob->actions().id_to_label(a);
            std::cout << "\n# plabels";
            for (auto pid : range(ParticleId{prob->core->particle()->size()}))
                std::cout << " " << prob->core->particle()->id_to_label(pid);
            std::cout << "\n";
            out += " | a";
            for (auto const& row : ad->calc_actions())
                for (auto v : row)
                    out += " " + std::to_string(v);
        }
        if (sd)
        {
            out += " | s";
            for (auto const& row : sd->calc_steps())
                for (auto v : row)
                    out += " " + std::to_string(v);
        }
        emit("end", out);
    }
    std::cout << "done " << n_out << "\n";
}
}  // namespace

int main()
{
    std::string line;
    while (std::getline(std::cin, line))
    {
        auto w = vh::words(line);
        if (w.empty() || w[0] != "run")
        {
            std::cout << "bad-op\n";
            continue;
        }
        try
        {
            run_scenario(h3::keyvals(w, 1));
        }
        catch (std::exception const& e)
        {
            std::string s = e.what();
            for (auto& c : s)
                if (c == '\n')
                    c = ' ';
            std::cout << "exception " << s.substr(0, 300) << "\ndone 0\n";
        }
        std::cout.flush();
    }
    return 0;
}
