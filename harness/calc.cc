// C14 harness: the REAL UniformGrid / XsCalculator (= EnergyLossCalculator) / RangeCalculator /
// InverseRangeCalculator / GenericCalculator / calc_mean_energy_loss /
// PhysicsTrackView::range_to_step / MscStepToGeo / MscStepFromGeo, driven by the protocol of
// lean/CelerVerif/Model/CalcDriver.lean (tables given on the op lines as hex doubles).
//
// A table lives alone in its own `reals` collection (plus the trailing words given on the op
// line), so that a read one past the table is a read past the allocation.  The release build
// has no bounds check; before calling a calculator the harness asks the real
// UniformGrid::find for the bin and answers `oob` when `bin + 1` is outside the collection
// (ops `xsraw` / `rangeraw` skip that guard: used with the ASan build only).
#include <cmath>
#include <string>
#include <vector>

#include "corecel/data/Collection.hh"
#include "corecel/data/CollectionBuilder.hh"
#include "corecel/grid/UniformGrid.hh"
#include "corecel/grid/UniformGridData.hh"
#include "corecel/math/SoftEqual.hh"
#include "celeritas/Quantities.hh"
#include "celeritas/em/data/UrbanMscData.hh"
#include "celeritas/em/msc/detail/MscStepFromGeo.hh"
#include "celeritas/em/msc/detail/MscStepToGeo.hh"
#include "celeritas/em/msc/detail/UrbanMscHelper.hh"
#include "celeritas/grid/EnergyLossCalculator.hh"
#include "celeritas/grid/GenericCalculator.hh"
#include "celeritas/grid/GenericGridData.hh"
#include "celeritas/grid/InverseRangeCalculator.hh"
#include "celeritas/grid/RangeCalculator.hh"
#include "celeritas/grid/XsCalculator.hh"
#include "celeritas/grid/XsGridData.hh"
#include "celeritas/phys/Interaction.hh"
#include "celeritas/phys/ParticleData.hh"
#include "celeritas/phys/ParticleTrackView.hh"
#include "celeritas/phys/PhysicsData.hh"
#include "celeritas/phys/PhysicsStepUtils.hh"
#include "celeritas/phys/PhysicsTrackView.hh"

#include "common/lineio.hh"

using namespace celeritas;
using std::string;
using vecd = std::vector<double>;
using Energy = units::MevEnergy;

template<class T>
using HostItems = Collection<T, Ownership::value, MemSpace::host>;
template<class T>
using HostCItems = Collection<T, Ownership::const_reference, MemSpace::host>;

struct XsSlot
{
    bool set{false};
    XsGridData data;
    vecd words;
    size_type off{0};
    HostItems<real_type> reals;
    HostCItems<real_type> ref;
};

struct GenSlot
{
    bool set{false};
    GenericGridRecord rec;
    GenericGridRecord inv;
    size_type n{0};
    HostItems<real_type> reals;
    HostCItems<real_type> ref;
};

static XsSlot xs_slots[8];
static GenSlot gen_slots[8];

static bool parse_dec(string const& s, size_type* out)
{
    if (s.empty() || s.size() > 19)
        return false;
    size_type v = 0;
    for (char c : s)
    {
        if (c < '0' || c > '9')
            return false;
        v = v * 10 + static_cast<size_type>(c - '0');
    }
    *out = v;
    return true;
}

static bool parse_dbl(string const& s, double* out)
{
    std::uint64_t u;
    if (!vh::parse_hex(s, &u))
        return false;
    *out = vh::bits_dbl(u);
    return true;
}

static bool parse_all(std::vector<string> const& w, std::size_t b, std::size_t e, vecd* out)
{
    for (std::size_t i = b; i < e; ++i)
    {
        double d;
        if (!parse_dbl(w[i], &d))
            return false;
        out->push_back(d);
    }
    return true;
}

static XsSlot* xs_slot(string const& s)
{
    size_type k;
    if (!parse_dec(s, &k) || k >= 8 || !xs_slots[k].set)
        return nullptr;
    return &xs_slots[k];
}

static GenSlot* gen_slot(string const& s)
{
    size_type k;
    if (!parse_dec(s, &k) || k >= 8 || !gen_slots[k].set)
        return nullptr;
    return &gen_slots[k];
}

//! would the uniform-grid lookup at this energy read outside the slot's collection?
//! (decided by the real UniformGrid::find)
static bool lookup_oob(XsSlot const& s, double energy)
{
    UniformGrid grid(s.data.log_energy);
    double loge = std::log(energy);
    if (loge <= grid.front())
        return s.off >= s.words.size();
    if (loge >= grid.back())
        return s.off + grid.size() - 1 >= s.words.size();
    size_type idx = grid.find(loge);
    return s.off + idx + 1 >= s.words.size();
}

//---------------------------------------------------------------------------//
// Minimal physics/particle data for the functions that take track views
struct Problem
{
    HostVal<PhysicsParamsData> pp;
    HostCRef<PhysicsParamsData> pp_ref;
    HostVal<PhysicsStateData> ps;
    HostRef<PhysicsStateData> ps_ref;
    HostVal<ParticleParamsData> parp;
    HostCRef<ParticleParamsData> parp_ref;
    HostVal<ParticleStateData> pars;
    HostRef<ParticleStateData> pars_ref;
    HostVal<UrbanMscData> msc;
    HostCRef<UrbanMscData> msc_ref;
};

static XsGridData
append_table(HostItems<real_type>* reals, XsSlot const& s)
{
    auto all = make_builder(reals).insert_back(s.words.begin(), s.words.end());
    XsGridData g = s.data;
    auto b = all.begin()->unchecked_get();
    g.value = ItemRange<real_type>(ItemId<real_type>(b + s.off),
                                   ItemId<real_type>(b + s.off + s.data.value.size()));
    return g;
}

//! one particle (electron, id 0), one material, one process with energy-loss + range tables
static void build_problem(Problem* p,
                          XsSlot const* loss,
                          XsSlot const* range,
                          XsSlot const* mscxs,
                          double limit,
                          double rho,
                          double alpha,
                          double emass,
                          double energy,
                          double dedx_range)
{
    auto& pp = p->pp;
    std::vector<ValueGridId> gids;
    ValueGridArray<ItemRange<ValueTable>> tables;
    XsSlot const* src[2] = {loss, range};
    ValueGridType vgt[2] = {ValueGridType::energy_loss, ValueGridType::range};
    for (int k = 0; k < 2; ++k)
    {
        ValueTable vt;
        if (src[k])
        {
            XsGridData g = append_table(&pp.reals, *src[k]);
            ValueGridId gid = make_builder(&pp.value_grids).push_back(g);
            vt.grids = make_builder(&pp.value_grid_ids).insert_back(&gid, &gid + 1);
        }
        auto tid = make_builder(&pp.value_tables).push_back(vt);
        tables[vgt[k]] = ItemRange<ValueTable>(tid, ValueTableId(tid.get() + 1));
    }
    {
        // unused macro_xs table (empty)
        ValueTable vt;
        auto tid = make_builder(&pp.value_tables).push_back(vt);
        tables[ValueGridType::macro_xs] = ItemRange<ValueTable>(tid, ValueTableId(tid.get() + 1));
    }
    ProcessGroup pg;
    ProcessId proc{0};
    pg.processes = make_builder(&pp.process_ids).insert_back(&proc, &proc + 1);
    pg.tables = tables;
    ModelGroup mg;
    pg.models = ItemRange<ModelGroup>(make_builder(&pp.model_groups).push_back(mg),
                                      ItemId<ModelGroup>(1));
    IntegralXsProcess ixs;
    pg.integral_xs = ItemRange<IntegralXsProcess>(
        make_builder(&pp.integral_xs).push_back(ixs), ItemId<IntegralXsProcess>(1));
    pg.eloss_ppid = ParticleProcessId{0};
    make_builder(&pp.process_groups).push_back(pg);
    make_builder(&pp.model_ids).push_back(ModelId{0});
    pp.scalars.max_particle_processes = 1;
    pp.scalars.model_to_action = 4;
    pp.scalars.num_models = 1;
    pp.scalars.min_range = rho;
    pp.scalars.max_step_over_range = alpha;
    pp.scalars.min_eprime_over_e = 0.8;
    pp.scalars.lowest_electron_energy = Energy{0.001};
    pp.scalars.linear_loss_limit = limit;
    pp.scalars.lambda_limit = 0.1;
    pp.scalars.range_factor = 0.04;
    pp.scalars.safety_factor = 0.6;
    pp.scalars.step_limit_algorithm = MscStepLimitAlgorithm::safety;
    p->pp_ref = pp;

    resize(&p->ps.state, 1);
    p->ps.state[TrackSlotId{0}].dedx_range = dedx_range;
    p->ps.state[TrackSlotId{0}].interaction_mfp = 0;
    p->ps_ref = p->ps;

    make_builder(&p->parp.mass).push_back(units::MevMass{emass});
    make_builder(&p->parp.charge).push_back(units::ElementaryCharge{-1});
    make_builder(&p->parp.decay_constant).push_back(0);
    make_builder(&p->parp.matter).push_back(MatterType::particle);
    p->parp_ref = p->parp;
    resize(&p->pars.particle_id, 1);
    resize(&p->pars.particle_energy, 1);
    p->pars.particle_id[TrackSlotId{0}] = ParticleId{0};
    p->pars.particle_energy[TrackSlotId{0}] = energy;
    p->pars_ref = p->pars;

    if (mscxs)
    {
        auto& m = p->msc;
        m.ids.electron = ParticleId{0};
        m.ids.positron = ParticleId{1};
        m.electron_mass = units::MevMass{emass};
        make_builder(&m.material_data).push_back(UrbanMscMaterialData{});
        UrbanMscParMatData pm;
        pm.scaled_zeff = 1;
        pm.d_over_r = 1;
        make_builder(&m.par_mat_data).push_back(pm);
        make_builder(&m.par_mat_data).push_back(pm);
        XsGridData g = append_table(&m.reals, *mscxs);
        make_builder(&m.xs).push_back(g);
        make_builder(&m.xs).push_back(g);
        p->msc_ref = m;
    }
}

//---------------------------------------------------------------------------//
static string do_xsgrid(std::vector<string> const& w)
{
    // xsgrid S front back prime n off w0 ...
    if (w.size() < 7)
        return "bad-op";
    size_type k, n, off, prime;
    double front, back;
    if (!parse_dec(w[1], &k) || !parse_dbl(w[2], &front) || !parse_dbl(w[3], &back)
        || !parse_dec(w[5], &n) || !parse_dec(w[6], &off))
        return "bad-op";
    if (w[4] == "none")
        prime = XsGridData::no_scaling();
    else if (!parse_dec(w[4], &prime))
        return "bad-op";
    vecd words;
    if (!parse_all(w, 7, w.size(), &words))
        return "bad-op";
    if (!(k < 8 && n >= 2 && off + n <= words.size()))
        return "bad-op";
    XsSlot& s = xs_slots[k];
    s.set = true;
    s.words = words;
    s.off = off;
    s.reals = {};
    auto all = make_builder(&s.reals).insert_back(words.begin(), words.end());
    (void)all;
    s.ref = s.reals;
    s.data = XsGridData{};
    s.data.log_energy = UniformGridData::from_bounds(front, back, n);
    s.data.prime_index = prime;
    s.data.value = ItemRange<real_type>(ItemId<real_type>(off), ItemId<real_type>(off + n));
    return "ok " + vh::hexd(s.data.log_energy.delta);
}

static string do_gengrid(std::vector<string> const& w)
{
    // gengrid S n x.. y..
    if (w.size() < 3)
        return "bad-op";
    size_type k, n;
    if (!parse_dec(w[1], &k) || !parse_dec(w[2], &n))
        return "bad-op";
    vecd words;
    if (!parse_all(w, 3, w.size(), &words))
        return "bad-op";
    if (!(k < 8 && n >= 2 && words.size() == 2 * n))
        return "bad-op";
    GenSlot& s = gen_slots[k];
    s.set = true;
    s.n = n;
    s.reals = {};
    make_builder(&s.reals).insert_back(words.begin(), words.end());
    s.ref = s.reals;
    s.rec.grid = ItemRange<real_type>(ItemId<real_type>(0), ItemId<real_type>(n));
    s.rec.value = ItemRange<real_type>(ItemId<real_type>(n), ItemId<real_type>(2 * n));
    return "ok";
}

static string handle(std::vector<string> const& w)
{
    if (w.empty())
        return "bad-op";
    string const& op = w[0];
    if (op == "consts" && w.size() == 1)
    {
        return vh::hexd(UrbanMscParameters::min_step()) + " " + vh::hexd(UrbanMscParameters::dtrl())
               + " " + vh::hexd(MscStep::small_step_alpha()) + " " + vh::hexd(sqrt_tol()) + " "
               + std::to_string(XsGridData::no_scaling());
    }
    if (op == "log" && w.size() == 2)
    {
        double e;
        if (!parse_dbl(w[1], &e))
            return "bad-op";
        return vh::hexd(std::log(e));
    }
    if (op == "xsgrid")
        return do_xsgrid(w);
    if (op == "gengrid")
        return do_gengrid(w);
    if (op == "ugat" && w.size() == 3)
    {
        XsSlot* s = xs_slot(w[1]);
        size_type i;
        if (!s || !parse_dec(w[2], &i))
            return "bad-op";
        return vh::hexd(UniformGrid(s->data.log_energy)[i]);
    }
    if (op == "ugfind" && w.size() == 3)
    {
        XsSlot* s = xs_slot(w[1]);
        double v;
        if (!s || !parse_dbl(w[2], &v))
            return "bad-op";
        UniformGrid g(s->data.log_energy);
        if (!(v >= g.front() && v < g.back()))
            return "precond";
        return std::to_string(g.find(v));
    }
    if ((op == "xs" || op == "xsraw" || op == "range" || op == "rangeraw") && w.size() == 3)
    {
        XsSlot* s = xs_slot(w[1]);
        double e;
        if (!s || !parse_dbl(w[2], &e))
            return "bad-op";
        if (!(e > 0.0))
            return "precond";
        if ((op == "xs" || op == "range") && lookup_oob(*s, e))
            return "oob";
        if (op[0] == 'x')
            return vh::hexd(XsCalculator(s->data, s->ref)(Energy{e}));
        return vh::hexd(RangeCalculator(s->data, s->ref)(Energy{e}));
    }
    if (op == "xsat" && w.size() == 3)
    {
        XsSlot* s = xs_slot(w[1]);
        size_type i;
        if (!s || !parse_dec(w[2], &i))
            return "bad-op";
        if (!(i < s->data.value.size()))
            return "precond";
        return vh::hexd(XsCalculator(s->data, s->ref)[i]);
    }
    if (op == "invrange" && w.size() == 3)
    {
        XsSlot* s = xs_slot(w[1]);
        double r;
        if (!s || !parse_dbl(w[2], &r))
            return "bad-op";
        if (r != r)
            return "precond";
        return vh::hexd(InverseRangeCalculator(s->data, s->ref)(r).value());
    }
    if ((op == "gen" || op == "geninv") && w.size() == 3)
    {
        GenSlot* s = gen_slot(w[1]);
        double x;
        if (!s || !parse_dbl(w[2], &x))
            return "bad-op";
        if (x != x)
            return "precond";
        if (op == "gen")
            return vh::hexd(GenericCalculator(s->rec, s->ref)(x));
        return vh::hexd(GenericCalculator::from_inverse(s->rec, s->ref)(x));
    }
    if (op == "eloss" && w.size() == 7)
    {
        XsSlot* l = xs_slot(w[1]);
        XsSlot* r = xs_slot(w[2]);
        vecd a;
        if (!l || !r || !parse_all(w, 3, 7, &a))
            return "bad-op";
        double lim = a[0], e = a[1], rng = a[2], step = a[3];
        if (!(e > 0.0 && step > 0.0 && rng == rng && lim == lim))
            return "precond";
        if (lookup_oob(*l, e))
            return "oob";
        Problem p;
        build_problem(&p, l, r, nullptr, lim, 0.1, 0.2, 0.5, e, rng);
        ParticleTrackView particle(p.parp_ref, p.pars_ref, TrackSlotId{0});
        PhysicsTrackView physics(p.pp_ref, p.ps_ref, ParticleId{0}, MaterialId{0}, TrackSlotId{0});
        return vh::hexd(calc_mean_energy_loss(particle, physics, step).value());
    }
    if (op == "r2s" && w.size() == 4)
    {
        vecd a;
        if (!parse_all(w, 1, 4, &a))
            return "bad-op";
        Problem p;
        build_problem(&p, nullptr, nullptr, nullptr, 0.01, a[0], a[1], 0.5, 1.0, 1.0);
        PhysicsTrackView physics(p.pp_ref, p.ps_ref, ParticleId{0}, MaterialId{0}, TrackSlotId{0});
        return vh::hexd(physics.range_to_step(a[2]));
    }
    if (op == "togeo" && w.size() == 9)
    {
        XsSlot* r = xs_slot(w[1]);
        XsSlot* m = xs_slot(w[2]);
        vecd a;
        if (!r || !m || !parse_all(w, 3, 9, &a))
            return "bad-op";
        double emass = a[0], e = a[1], lam = a[2], rng = a[3], t = a[4], orc = a[5];
        if (!(e > 0.0 && lam > 0.0 && rng > 0.0 && t >= 0.0 && t <= rng && emass == emass))
            return "precond";
        if (vh::dbl_bits(std::expm1(-t / lam)) != vh::dbl_bits(orc))
            return "oracle-mismatch " + vh::hexd(std::expm1(-t / lam));
        // UrbanMscHelper's constructor evaluates the MSC cross section at the track energy
        if (lookup_oob(*m, e))
            return "oob";
        Problem p;
        build_problem(&p, nullptr, r, m, 0.01, 0.1, 0.2, emass, e, rng);
        ParticleTrackView particle(p.parp_ref, p.pars_ref, TrackSlotId{0});
        PhysicsTrackView physics(p.pp_ref, p.ps_ref, ParticleId{0}, MaterialId{0}, TrackSlotId{0});
        detail::UrbanMscHelper helper(p.msc_ref, particle, physics);
        if (!(t < UrbanMscParameters::min_step()) && !(t < rng * UrbanMscParameters::dtrl())
            && !(e < emass || t == rng))
        {
            // guard for the cross-section lookup at the end-point energy
            Energy endpoint = helper.calc_inverse_range(rng - t);
            if (endpoint.value() != endpoint.value())
                return "precond";
            if (lookup_oob(*m, endpoint.value()))
                return "oob";
        }
        detail::MscStepToGeo to_geo(p.msc_ref, helper, Energy{e}, lam, rng);
        auto res = to_geo(t);
        return vh::hexd(res.step) + " " + vh::hexd(res.alpha);
    }
    if (op == "fromgeo" && w.size() == 7)
    {
        vecd a;
        if (!parse_all(w, 1, 7, &a))
            return "bad-op";
        double tr = a[0], alpha = a[1], rng = a[2], lam = a[3], g = a[4], orc = a[5];
        if (vh::dbl_bits(std::log1p(-g / lam)) != vh::dbl_bits(orc))
            return "oracle-mismatch " + vh::hexd(std::log1p(-g / lam));
        UrbanMscParameters params;
        MscStep step;
        step.true_path = tr;
        step.alpha = alpha;
        detail::MscStepFromGeo from_geo(params, step, rng, lam);
        return vh::hexd(from_geo(g));
    }
    return "bad-op";
}

int main()
{
    string line;
    while (std::getline(std::cin, line))
    {
        std::cout << handle(vh::words(line)) << "\n";
    }
    return 0;
}
