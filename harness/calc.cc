// C14 harness: the REAL UniformGrid / XsCalculator (= EnergyLossCalculator) / RangeCalculator /
// InverseRangeCalculator / GenericCalculator / calc_mean_energy_loss /
// PhysicsTrackView::range_to_step / MscStepToGeo / MscStepFromGeo, driven by the protocol of
// lean/CelerVerif/Model/CalcDriver.lean (tables given on the op lines as hex doubles).
//
// A table lives alone in its own `reals` collection (plus the trailing words given on the op
// line), so that a read one past the table is a read past the allocation.  The release build
// has no bounds check; before calling a calculator the harness asks the real
// UniformGrid::find for the bin and answers `oob` when `bin + 1` is outside the collection
// (ops `xsraw` / `rangeraw` skip that guard: used with the ASan build only).
#include <cmath>
#include <string>
#include <vector>

#include "corecel/data/Collection.hh"
#include "corecel/data/CollectionBuilder.hh"
#include "corecel/grid/UniformGrid.hh"
#include "corecel/grid/UniformGridData.hh"
#include "corecel/math/SoftEqual.hh"
#include "celeritas/Quantities.hh"
#include "celeritas/em/data/UrbanMscData.hh"
#include "celeritas/em/msc/detail/MscStepFromGeo.hh"
#include "celeritas/em/msc/detail/MscStepToGeo.hh"
#include "celeritas/em/msc/detail/UrbanMscHelper.hh"
#include "celeritas/grid/EnergyLossCalculator.hh"
#include "celeritas/grid/GenericCalculator.hh"
#include "celeritas/grid/GenericGridData.hh"
#include "celeritas/grid/InverseRangeCalculator.hh"
#include "celeritas/grid/RangeCalculator.hh"
#include "celeritas/grid/XsCalculator.hh"
#include "celeritas/grid/XsGridData.hh"
#include "celeritas/phys/Interaction.hh"
#include "celeritas/phys/ParticleData.hh"
#include "celeritas/phys/ParticleTrackView.hh"
#include "celeritas/phys/PhysicsData.hh"
#include "celeritas/phys/PhysicsStepUtils.hh"
#include "celeritas/phys/PhysicsTrackView.hh"

#include <memory>

#include "corecel/data/CollectionStateStore.hh"
#include "corecel/sys/ActionRegistry.hh"
#include "celeritas/Constants.hh"
#include "celeritas/grid/ValueGridBuilder.hh"
#include "celeritas/grid/ValueGridInserter.hh"
#include "celeritas/mat/MaterialParams.hh"
#include "celeritas/mat/MaterialTrackView.hh"
#include "celeritas/phys/Model.hh"
#include "celeritas/phys/PDGNumber.hh"
#include "celeritas/phys/ParticleParams.hh"
#include "celeritas/phys/PhysicsParams.hh"
#include "celeritas/phys/PhysicsStepView.hh"
#include "celeritas/phys/Process.hh"

#include "common/lineio.hh"

using namespace celeritas;
using std::string;
using vecd = std::vector<double>;
using Energy = units::MevEnergy;

template<class T>
using HostItems = Collection<T, Ownership::value, MemSpace::host>;
template<class T>
using HostCItems = Collection<T, Ownership::const_reference, MemSpace::host>;

//! how a slot was made by a real builder (needed to rebuild it inside PhysicsParams)
struct BuildSpec
{
    int kind{0};  // 0 none, 1 ValueGridXsBuilder, 2 ValueGridLogBuilder
    double emin{}, eprime{}, emax{};
    vecd values;
};

struct XsSlot
{
    bool set{false};
    BuildSpec spec;
    XsGridData data;
    vecd words;
    size_type off{0};
    HostItems<real_type> reals;
    HostCItems<real_type> ref;
};

struct GenSlot
{
    bool set{false};
    GenericGridRecord rec;
    GenericGridRecord inv;
    size_type n{0};
    HostItems<real_type> reals;
    HostCItems<real_type> ref;
};

static XsSlot xs_slots[8];
static GenSlot gen_slots[8];

static bool parse_dec(string const& s, size_type* out)
{
    if (s.empty() || s.size() > 19)
        return false;
    size_type v = 0;
    for (char c : s)
    {
        if (c < '0' || c > '9')
            return false;
        v = v * 10 + static_cast<size_type>(c - '0');
    }
    *out = v;
    return true;
}

static bool parse_dbl(string const& s, double* out)
{
    std::uint64_t u;
    if (!vh::parse_hex(s, &u))
        return false;
    *out = vh::bits_dbl(u);
    return true;
}

static bool parse_all(std::vector<string> const& w, std::size_t b, std::size_t e, vecd* out)
{
    for (std::size_t i = b; i < e; ++i)
    {
        double d;
        if (!parse_dbl(w[i], &d))
            return false;
        out->push_back(d);
    }
    return true;
}

static XsSlot* xs_slot(string const& s)
{
    size_type k;
    if (!parse_dec(s, &k) || k >= 8 || !xs_slots[k].set)
        return nullptr;
    return &xs_slots[k];
}

static GenSlot* gen_slot(string const& s)
{
    size_type k;
    if (!parse_dec(s, &k) || k >= 8 || !gen_slots[k].set)
        return nullptr;
    return &gen_slots[k];
}

//! would the uniform-grid lookup at this energy read outside the slot's collection?
//! (decided by the real UniformGrid::find)
static bool lookup_oob(XsSlot const& s, double energy)
{
    UniformGrid grid(s.data.log_energy);
    double loge = std::log(energy);
    if (loge <= grid.front())
        return s.off >= s.words.size();
    if (loge >= grid.back())
        return s.off + grid.size() - 1 >= s.words.size();
    size_type idx = grid.find(loge);
    return s.off + idx + 1 >= s.words.size();
}

//---------------------------------------------------------------------------//
// Minimal physics/particle data for the functions that take track views
struct Problem
{
    HostVal<PhysicsParamsData> pp;
    HostCRef<PhysicsParamsData> pp_ref;
    HostVal<PhysicsStateData> ps;
    HostRef<PhysicsStateData> ps_ref;
    HostVal<ParticleParamsData> parp;
    HostCRef<ParticleParamsData> parp_ref;
    HostVal<ParticleStateData> pars;
    HostRef<ParticleStateData> pars_ref;
    HostVal<UrbanMscData> msc;
    HostCRef<UrbanMscData> msc_ref;
};

static XsGridData
append_table(HostItems<real_type>* reals, XsSlot const& s)
{
    auto all = make_builder(reals).insert_back(s.words.begin(), s.words.end());
    XsGridData g = s.data;
    auto b = all.begin()->unchecked_get();
    g.value = ItemRange<real_type>(ItemId<real_type>(b + s.off),
                                   ItemId<real_type>(b + s.off + s.data.value.size()));
    return g;
}

//! one particle (electron, id 0), one material, one process with energy-loss + range tables
static void build_problem(Problem* p,
                          XsSlot const* loss,
                          XsSlot const* range,
                          XsSlot const* mscxs,
                          double limit,
                          double rho,
                          double alpha,
                          double emass,
                          double energy,
                          double dedx_range)
{
    auto& pp = p->pp;
    std::vector<ValueGridId> gids;
    ValueGridArray<ItemRange<ValueTable>> tables;
    XsSlot const* src[2] = {loss, range};
    ValueGridType vgt[2] = {ValueGridType::energy_loss, ValueGridType::range};
    for (int k = 0; k < 2; ++k)
    {
        ValueTable vt;
        if (src[k])
        {
            XsGridData g = append_table(&pp.reals, *src[k]);
            ValueGridId gid = make_builder(&pp.value_grids).push_back(g);
            vt.grids = make_builder(&pp.value_grid_ids).insert_back(&gid, &gid + 1);
        }
        auto tid = make_builder(&pp.value_tables).push_back(vt);
        tables[vgt[k]] = ItemRange<ValueTable>(tid, ValueTableId(tid.get() + 1));
    }
    {
        // unused macro_xs table (empty)
        ValueTable vt;
        auto tid = make_builder(&pp.value_tables).push_back(vt);
        tables[ValueGridType::macro_xs] = ItemRange<ValueTable>(tid, ValueTableId(tid.get() + 1));
    }
    ProcessGroup pg;
    ProcessId proc{0};
    pg.processes = make_builder(&pp.process_ids).insert_back(&proc, &proc + 1);
    pg.tables = tables;
    ModelGroup mg;
    pg.models = ItemRange<ModelGroup>(make_builder(&pp.model_groups).push_back(mg),
                                      ItemId<ModelGroup>(1));
    IntegralXsProcess ixs;
    pg.integral_xs = ItemRange<IntegralXsProcess>(
        make_builder(&pp.integral_xs).push_back(ixs), ItemId<IntegralXsProcess>(1));
    pg.eloss_ppid = ParticleProcessId{0};
    make_builder(&pp.process_groups).push_back(pg);
    make_builder(&pp.model_ids).push_back(ModelId{0});
    pp.scalars.max_particle_processes = 1;
    pp.scalars.model_to_action = 4;
    pp.scalars.num_models = 1;
    pp.scalars.min_range = rho;
    pp.scalars.max_step_over_range = alpha;
    pp.scalars.min_eprime_over_e = 0.8;
    pp.scalars.lowest_electron_energy = Energy{0.001};
    pp.scalars.linear_loss_limit = limit;
    pp.scalars.lambda_limit = 0.1;
    pp.scalars.range_factor = 0.04;
    pp.scalars.safety_factor = 0.6;
    pp.scalars.step_limit_algorithm = MscStepLimitAlgorithm::safety;
    p->pp_ref = pp;

    resize(&p->ps.state, 1);
    p->ps.state[TrackSlotId{0}].dedx_range = dedx_range;
    p->ps.state[TrackSlotId{0}].interaction_mfp = 0;
    p->ps_ref = p->ps;

    make_builder(&p->parp.mass).push_back(units::MevMass{emass});
    make_builder(&p->parp.charge).push_back(units::ElementaryCharge{-1});
    make_builder(&p->parp.decay_constant).push_back(0);
    make_builder(&p->parp.matter).push_back(MatterType::particle);
    p->parp_ref = p->parp;
    resize(&p->pars.particle_id, 1);
    resize(&p->pars.particle_energy, 1);
    p->pars.particle_id[TrackSlotId{0}] = ParticleId{0};
    p->pars.particle_energy[TrackSlotId{0}] = energy;
    p->pars_ref = p->pars;

    if (mscxs)
    {
        auto& m = p->msc;
        m.ids.electron = ParticleId{0};
        m.ids.positron = ParticleId{1};
        m.electron_mass = units::MevMass{emass};
        make_builder(&m.material_data).push_back(UrbanMscMaterialData{});
        UrbanMscParMatData pm;
        pm.scaled_zeff = 1;
        pm.d_over_r = 1;
        make_builder(&m.par_mat_data).push_back(pm);
        make_builder(&m.par_mat_data).push_back(pm);
        XsGridData g = append_table(&m.reals, *mscxs);
        make_builder(&m.xs).push_back(g);
        make_builder(&m.xs).push_back(g);
        p->msc_ref = m;
    }
}

//---------------------------------------------------------------------------//
static string do_xsgrid(std::vector<string> const& w)
{
    // xsgrid S front back prime n off w0 ...
    if (w.size() < 7)
        return "bad-op";
    size_type k, n, off, prime;
    double front, back;
    if (!parse_dec(w[1], &k) || !parse_dbl(w[2], &front) || !parse_dbl(w[3], &back)
        || !parse_dec(w[5], &n) || !parse_dec(w[6], &off))
        return "bad-op";
    if (w[4] == "none")
        prime = XsGridData::no_scaling();
    else if (!parse_dec(w[4], &prime))
        return "bad-op";
    vecd words;
    if (!parse_all(w, 7, w.size(), &words))
        return "bad-op";
    if (!(k < 8 && n >= 2 && off + n <= words.size()))
        return "bad-op";
    XsSlot& s = xs_slots[k];
    s.set = true;
    s.words = words;
    s.off = off;
    s.reals = {};
    auto all = make_builder(&s.reals).insert_back(words.begin(), words.end());
    (void)all;
    s.ref = s.reals;
    s.data = XsGridData{};
    s.data.log_energy = UniformGridData::from_bounds(front, back, n);
    s.data.prime_index = prime;
    s.data.value = ItemRange<real_type>(ItemId<real_type>(off), ItemId<real_type>(off + n));
    return "ok " + vh::hexd(s.data.log_energy.delta);
}

static string do_gengrid(std::vector<string> const& w)
{
    // gengrid S n x.. y..
    if (w.size() < 3)
        return "bad-op";
    size_type k, n;
    if (!parse_dec(w[1], &k) || !parse_dec(w[2], &n))
        return "bad-op";
    vecd words;
    if (!parse_all(w, 3, w.size(), &words))
        return "bad-op";
    if (!(k < 8 && n >= 2 && words.size() == 2 * n))
        return "bad-op";
    GenSlot& s = gen_slots[k];
    s.set = true;
    s.n = n;
    s.reals = {};
    make_builder(&s.reals).insert_back(words.begin(), words.end());
    s.ref = s.reals;
    s.rec.grid = ItemRange<real_type>(ItemId<real_type>(0), ItemId<real_type>(n));
    s.rec.value = ItemRange<real_type>(ItemId<real_type>(n), ItemId<real_type>(2 * n));
    return "ok";
}


//---------------------------------------------------------------------------//
// Tables built through the REAL ValueGridXsBuilder / ValueGridLogBuilder + ValueGridInserter
static string do_build(std::vector<string> const& w, bool xs)
{
    // xsbuild S emin eprime emax n xs...   |   logbuild S emin emax n v...
    std::size_t const nhead = xs ? 6 : 5;
    if (w.size() < nhead)
        return "bad-op";
    size_type k, n;
    vecd e;
    if (!parse_dec(w[1], &k) || !parse_all(w, 2, nhead - 1, &e) || !parse_dec(w[nhead - 1], &n))
        return "bad-op";
    vecd vals;
    if (!parse_all(w, nhead, w.size(), &vals))
        return "bad-op";
    double emin = e[0], eprime = xs ? e[1] : e[0], emax = xs ? e[2] : e[1];
    if (!(k < 8 && n >= 2 && vals.size() == n && emin > 0.0 && emax > eprime
          && (xs ? eprime >= emin : emax > emin)))
        return "bad-op";
    XsSlot& s = xs_slots[k];
    s = XsSlot{};
    s.set = true;
    s.spec.kind = xs ? 1 : 2;
    s.spec.emin = emin;
    s.spec.eprime = eprime;
    s.spec.emax = emax;
    s.spec.values = vals;
    HostItems<XsGridData> grids;
    ValueGridInserter insert(&s.reals, &grids);
    ValueGridInserter::XsIndex id;
    if (xs)
        id = ValueGridXsBuilder(emin, eprime, emax, vals).build(insert);
    else
        id = ValueGridLogBuilder(emin, emax, vals).build(insert);
    s.data = grids[id];
    s.off = s.data.value.begin()->unchecked_get();
    s.words.assign(s.reals[AllItems<real_type, MemSpace::host>{}].begin(),
                   s.reals[AllItems<real_type, MemSpace::host>{}].end());
    s.ref = s.reals;
    return "ok " + vh::hexd(s.data.log_energy.delta) + " " + std::to_string(s.data.prime_index);
}

//---------------------------------------------------------------------------//
// A real PhysicsParams with one process whose step-limit tables come from builder specs
class HModel final : public Model
{
  public:
    HModel(ActionId id, Applicability a) : id_(id), applic_(a) {}
    SetApplicability applicability() const final { return {applic_}; }
    MicroXsBuilders micro_xs(Applicability) const final { return {}; }
    void step(CoreParams const&, CoreStateHost&) const final {}
    void step(CoreParams const&, CoreStateDevice&) const final {}
    ActionId action_id() const final { return id_; }
    std::string_view label() const final { return "h-model"; }
    std::string_view description() const final { return "harness model"; }

  private:
    ActionId id_;
    Applicability applic_;
};

class TableProcess final : public Process
{
  public:
    TableProcess(BuildSpec m, BuildSpec l, BuildSpec r) : m_(m), l_(l), r_(r) {}
    VecModel build_models(ActionIdIter start_id) const final
    {
        Applicability a;
        a.particle = ParticleId{0};
        a.lower = units::MevEnergy{m_.emin};
        a.upper = units::MevEnergy{m_.emax};
        return {std::make_shared<HModel>(*start_id++, a)};
    }
    StepLimitBuilders step_limits(Applicability) const final
    {
        StepLimitBuilders b;
        b[ValueGridType::macro_xs] = make(m_);
        b[ValueGridType::energy_loss] = make(l_);
        b[ValueGridType::range] = make(r_);
        return b;
    }
    bool use_integral_xs() const final { return false; }
    std::string_view label() const final { return "h-process"; }

  private:
    static UPConstGridBuilder make(BuildSpec const& s)
    {
        if (s.kind == 1)
            return std::make_unique<ValueGridXsBuilder>(s.emin, s.eprime, s.emax, s.values);
        return std::make_unique<ValueGridLogBuilder>(s.emin, s.emax, s.values);
    }
    BuildSpec m_, l_, r_;
};

struct PhysProblem
{
    std::shared_ptr<MaterialParams> mats;
    std::shared_ptr<ParticleParams> pars;
    std::unique_ptr<ActionRegistry> reg;
    std::shared_ptr<PhysicsParams> phys;
    CollectionStateStore<MaterialStateData, MemSpace::host> mat_state;
    CollectionStateStore<ParticleStateData, MemSpace::host> par_state;
    CollectionStateStore<PhysicsStateData, MemSpace::host> phys_state;
};
static std::unique_ptr<PhysProblem> phys_problem;

static string do_physbuild(std::vector<string> const& w)
{
    if (w.size() != 8)
        return "bad-op";
    XsSlot* m = xs_slot(w[1]);
    XsSlot* l = xs_slot(w[2]);
    XsSlot* r = xs_slot(w[3]);
    vecd a;
    if (!m || !l || !r || !m->spec.kind || !l->spec.kind || !r->spec.kind
        || !parse_all(w, 4, 8, &a))
        return "bad-op";
    double lim = a[0], rho = a[1], alpha = a[2], fixed = a[3];
    auto same = [](double x, double y) { return vh::dbl_bits(x) == vh::dbl_bits(y); };
    if (!(same(m->data.log_energy.front, l->data.log_energy.front)
          && same(l->data.log_energy.front, r->data.log_energy.front)
          && same(m->data.log_energy.back, l->data.log_energy.back)
          && same(l->data.log_energy.back, r->data.log_energy.back) && lim > 0.0 && lim <= 1.0
          && rho > 0.0 && alpha > 0.0 && fixed >= 0.0 && l->spec.kind == 2 && r->spec.kind == 2))
        return "bad-op";
    auto p = std::make_unique<PhysProblem>();
    {
        MaterialParams::Input inp;
        inp.elements = {{AtomicNumber{1}, units::AmuMass{1.0}, {}, "h"}};
        inp.materials.push_back(
            {1e20, 300, MatterState::gas, {{ElementId{0}, 1.0}}, "mat"});
        p->mats = std::make_shared<MaterialParams>(std::move(inp));
    }
    {
        ParticleParams::Input inp;
        inp.push_back({"celeriton",
                       PDGNumber{1337},
                       units::MevMass{1},
                       units::ElementaryCharge{1},
                       constants::stable_decay_constant});
        p->pars = std::make_shared<ParticleParams>(std::move(inp));
    }
    p->reg = std::make_unique<ActionRegistry>();
    PhysicsParams::Input pin;
    pin.particles = p->pars;
    pin.materials = p->mats;
    pin.action_registry = p->reg.get();
    pin.options.linear_loss_limit = lim;
    pin.options.min_range = rho;
    pin.options.max_step_over_range = alpha;
    pin.options.fixed_step_limiter = fixed;
    pin.processes.push_back(std::make_shared<TableProcess>(m->spec, l->spec, r->spec));
    p->phys = std::make_shared<PhysicsParams>(std::move(pin));
    p->mat_state = decltype(p->mat_state)(p->mats->host_ref(), 1);
    p->par_state = decltype(p->par_state)(p->pars->host_ref(), 1);
    p->phys_state = decltype(p->phys_state)(p->phys->host_ref(), 1);
    {
        MaterialTrackView mat(p->mats->host_ref(), p->mat_state.ref(), TrackSlotId{0});
        mat = MaterialTrackView::Initializer_t{MaterialId{0}};
        ParticleTrackView par(p->pars->host_ref(), p->par_state.ref(), TrackSlotId{0});
        ParticleTrackView::Initializer_t pi;
        pi.particle_id = ParticleId{0};
        pi.energy = units::MevEnergy{1};
        par = pi;
        PhysicsTrackView phys(
            p->phys->host_ref(), p->phys_state.ref(), ParticleId{0}, MaterialId{0}, TrackSlotId{0});
        phys = PhysicsTrackView::Initializer_t{};
    }
    phys_problem = std::move(p);
    return "ok";
}

//! one step of the same track slot: calc_physics_step_limit, then calc_mean_energy_loss
static string do_pstep(std::vector<string> const& w)
{
    vecd a;
    if (w.size() != 4 || !phys_problem || !parse_all(w, 1, 4, &a))
        return "bad-op";
    double e = a[0], mfp = a[1], frac = a[2];
    if (!(e > 0.0 && mfp > 0.0 && frac > 0.0 && frac <= 1.0))
        return "precond";
    auto& p = *phys_problem;
    MaterialTrackView mat(p.mats->host_ref(), p.mat_state.ref(), TrackSlotId{0});
    ParticleTrackView par(p.pars->host_ref(), p.par_state.ref(), TrackSlotId{0});
    par.energy(units::MevEnergy{e});
    PhysicsTrackView phys(
        p.phys->host_ref(), p.phys_state.ref(), ParticleId{0}, MaterialId{0}, TrackSlotId{0});
    PhysicsStepView pstep(p.phys->host_ref(), p.phys_state.ref(), TrackSlotId{0});
    phys.interaction_mfp(mfp);
    StepLimit lim = calc_physics_step_limit(mat, par, phys, pstep);
    auto const& sc = p.phys->host_ref().scalars;
    string act = lim.action == sc.range_action()      ? "r"
                 : lim.action == sc.discrete_action() ? "d"
                 : (sc.fixed_step_action && lim.action == sc.fixed_step_action) ? "f"
                                                                               : "?";
    auto const& st = p.phys_state.ref().state[TrackSlotId{0}];
    string out = vh::hexd(lim.step) + " " + act + " " + vh::hexd(st.dedx_range) + " "
                 + vh::hexd(st.macro_xs);
    double s = frac * lim.step;
    if (s > 0.0)
        out += " " + vh::hexd(calc_mean_energy_loss(par, phys, s).value());
    else
        out += " nostep";
    return out;
}

static string handle(std::vector<string> const& w)
{
    if (w.empty())
        return "bad-op";
    string const& op = w[0];
    if (op == "consts" && w.size() == 1)
    {
        return vh::hexd(UrbanMscParameters::min_step()) + " " + vh::hexd(UrbanMscParameters::dtrl())
               + " " + vh::hexd(MscStep::small_step_alpha()) + " " + vh::hexd(sqrt_tol()) + " "
               + std::to_string(XsGridData::no_scaling());
    }
    if (op == "log" && w.size() == 2)
    {
        double e;
        if (!parse_dbl(w[1], &e))
            return "bad-op";
        return vh::hexd(std::log(e));
    }
    if (op == "bitop" && w.size() >= 4)
    {
        vecd a;
        if (!parse_all(w, 2, w.size(), &a))
            return "bad-op";
        string const& o = w[1];
        if (a.size() == 2)
        {
            if (o == "add") return vh::hexd(a[0] + a[1]);
            if (o == "sub") return vh::hexd(a[0] - a[1]);
            if (o == "mul") return vh::hexd(a[0] * a[1]);
            if (o == "div") return vh::hexd(a[0] / a[1]);
            if (o == "lt") return a[0] < a[1] ? "1" : "0";
            if (o == "le") return a[0] <= a[1] ? "1" : "0";
            if (o == "eq") return a[0] == a[1] ? "1" : "0";
            return "bad-op";
        }
        if (a.size() == 3 && o == "fma")
            return vh::hexd(std::fma(a[0], a[1], a[2]));
        if (a.size() == 5 && o == "lerp")
        {
            // the real Interpolator<linear, linear>
            LinearInterpolator<real_type> interp({a[0], a[1]}, {a[2], a[3]});
            return vh::hexd(interp(a[4]));
        }
        return "bad-op";
    }
    if (op == "exp" && w.size() == 2)
    {
        double e;
        if (!parse_dbl(w[1], &e))
            return "bad-op";
        return vh::hexd(std::exp(e));
    }
    if (op == "xsgrid")
        return do_xsgrid(w);
    if (op == "gengrid")
        return do_gengrid(w);
    if (op == "xsbuild")
        return do_build(w, true);
    if (op == "logbuild")
        return do_build(w, false);
    if (op == "physbuild")
        return do_physbuild(w);
    if (op == "pstep")
        return do_pstep(w);
    if (op == "ugat" && w.size() == 3)
    {
        XsSlot* s = xs_slot(w[1]);
        size_type i;
        if (!s || !parse_dec(w[2], &i))
            return "bad-op";
        return vh::hexd(UniformGrid(s->data.log_energy)[i]);
    }
    if (op == "ugfind" && w.size() == 3)
    {
        XsSlot* s = xs_slot(w[1]);
        double v;
        if (!s || !parse_dbl(w[2], &v))
            return "bad-op";
        UniformGrid g(s->data.log_energy);
        if (!(v >= g.front() && v < g.back()))
            return "precond";
        return std::to_string(g.find(v));
    }
    if ((op == "xs" || op == "xsraw" || op == "range" || op == "rangeraw") && w.size() == 3)
    {
        XsSlot* s = xs_slot(w[1]);
        double e;
        if (!s || !parse_dbl(w[2], &e))
            return "bad-op";
        if (!(e > 0.0))
            return "precond";
        if ((op == "xs" || op == "range") && lookup_oob(*s, e))
            return "oob";
        if (op[0] == 'x')
            return vh::hexd(XsCalculator(s->data, s->ref)(Energy{e}));
        return vh::hexd(RangeCalculator(s->data, s->ref)(Energy{e}));
    }
    if (op == "xsat" && w.size() == 3)
    {
        XsSlot* s = xs_slot(w[1]);
        size_type i;
        if (!s || !parse_dec(w[2], &i))
            return "bad-op";
        if (!(i < s->data.value.size()))
            return "precond";
        return vh::hexd(XsCalculator(s->data, s->ref)[i]);
    }
    if (op == "invrange" && w.size() == 3)
    {
        XsSlot* s = xs_slot(w[1]);
        double r;
        if (!s || !parse_dbl(w[2], &r))
            return "bad-op";
        if (r != r)
            return "precond";
        return vh::hexd(InverseRangeCalculator(s->data, s->ref)(r).value());
    }
    if ((op == "gen" || op == "geninv") && w.size() == 3)
    {
        GenSlot* s = gen_slot(w[1]);
        double x;
        if (!s || !parse_dbl(w[2], &x))
            return "bad-op";
        if (x != x)
            return "precond";
        if (op == "gen")
            return vh::hexd(GenericCalculator(s->rec, s->ref)(x));
        return vh::hexd(GenericCalculator::from_inverse(s->rec, s->ref)(x));
    }
    if (op == "eloss" && w.size() == 7)
    {
        XsSlot* l = xs_slot(w[1]);
        XsSlot* r = xs_slot(w[2]);
        vecd a;
        if (!l || !r || !parse_all(w, 3, 7, &a))
            return "bad-op";
        double lim = a[0], e = a[1], rng = a[2], step = a[3];
        if (!(e > 0.0 && step > 0.0 && rng == rng && lim == lim))
            return "precond";
        if (lookup_oob(*l, e))
            return "oob";
        Problem p;
        build_problem(&p, l, r, nullptr, lim, 0.1, 0.2, 0.5, e, rng);
        ParticleTrackView particle(p.parp_ref, p.pars_ref, TrackSlotId{0});
        PhysicsTrackView physics(p.pp_ref, p.ps_ref, ParticleId{0}, MaterialId{0}, TrackSlotId{0});
        return vh::hexd(calc_mean_energy_loss(particle, physics, step).value());
    }
    if (op == "r2s" && w.size() == 4)
    {
        vecd a;
        if (!parse_all(w, 1, 4, &a))
            return "bad-op";
        Problem p;
        build_problem(&p, nullptr, nullptr, nullptr, 0.01, a[0], a[1], 0.5, 1.0, 1.0);
        PhysicsTrackView physics(p.pp_ref, p.ps_ref, ParticleId{0}, MaterialId{0}, TrackSlotId{0});
        return vh::hexd(physics.range_to_step(a[2]));
    }
    if (op == "togeo" && w.size() == 9)
    {
        XsSlot* r = xs_slot(w[1]);
        XsSlot* m = xs_slot(w[2]);
        vecd a;
        if (!r || !m || !parse_all(w, 3, 9, &a))
            return "bad-op";
        double emass = a[0], e = a[1], lam = a[2], rng = a[3], t = a[4], orc = a[5];
        if (!(e > 0.0 && lam > 0.0 && rng > 0.0 && t >= 0.0 && t <= rng && emass == emass))
            return "precond";
        if (vh::dbl_bits(std::expm1(-t / lam)) != vh::dbl_bits(orc))
            return "oracle-mismatch " + vh::hexd(std::expm1(-t / lam));
        // UrbanMscHelper's constructor evaluates the MSC cross section at the track energy
        if (lookup_oob(*m, e))
            return "oob";
        Problem p;
        build_problem(&p, nullptr, r, m, 0.01, 0.1, 0.2, emass, e, rng);
        ParticleTrackView particle(p.parp_ref, p.pars_ref, TrackSlotId{0});
        PhysicsTrackView physics(p.pp_ref, p.ps_ref, ParticleId{0}, MaterialId{0}, TrackSlotId{0});
        detail::UrbanMscHelper helper(p.msc_ref, particle, physics);
        if (!(t < UrbanMscParameters::min_step()) && !(t < rng * UrbanMscParameters::dtrl())
            && !(e < emass || t == rng))
        {
            // guard for the cross-section lookup at the end-point energy
            Energy endpoint = helper.calc_inverse_range(rng - t);
            if (endpoint.value() != endpoint.value())
                return "precond";
            if (lookup_oob(*m, endpoint.value()))
                return "oob";
        }
        detail::MscStepToGeo to_geo(p.msc_ref, helper, Energy{e}, lam, rng);
        auto res = to_geo(t);
        return vh::hexd(res.step) + " " + vh::hexd(res.alpha);
    }
    if (op == "fromgeo" && w.size() == 7)
    {
        vecd a;
        if (!parse_all(w, 1, 7, &a))
            return "bad-op";
        double tr = a[0], alpha = a[1], rng = a[2], lam = a[3], g = a[4], orc = a[5];
        if (vh::dbl_bits(std::log1p(-g / lam)) != vh::dbl_bits(orc))
            return "oracle-mismatch " + vh::hexd(std::log1p(-g / lam));
        UrbanMscParameters params;
        MscStep step;
        step.true_path = tr;
        step.alpha = alpha;
        detail::MscStepFromGeo from_geo(params, step, rng, lam);
        return vh::hexd(from_geo(g));
    }
    return "bad-op";
}

int main()
{
    string line;
    while (std::getline(std::cin, line))
    {
        try
        {
            std::cout << handle(vh::words(line)) << "\n";
        }
        catch (std::exception const& e)
        {
            std::cout << "exception\n";
        }
    }
    return 0;
}
