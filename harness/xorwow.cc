// C13 harness: drives the real XorwowRngEngine / XorwowRngParams / reseed_rng with the
// same one-op-per-line protocol as lean/CelerVerif/Model/XorwowDriver.lean.
//
//   xorwow            : protocol mode (stdin -> stdout)
//   xorwow --tables   : dump the jump tables of the *running* XorwowRngParams
#include <memory>

#include "corecel/data/CollectionStateStore.hh"
#include "celeritas/random/RngReseed.hh"
#include "celeritas/random/XorwowRngEngine.hh"
#include "celeritas/random/XorwowRngParams.hh"

#include "common/lineio.hh"

using namespace celeritas;
using HostStore = CollectionStateStore<XorwowRngStateData, MemSpace::host>;

static std::string show(XorwowState const& s)
{
    std::string out = "st";
    for (int i = 0; i < 5; ++i)
        out += " " + vh::hex(s.xorstate[i], 8);
    out += " " + vh::hex(s.weylstate, 8);
    return out;
}

int main(int argc, char** argv)
{
    if (argc > 1 && std::string(argv[1]) == "--tables")
    {
        XorwowRngParams params(0);
        auto const& ref = params.host_ref();
        for (auto const* tab : {&ref.jump, &ref.jump_subsequence})
        {
            for (auto const& row : *tab)
            {
                std::string line;
                for (auto w : row)
                    line += vh::hex(w, 8) + " ";
                std::cout << line << "\n";
            }
        }
        return 0;
    }

    // one-slot state used by set/draw/discard/init/canon
    auto params = std::make_shared<XorwowRngParams>(0);
    HostStore states(params->host_ref(), StreamId{0}, 1);
    XorwowState& st = states.ref().state[TrackSlotId{0}];
    st = XorwowState{};
    for (auto& w : st.xorstate)
        w = 0;
    st.weylstate = 0;

    std::string line;
    while (std::getline(std::cin, line))
    {
        auto w = vh::words(line);
        std::uint64_t a[6];
        auto all_hex = [&](std::size_t n) {
            if (w.size() != n + 1)
                return false;
            for (std::size_t i = 0; i < n; ++i)
                if (!vh::parse_hex(w[i + 1], &a[i]))
                    return false;
            return true;
        };
        XorwowRngEngine rng(params->host_ref(), states.ref(), TrackSlotId{0});
        if (!w.empty() && w[0] == "set" && all_hex(6))
        {
            for (int i = 0; i < 5; ++i)
                st.xorstate[i] = static_cast<XorwowUInt>(a[i]);
            st.weylstate = static_cast<XorwowUInt>(a[5]);
            std::cout << show(st) << "\n";
        }
        else if (w.size() == 1 && w[0] == "draw")
        {
            auto v = rng();
            std::cout << "val " << vh::hex(v, 8) << " " << show(st) << "\n";
        }
        else if (!w.empty() && w[0] == "discard" && all_hex(1))
        {
            rng.discard(a[0]);
            std::cout << show(st) << "\n";
        }
        else if (!w.empty() && w[0] == "init" && all_hex(3) && a[0] < (1ull << 32))
        {
            XorwowRngInitializer init;
            init.seed = {static_cast<unsigned int>(a[0])};
            init.subsequence = a[1];
            init.offset = a[2];
            rng = init;
            std::cout << show(st) << "\n";
        }
        else if (!w.empty() && w[0] == "reseed" && all_hex(4) && a[0] < (1ull << 32)
                 && a[3] < a[2] && a[2] < (1ull << 32))
        {
            // real reseed_rng on a fresh multi-slot state, report one slot
            XorwowRngParams p2(static_cast<unsigned int>(a[0]));
            HostStore s2(p2.host_ref(), StreamId{0}, static_cast<size_type>(a[2]));
            reseed_rng(p2.host_ref(), s2.ref(), StreamId{0}, UniqueEventId{a[1]});
            st = s2.ref().state[TrackSlotId{static_cast<size_type>(a[3])}];
            std::cout << show(st) << "\n";
        }
        else if (w.size() == 1 && w[0] == "canon")
        {
            double d = generate_canonical<double>(rng);
            // d = n * 2^-53 exactly when n < 2^53: recover n and check exactness and range
            double scaled = d * 9007199254740992.0;
            auto n = static_cast<std::uint64_t>(scaled);
            if (!(d >= 0.0 && d < 1.0) || static_cast<double>(n) != scaled)
                std::cout << "canon OUT-OF-RANGE " << vh::hexd(d) << " " << show(st) << "\n";
            else
                std::cout << "canon " << vh::hex(n, 16) << " " << show(st) << "\n";
        }
        else
        {
            std::cout << "bad-op\n";
        }
    }
    return 0;
}
