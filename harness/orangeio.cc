// C19 harness: drives the REAL ORANGE JSON I/O code (OrangeInputIO.json.cc,
// detail/OrangeInputIOImpl.json.cc, BoundingBoxIO.json.cc, LabelIO.json.hh) with a
// one-op-per-line protocol: every stdin line `<op> <payload>` (payload = rest of the line
// after the first space, may contain spaces) gives EXACTLY ONE stdout line. Unknown op,
// payload that does not parse, or payload of the wrong shape => `bad-op`.
//
// CJ (canonical one-line JSON, no whitespace outside strings):
//   v := null | true | false | INT | #HHHHHHHHHHHHHHHH | "chars" | [v,...] | {"k":v,...}
//   INT   optional '-' + decimal digits; >=0 => number_unsigned (u64), <0 => number_integer
//         (i64); out of range => bad-op
//   #H16  16 lower-case hex digits = IEEE-754 bits of a double => number_float; ALL doubles
//         cross the boundary this way (inf, nan, -0.0, DBL_MAX included)
//   str   escapes \" \\ \n \t \uXXXX (BMP, stored UTF-8). Printed: " and \ escaped, \n, \t,
//         every other code point <0x20 or >0x7e as \uXXXX, the rest literally
//   cj(J) prints a nlohmann::json: unsigned/integer decimal, float as #bits, objects in
//         nlohmann (std::map, bytewise sorted) order
//
// S (positional struct descriptions; built/dumped directly, never via to_json/from_json):
//   Label     [name, ext]
//   BBox      [[l0,l1,l2],[u0,u1,u2]]   raw doubles, BBox::from_unchecked
//   Transform [d...]   0 => NoTransformation, 3 => Translation, 12 => Transformation(StorageSpan)
//   Surface   [typeName, [d...]]        typeName = to_cstring(SurfaceType), #d = StorageSpan::extent
//   OBZ       [BBox inner, BBox outer, INT transform_id]
//   Volume    [Label, [INT faces], [INT logic], BBox, OBZ, INT flags, INT zorder]
//   Daughter  [INT universe_id, Transform]
//   Unit      ["unit", Label, [Surface...], [Volume...], BBox, [[INT lv, Daughter]...], [Label...]]
//   Rect      ["rect", Label, [[d..],[d..],[d..]], [Daughter...]]
//   Input     [[Unit|Rect ...], [rel, abs]]
//   all INTs must fit celeritas::size_type (= std::size_t, 64 bit, in this host-only build:
//   logic tokens, ZOrder::exterior, invalid ids are 2^64-1 ...), all doubles as #H16.
//
// Output: `ok <CJ>` or, when the REAL code throws, `err validate` (celeritas::RuntimeError),
// `err debug` (DebugError), `err json` (nlohmann::json::exception), `err other` (other).
// One extension: decoding ops whose payload contains a zipped-surface "types" list with "inv"
// answer `err unreachable` without calling the real code (visit_surface_type has no `inv`
// case: __builtin_unreachable() in a release build).
//
// ops:  load <path>   J = json::parse(ifstream)                    -> ok cj(J) | err json
//       enc  <Input>  J = x (real to_json)                          -> ok cj(J)
//       enct <Input>  J2 = parse(J.dump())                          -> ok cj(J2)
//       dec  <J>      J.get_to(OrangeInput) (real from_json)        -> ok Input S
//       rt   <Input>  x -> J -> text -> J2 -> x2                    -> ok Input S
//       rtm  <Input>  x -> J -> x2 (no text step)                   -> ok Input S
//       lab2s/s2lab, bbenc/bbdec, logenc/logdec, trenc/trdec, tolenc/toldec, volenc/voldec,
//       surfenc/surfdec, unitenc/unitdec, rectenc/rectdec : same on the parts
//       proto "<name>" build an OrangeInput through the construction API (orangeinp UnitProto +
//                     InputBuilder; scenarios spheres, bgspheres, boxes-cyls, daughters,
//                     labels-at, empty-region)                       -> ok Input S
//       nav  <Input>  build OrangeParams from x and from rt(x), track 128 LCG rays through both
//                     -> ok same <nsteps> | ok diff <ray> | err <kind>
#include <cmath>
#include <cstdlib>
#include <fstream>
#include <functional>
#include <limits>
#include <map>
#include <nlohmann/json.hpp>

#include "corecel/Assert.hh"
#include "corecel/cont/Range.hh"
#include "corecel/data/CollectionStateStore.hh"
#include "corecel/io/LabelIO.json.hh"
#include "geocel/BoundingBoxIO.json.hh"
#include "orange/OrangeInput.hh"
#include "orange/OrangeInputIO.json.hh"
#include "orange/OrangeParams.hh"
#include "orange/OrangeTrackView.hh"
#include "orange/MatrixUtils.hh"
#include "orange/detail/OrangeInputIOImpl.json.hh"
#include "orange/orangeinp/CsgObject.hh"
#include "orange/orangeinp/InputBuilder.hh"
#include "orange/orangeinp/Shape.hh"
#include "orange/orangeinp/Transformed.hh"
#include "orange/orangeinp/UnitProto.hh"
#include "orange/surf/SurfaceTypeTraits.hh"
#include "orange/surf/VariantSurface.hh"
#include "orange/transform/VariantTransform.hh"

#include "common/lineio.hh"

namespace celeritas
{
// OrangeInputIO.json.hh mis-declares this one (T not deducible); the definition in the .cc,
// explicitly instantiated for real_type, has this signature.
template<class T>
void from_json(nlohmann::json const& j, Tolerance<T>& value);
}  // namespace celeritas

using namespace celeritas;
using json = nlohmann::json;
using std::string;
using VecDbl = std::vector<double>;

//---------------------------------------------------------------------------//
// CJ parser / printer
//---------------------------------------------------------------------------//
static void put_utf8(string& out, unsigned cp)
{
    if (cp < 0x80)
        out += static_cast<char>(cp);
    else if (cp < 0x800)
    {
        out += static_cast<char>(0xc0 | (cp >> 6));
        out += static_cast<char>(0x80 | (cp & 0x3f));
    }
    else
    {
        out += static_cast<char>(0xe0 | (cp >> 12));
        out += static_cast<char>(0x80 | ((cp >> 6) & 0x3f));
        out += static_cast<char>(0x80 | (cp & 0x3f));
    }
}

struct CjParser
{
    string const& s;
    std::size_t i{0};

    bool lit(char const* w)
    {
        std::size_t n = std::strlen(w);
        if (s.compare(i, n, w) != 0)
            return false;
        i += n;
        return true;
    }
    bool eat(char c) { return i < s.size() && s[i] == c ? (++i, true) : false; }

    bool str(string& out)
    {
        if (!eat('"'))
            return false;
        out.clear();
        while (i < s.size() && s[i] != '"')
        {
            char c = s[i++];
            if (c != '\\')
            {
                out += c;
                continue;
            }
            if (i >= s.size())
                return false;
            char e = s[i++];
            std::uint64_t cp;
            if (e == '"' || e == '\\')
                out += e;
            else if (e == 'n')
                out += '\n';
            else if (e == 't')
                out += '\t';
            else if (e == 'u' && i + 4 <= s.size() && vh::parse_hex(s.substr(i, 4), &cp))
            {
                put_utf8(out, static_cast<unsigned>(cp));
                i += 4;
            }
            else
                return false;
        }
        return eat('"');
    }

    bool value(json& out, int depth = 0)
    {
        if (depth > 64 || i >= s.size())
            return false;
        char c = s[i];
        if (c == 'n')
            return out = nullptr, lit("null");
        if (c == 't')
            return out = true, lit("true");
        if (c == 'f')
            return out = false, lit("false");
        if (c == '#')
        {
            std::uint64_t u;
            if (i + 17 > s.size())
                return false;
            string h = s.substr(i + 1, 16);
            for (char d : h)
                if (!((d >= '0' && d <= '9') || (d >= 'a' && d <= 'f')))
                    return false;
            if (!vh::parse_hex(h, &u))
                return false;
            out = vh::bits_dbl(u);
            i += 17;
            return true;
        }
        if (c == '-' || (c >= '0' && c <= '9'))
        {
            bool neg = eat('-');
            std::size_t b = i;
            // magnitude limit: 2^64-1, or 2^63 for negatives
            std::uint64_t const lim = neg ? (1ull << 63) : ~0ull;
            std::uint64_t v = 0;
            for (; i < s.size() && s[i] >= '0' && s[i] <= '9'; ++i)
            {
                std::uint64_t d = static_cast<std::uint64_t>(s[i] - '0');
                if (v > (lim - d) / 10)
                    return false;
                v = v * 10 + d;
            }
            if (i == b)
                return false;
            if (neg)
                out = static_cast<std::int64_t>(~v + 1);
            else
                out = v;
            return true;
        }
        if (c == '"')
        {
            string t;
            if (!str(t))
                return false;
            out = std::move(t);
            return true;
        }
        if (c == '[')
        {
            ++i;
            out = json::array();
            if (eat(']'))
                return true;
            do
            {
                json e;
                if (!value(e, depth + 1))
                    return false;
                out.push_back(std::move(e));
            } while (eat(','));
            return eat(']');
        }
        if (c == '{')
        {
            ++i;
            out = json::object();
            if (eat('}'))
                return true;
            do
            {
                string k;
                json e;
                if (!str(k) || !eat(':') || !value(e, depth + 1))
                    return false;
                out[k] = std::move(e);  // duplicate key: last wins
            } while (eat(','));
            return eat('}');
        }
        return false;
    }
};

static bool parse_cj(string const& text, json& out)
{
    CjParser p{text};
    return p.value(out) && p.i == text.size();
}

static string cj_str(string const& s)
{
    string out = "\"";
    for (std::size_t i = 0; i < s.size();)
    {
        auto b = static_cast<unsigned char>(s[i]);
        unsigned cp = b;
        std::size_t n = 1;
        auto cont = [&](std::size_t k) {
            return i + k < s.size() && (static_cast<unsigned char>(s[i + k]) & 0xc0) == 0x80;
        };
        auto low = [&](std::size_t k) { return static_cast<unsigned char>(s[i + k]) & 0x3fu; };
        if (b >= 0xc0 && b < 0xe0 && cont(1))
        {
            cp = ((b & 0x1fu) << 6) | low(1);
            n = 2;
        }
        else if (b >= 0xe0 && b < 0xf0 && cont(1) && cont(2))
        {
            cp = ((b & 0x0fu) << 12) | (low(1) << 6) | low(2);
            n = 3;
        }
        i += n;
        if (cp == '"')
            out += "\\\"";
        else if (cp == '\\')
            out += "\\\\";
        else if (cp == '\n')
            out += "\\n";
        else if (cp == '\t')
            out += "\\t";
        else if (cp < 0x20 || cp > 0x7e)
            out += "\\u" + vh::hex(cp, 4);
        else
            out += static_cast<char>(cp);
    }
    return out + "\"";
}

static void cj_put(json const& j, string& out)
{
    switch (j.type())
    {
        case json::value_t::boolean:
            out += j.get<bool>() ? "true" : "false";
            break;
        case json::value_t::number_unsigned:
            out += std::to_string(j.get<std::uint64_t>());
            break;
        case json::value_t::number_integer:
            out += std::to_string(j.get<std::int64_t>());
            break;
        case json::value_t::number_float:
            out += "#" + vh::hexd(j.get<double>());
            break;
        case json::value_t::string:
            out += cj_str(j.get_ref<string const&>());
            break;
        case json::value_t::array: {
            out += '[';
            bool first = true;
            for (auto const& e : j)
            {
                if (!first)
                    out += ',';
                first = false;
                cj_put(e, out);
            }
            out += ']';
            break;
        }
        case json::value_t::object: {
            out += '{';
            bool first = true;
            for (auto it = j.begin(); it != j.end(); ++it)
            {
                if (!first)
                    out += ',';
                first = false;
                out += cj_str(it.key()) + ":";
                cj_put(it.value(), out);
            }
            out += '}';
            break;
        }
        default:
            out += "null";
    }
}

static string cj(json const& j)
{
    string out;
    cj_put(j, out);
    return out;
}

//---------------------------------------------------------------------------//
// S adapters (no to_json/from_json here)
//---------------------------------------------------------------------------//
static bool is_arr(json const& j, std::size_t n)
{
    return j.is_array() && j.size() == n;
}
static bool build_dbl(json const& j, double& d)
{
    return j.is_number_float() ? (d = j.get<double>(), true) : false;
}
// INT that fits in celeritas::size_type (std::size_t = 64 bit in a host-only build)
static bool build_sz(json const& j, size_type& v)
{
    if (!j.is_number_unsigned() || j.get<std::uint64_t>() > std::numeric_limits<size_type>::max())
        return false;
    v = static_cast<size_type>(j.get<std::uint64_t>());
    return true;
}
static bool build_str(json const& j, string& s)
{
    return j.is_string() ? (s = j.get<string>(), true) : false;
}
template<class T, class F>
static bool build_vec(json const& j, std::vector<T>& out, F&& f, T const& init = T{})
{
    if (!j.is_array())
        return false;
    out.clear();
    for (auto const& e : j)
    {
        T t = init;
        if (!f(e, t))
            return false;
        out.push_back(std::move(t));
    }
    return true;
}
template<class C, class F>
static json dump_seq(C const& c, F&& f)
{
    json out = json::array();
    for (auto const& e : c)
        out.push_back(f(e));
    return out;
}
static json arr(std::initializer_list<json> items)
{
    json out = json::array();
    for (auto const& e : items)
        out.push_back(e);
    return out;
}
static json dump_dbl(double d)
{
    return json(d);
}
static json dump_sz(size_type v)
{
    return json(static_cast<std::uint64_t>(v));
}
static bool build_dbls(json const& j, VecDbl& out)
{
    return build_vec(j, out, build_dbl);
}
static bool build_szs(json const& j, std::vector<size_type>& out)
{
    return build_vec(j, out, build_sz);
}

static bool build_Label(json const& j, Label& x)
{
    return is_arr(j, 2) && build_str(j[0], x.name) && build_str(j[1], x.ext);
}
static json dump_Label(Label const& x)
{
    return arr({x.name, x.ext});
}

static bool build_BBox(json const& j, BBox& x)
{
    Real3 p[2];
    if (!is_arr(j, 2))
        return false;
    for (int b = 0; b < 2; ++b)
    {
        if (!is_arr(j[b], 3))
            return false;
        for (int a = 0; a < 3; ++a)
            if (!build_dbl(j[b][a], p[b][a]))
                return false;
    }
    x = BBox::from_unchecked(p[0], p[1]);
    return true;
}
static json dump_BBox(BBox const& x)
{
    return arr({dump_seq(x.lower(), dump_dbl), dump_seq(x.upper(), dump_dbl)});
}

static bool build_Transform(json const& j, VariantTransform& x)
{
    VecDbl d;
    if (!build_dbls(j, d))
        return false;
    if (d.size() == 0)
        x = NoTransformation{};
    else if (d.size() == 3)
        x = Translation{Real3{d[0], d[1], d[2]}};
    else if (d.size() == 12)
        x = Transformation{Transformation::StorageSpan{d.data(), 12}};
    else
        return false;
    return true;
}
static json dump_Transform(VariantTransform const& x)
{
    return std::visit([](auto const& t) { return dump_seq(t.data(), dump_dbl); }, x);
}

static VariantSurface proto_surface()
{
    return VariantSurface{std::in_place_type<PlaneAligned<Axis::x>>, 0.0};
}
static bool build_Surface(json const& j, VariantSurface& x)
{
    string name;
    VecDbl d;
    if (!is_arr(j, 2) || !build_str(j[0], name) || !build_dbls(j[1], d))
        return false;
    for (auto st : range(SurfaceType::size_))
    {
        if (name != to_cstring(st))
            continue;
        if (st == SurfaceType::inv)
        {
            // visit_surface_type has no case for inv
            if (d.size() != Involute::StorageSpan::extent)
                return false;
            x.emplace<Involute>(Involute::StorageSpan{d.data(), d.size()});
            return true;
        }
        return visit_surface_type(
            [&](auto st_constant) {
                using Surface = typename decltype(st_constant)::type;
                using StorageSpan = typename Surface::StorageSpan;
                if (d.size() != StorageSpan::extent)
                    return false;
                x.template emplace<Surface>(StorageSpan{d.data(), d.size()});
                return true;
            },
            st);
    }
    return false;
}
static json dump_Surface(VariantSurface const& x)
{
    return std::visit(
        [](auto const& s) {
            return arr({string(to_cstring(s.surface_type())), dump_seq(s.data(), dump_dbl)});
        },
        x);
}

static bool build_OBZ(json const& j, OrientedBoundingZoneInput& x)
{
    size_type t;
    if (!is_arr(j, 3) || !build_BBox(j[0], x.inner) || !build_BBox(j[1], x.outer)
        || !build_sz(j[2], t))
        return false;
    x.transform_id = TransformId{t};
    return true;
}
static json dump_OBZ(OrientedBoundingZoneInput const& x)
{
    return arr({dump_BBox(x.inner), dump_BBox(x.outer), dump_sz(x.transform_id.unchecked_get())});
}

static bool build_Volume(json const& j, VolumeInput& x)
{
    std::vector<size_type> faces;
    size_type z;
    if (!is_arr(j, 7) || !build_Label(j[0], x.label) || !build_szs(j[1], faces)
        || !build_szs(j[2], x.logic) || !build_BBox(j[3], x.bbox) || !build_OBZ(j[4], x.obz)
        || !build_sz(j[5], x.flags) || !build_sz(j[6], z))
        return false;
    x.faces.clear();
    for (auto f : faces)
        x.faces.push_back(LocalSurfaceId{f});
    x.zorder = static_cast<ZOrder>(z);
    return true;
}
static json dump_Volume(VolumeInput const& x)
{
    return arr({dump_Label(x.label),
                dump_seq(x.faces, [](LocalSurfaceId f) { return dump_sz(f.unchecked_get()); }),
                dump_seq(x.logic, dump_sz),
                dump_BBox(x.bbox),
                dump_OBZ(x.obz),
                dump_sz(x.flags),
                dump_sz(static_cast<size_type>(x.zorder))});
}

static bool build_Daughter(json const& j, DaughterInput& x)
{
    size_type u;
    if (!is_arr(j, 2) || !build_sz(j[0], u) || !build_Transform(j[1], x.transform))
        return false;
    x.universe_id = UniverseId{u};
    return true;
}
static json dump_Daughter(DaughterInput const& x)
{
    return arr({dump_sz(x.universe_id.unchecked_get()), dump_Transform(x.transform)});
}

static bool build_Unit(json const& j, UnitInput& x)
{
    if (!is_arr(j, 7) || j[0] != "unit" || !build_Label(j[1], x.label)
        || !build_vec(j[2], x.surfaces, build_Surface, proto_surface())
        || !build_vec(j[3], x.volumes, build_Volume) || !build_BBox(j[4], x.bbox)
        || !j[5].is_array() || !build_vec(j[6], x.surface_labels, build_Label))
        return false;
    x.daughter_map.clear();
    for (auto const& e : j[5])
    {
        size_type lv;
        DaughterInput d;
        if (!is_arr(e, 2) || !build_sz(e[0], lv) || !build_Daughter(e[1], d))
            return false;
        x.daughter_map.emplace(LocalVolumeId{lv}, std::move(d));
    }
    return true;
}
static json dump_Unit(UnitInput const& x)
{
    return arr({"unit",
                dump_Label(x.label),
                dump_seq(x.surfaces, dump_Surface),
                dump_seq(x.volumes, dump_Volume),
                dump_BBox(x.bbox),
                dump_seq(x.daughter_map,
                         [](auto const& kv) {
                             return arr({dump_sz(kv.first.unchecked_get()),
                                         dump_Daughter(kv.second)});
                         }),
                dump_seq(x.surface_labels, dump_Label)});
}

static bool build_Rect(json const& j, RectArrayInput& x)
{
    if (!is_arr(j, 4) || j[0] != "rect" || !build_Label(j[1], x.label) || !is_arr(j[2], 3)
        || !build_vec(j[3], x.daughters, build_Daughter))
        return false;
    for (int a = 0; a < 3; ++a)
        if (!build_dbls(j[2][a], x.grid[a]))
            return false;
    return true;
}
static json dump_Rect(RectArrayInput const& x)
{
    return arr({"rect",
                dump_Label(x.label),
                dump_seq(x.grid, [](VecDbl const& g) { return dump_seq(g, dump_dbl); }),
                dump_seq(x.daughters, dump_Daughter)});
}

static bool build_Tol(json const& j, Tolerance<>& x)
{
    return is_arr(j, 2) && build_dbl(j[0], x.rel) && build_dbl(j[1], x.abs);
}
static json dump_Tol(Tolerance<> const& x)
{
    return arr({dump_dbl(x.rel), dump_dbl(x.abs)});
}

static bool build_Universe(json const& j, VariantUniverseInput& x)
{
    if (j.is_array() && !j.empty() && j[0] == "unit")
        return build_Unit(j, x.emplace<UnitInput>());
    if (j.is_array() && !j.empty() && j[0] == "rect")
        return build_Rect(j, x.emplace<RectArrayInput>());
    return false;
}
static bool build_Input(json const& j, OrangeInput& x)
{
    return is_arr(j, 2) && build_vec(j[0], x.universes, build_Universe) && build_Tol(j[1], x.tol);
}
static json dump_Input(OrangeInput const& x)
{
    auto dump_univ = [](VariantUniverseInput const& u) {
        if (auto const* unit = std::get_if<UnitInput>(&u))
            return dump_Unit(*unit);
        return dump_Rect(std::get<RectArrayInput>(u));
    };
    return arr({dump_seq(x.universes, dump_univ), dump_Tol(x.tol)});
}

//---------------------------------------------------------------------------//
// Ops
//---------------------------------------------------------------------------//
struct BadOp
{
};
struct Unreachable
{
};

// The real import_zipped_surfaces runs into __builtin_unreachable() for "inv": do not call it.
// (Set C19_CALL_UNREACHABLE=1 to call the real code anyway, in a throw-away process: used to
// show what the release build actually does on such input.)
static bool zipped_has_inv(json const& surfaces)
{
    static bool const call_anyway = std::getenv("C19_CALL_UNREACHABLE") != nullptr;
    if (call_anyway || !surfaces.is_object())
        return false;
    auto it = surfaces.find("types");
    if (it == surfaces.end() || !it->is_array())
        return false;
    for (auto const& t : *it)
        if (t.is_string() && t.get_ref<string const&>() == "inv")
            return true;
    return false;
}
static void guard_unit(json const& u)
{
    if (u.is_object() && u.contains("surfaces") && zipped_has_inv(u["surfaces"]))
        throw Unreachable{};
}
static void guard_input(json const& j)
{
    if (!j.is_object() || !j.contains("universes"))
        return;
    auto const& us = j["universes"];
    if (us.is_array() || us.is_object())
        for (auto const& u : us)
            guard_unit(u);
}

template<class X, class B>
static X built(json const& p, B&& build)
{
    X x;
    if (!build(p, x))
        throw BadOp{};
    return x;
}
static OrangeInput input_of(json const& p)
{
    return built<OrangeInput>(p, build_Input);
}
static json text_trip(json const& j)
{
    return json::parse(j.dump());
}

static json op_nav(json const& p)
{
    OrangeInput x = input_of(p);
    json j = x;
    json j2 = text_trip(j);
    guard_input(j2);
    OrangeInput x2 = j2.get<OrangeInput>();
    OrangeParams p1{OrangeInput(x)}, p2{std::move(x2)};

    using Store = CollectionStateStore<OrangeStateData, MemSpace::host>;
    Store s1(p1.host_ref(), 1), s2(p2.host_ref(), 1);

    // Start points inside the (clamped) outer bounding box
    Real3 lo = p1.bbox().lower(), hi = p1.bbox().upper();
    for (int a = 0; a < 3; ++a)
    {
        if (!(lo[a] > -1e3))
            lo[a] = -1e3;
        if (!(hi[a] < 1e3))
            hi[a] = 1e3;
    }
    std::uint64_t lcg = 0x9e3779b97f4a7c15ull;
    auto unit = [&lcg] {
        lcg = lcg * 6364136223846793005ull + 1442695040888963407ull;
        return static_cast<double>(lcg >> 11) / 9007199254740992.0;
    };
    using Trace = std::vector<std::pair<size_type, std::uint64_t>>;
    auto track = [](OrangeParams const& params, Store& store, GeoTrackInitializer const& init) {
        Trace out;
        OrangeTrackView tv(params.host_ref(), store.ref(), TrackSlotId{0});
        tv = init;
        for (int step = 0; step < 200 && !tv.is_outside(); ++step)
        {
            auto prop = tv.find_next_step();
            out.emplace_back(tv.volume_id().unchecked_get(), vh::dbl_bits(prop.distance));
            if (!prop.boundary)
                break;
            tv.move_to_boundary();
            tv.cross_boundary();
        }
        out.emplace_back(tv.is_outside() ? ~size_type(0) : tv.volume_id().unchecked_get(), 0);
        return out;
    };
    std::uint64_t nsteps = 0;
    for (int ray = 0; ray < 128; ++ray)
    {
        GeoTrackInitializer init;
        for (int a = 0; a < 3; ++a)
            init.pos[a] = lo[a] + (hi[a] - lo[a]) * unit();
        double mu = 2 * unit() - 1, phi = 6.283185307179586 * unit();
        double st = std::sqrt(1 - mu * mu);
        init.dir = {st * std::cos(phi), st * std::sin(phi), mu};
        Trace t1 = track(p1, s1, init), t2 = track(p2, s2, init);
        if (t1 != t2)
            return arr({"diff", static_cast<std::uint64_t>(ray)});
        nsteps += t1.size() - 1;
    }
    return arr({"same", nsteps});
}

using OpFn = std::function<json(json const&)>;

//---------------------------------------------------------------------------//
// `proto "<scenario>"`: build an OrangeInput through the CONSTRUCTION API (orangeinp:
// UnitProto + InputBuilder) and dump it as an Input S, so that the check can push
// construction-API-built inputs through enc/rt/nav like any other input.
namespace cproto
{
using namespace celeritas::orangeinp;
using SPObj = std::shared_ptr<ObjectInterface const>;
using SPProto = std::shared_ptr<ProtoInterface const>;

static SPObj sph(string l, double r)
{
    return std::make_shared<SphereShape>(std::move(l), celeritas::orangeinp::Sphere{r});
}
static SPObj cyl(string l, double r, double hh)
{
    return std::make_shared<CylinderShape>(std::move(l), celeritas::orangeinp::Cylinder{r, hh});
}
static SPObj tr(SPObj o, Real3 const& t)
{
    return std::make_shared<Transformed>(std::move(o), Translation{t});
}
static SPObj box(string l, Real3 const& lo, Real3 const& hi)
{
    Real3 hw{(hi[0] - lo[0]) / 2, (hi[1] - lo[1]) / 2, (hi[2] - lo[2]) / 2};
    Real3 c{(hi[0] + lo[0]) / 2, (hi[1] + lo[1]) / 2, (hi[2] + lo[2]) / 2};
    SPObj b = std::make_shared<BoxShape>(std::move(l), celeritas::orangeinp::Box{hw});
    if (c[0] != 0 || c[1] != 0 || c[2] != 0)
        b = tr(std::move(b), c);
    return b;
}
static UnitProto::MaterialInput mat(SPObj o, unsigned m, Label lab = {})
{
    UnitProto::MaterialInput r;
    r.interior = std::move(o);
    r.fill = GeoMaterialId{m};
    r.label = std::move(lab);
    return r;
}
static SPProto leaf(string label, double r)
{
    UnitProto::Input inp;
    inp.boundary.interior = sph(label + ":ext", r);
    inp.background.fill = GeoMaterialId{0};
    inp.label = std::move(label);
    return std::make_shared<UnitProto>(std::move(inp));
}

static SPProto scenario(string const& name)
{
    UnitProto::Input inp;
    if (name == "spheres")
    {
        inp.boundary.interior = sph("bound", 10.0);
        inp.boundary.zorder = ZOrder::media;
        inp.label = "global";
        auto inner = sph("inner", 5.0);
        inp.materials.push_back(mat(
            make_rdv("shell", {{Sense::inside, inp.boundary.interior}, {Sense::outside, inner}}), 1));
        inp.materials.push_back(mat(inner, 2));
    }
    else if (name == "bgspheres")
    {
        inp.boundary.interior = sph("bound", 10.0);
        inp.label = "global";
        inp.materials.push_back(mat(tr(sph("top", 2.0), {0, 0, 3}), 1));
        inp.materials.push_back(mat(tr(sph("bottom", 3.0), {0, 0, -3}), 2));
        inp.background.fill = GeoMaterialId{3};
    }
    else if (name == "boxes-cyls")
    {
        // boxes, a cylinder and a sphere with an explicit remainder
        auto world = box("world", {-10, -10, -10}, {10, 10, 10});
        auto b1 = box("b1", {-8, -8, -8}, {-2, -2, 8});
        auto c1 = tr(cyl("c1", 2.0, 6.0), {4, 4, 0});
        auto s1 = tr(sph("s1", 2.5), {4, -4, 0});
        inp.boundary.interior = world;
        inp.boundary.zorder = ZOrder::media;
        inp.label = "global";
        inp.materials.push_back(mat(b1, 1, Label{"box", "1"}));
        inp.materials.push_back(mat(c1, 2));
        inp.materials.push_back(mat(s1, 3));
        inp.materials.push_back(mat(make_rdv("rest",
                                             {{Sense::inside, world},
                                              {Sense::outside, b1},
                                              {Sense::outside, c1},
                                              {Sense::outside, s1}}),
                                    4));
    }
    else if (name == "daughters")
    {
        // translated and rotated daughter universes, background fill
        auto lf = std::make_shared<UnitProto>([] {
            UnitProto::Input i;
            i.boundary.interior = cyl("bound", 1.0, 1.0);
            i.boundary.zorder = ZOrder::media;
            i.label = "leafy";
            i.materials.push_back(mat(tr(cyl("bottom", 1, 0.5), {0, 0, -0.5}), 1));
            i.materials.push_back(mat(tr(cyl("top", 1, 0.5), {0, 0, 0.5}), 2));
            return i;
        }());
        inp.boundary.interior = sph("bound", 10.0);
        inp.boundary.zorder = ZOrder::exterior;
        inp.label = "global";
        inp.materials.push_back(mat(tr(sph("leaf1", 1), {0, 0, -5}), 1));
        inp.materials.push_back(mat(tr(box("leaf2", {-1, -1, -1}, {1, 1, 1}), {0, 0, 5}), 2));
        inp.daughters.push_back({leaf("d1", 1.0), Translation{{0, 5, 0}}});
        inp.daughters.push_back(
            {leaf("d2", 1.5), Transformation{make_rotation(Axis::x, Turn{0.25}), {0, -5, 0}}});
        inp.daughters.push_back(
            {lf, Transformation{make_rotation(Axis::z, Turn{0.125}), {5, 0, 0}}});
        inp.daughters.push_back({lf, Translation{{-5, 0, 0}}});
        inp.background.fill = GeoMaterialId{3};
    }
    else if (name == "labels-at")
    {
        // labels a user can pass: '@' in the unit name, in a material label without ext, in
        // an object name (-> surface labels) and in a material label's ext
        inp.boundary.interior = sph("bound@world", 10.0);
        inp.boundary.zorder = ZOrder::media;
        inp.label = "global@v2";
        auto inner = sph("in@ner", 5.0);
        inp.materials.push_back(
            mat(make_rdv("shell", {{Sense::inside, inp.boundary.interior}, {Sense::outside, inner}}),
                1, Label{"fuel@pin"}));
        inp.materials.push_back(mat(inner, 2, Label{"clad", "a@b"}));
    }
    else if (name == "empty-region")
    {
        // a material whose region is the intersection of two disjoint boxes
        auto world = box("world", {-10, -10, -10}, {10, 10, 10});
        auto a = box("a", {-8, -8, -8}, {-2, -2, -2});
        auto b = box("b", {2, 2, 2}, {8, 8, 8});
        inp.boundary.interior = world;
        inp.label = "global";
        inp.materials.push_back(mat(make_rdv("nothing", {{Sense::inside, a}, {Sense::inside, b}}), 1));
        inp.materials.push_back(mat(a, 2));
        inp.background.fill = GeoMaterialId{3};
    }
    else
    {
        throw BadOp{};
    }
    return std::make_shared<UnitProto>(std::move(inp));
}
}  // namespace cproto

static json op_proto(json const& p)
{
    if (!p.is_string())
        throw BadOp{};
    auto global = cproto::scenario(p.get<string>());
    // non-default tolerance (InputBuilder expects a valid one)
    celeritas::orangeinp::InputBuilder build_input([] {
        celeritas::orangeinp::InputBuilder::Options o;
        o.tol = Tolerance<>::from_relative(1e-6, 1.0);
        return o;
    }());
    OrangeInput x = build_input(*global);
    return dump_Input(x);
}

static std::map<string, OpFn> const& ops()
{
    static std::map<string, OpFn> const table = {
        {"enc", [](json const& p) { return json(input_of(p)); }},
        {"enct", [](json const& p) { return text_trip(json(input_of(p))); }},
        {"dec",
         [](json const& p) {
             guard_input(p);
             OrangeInput x;
             p.get_to(x);
             return dump_Input(x);
         }},
        {"rt",
         [](json const& p) {
             json j2 = text_trip(json(input_of(p)));
             guard_input(j2);
             return dump_Input(j2.get<OrangeInput>());
         }},
        {"rtm",
         [](json const& p) {
             json j = input_of(p);
             guard_input(j);
             return dump_Input(j.get<OrangeInput>());
         }},
        {"lab2s", [](json const& p) { return json(to_string(built<Label>(p, build_Label))); }},
        {"s2lab",
         [](json const& p) {
             if (!p.is_string())
                 throw BadOp{};
             Label x;
             celeritas::from_json(p, x);
             return dump_Label(x);
         }},
        {"bbenc", [](json const& p) { return json(built<BBox>(p, build_BBox)); }},
        {"bbdec",
         [](json const& p) {
             BBox b;
             celeritas::from_json(p, b);
             return dump_BBox(b);
         }},
        {"logenc",
         [](json const& p) {
             return json(detail::logic_to_string(built<std::vector<logic_int>>(p, build_szs)));
         }},
        {"logdec",
         [](json const& p) {
             if (!p.is_string())
                 throw BadOp{};
             return dump_seq(detail::string_to_logic(p.get<string>()), dump_sz);
         }},
        {"trenc",
         [](json const& p) {
             return detail::export_transform(built<VariantTransform>(p, build_Transform));
         }},
        {"trdec", [](json const& p) { return dump_Transform(detail::import_transform(p)); }},
        {"tolenc", [](json const& p) { return json(built<Tolerance<>>(p, build_Tol)); }},
        {"toldec",
         [](json const& p) {
             Tolerance<> t;
             p.get_to(t);
             return dump_Tol(t);
         }},
        {"volenc", [](json const& p) { return json(built<VolumeInput>(p, build_Volume)); }},
        {"voldec",
         [](json const& p) {
             VolumeInput v;
             celeritas::from_json(p, v);
             return dump_Volume(v);
         }},
        {"surfenc",
         [](json const& p) {
             std::vector<VariantSurface> v;
             if (!build_vec(p, v, build_Surface, proto_surface()))
                 throw BadOp{};
             return detail::export_zipped_surfaces(v);
         }},
        {"surfdec",
         [](json const& p) {
             if (zipped_has_inv(p))
                 throw Unreachable{};
             return dump_seq(detail::import_zipped_surfaces(p), dump_Surface);
         }},
        {"unitenc",
         [](json const& p) {
             json j = json::object();
             celeritas::to_json(j, built<UnitInput>(p, build_Unit));
             return j;
         }},
        {"unitdec",
         [](json const& p) {
             guard_unit(p);
             UnitInput u;
             celeritas::from_json(p, u);
             return dump_Unit(u);
         }},
        {"rectenc",
         [](json const& p) {
             json j = json::object();
             celeritas::to_json(j, built<RectArrayInput>(p, build_Rect));
             return j;
         }},
        {"rectdec",
         [](json const& p) {
             RectArrayInput r;
             celeritas::from_json(p, r);
             return dump_Rect(r);
         }},
        {"nav", op_nav},
        {"proto", op_proto},
    };
    return table;
}

static string run_line(string const& line)
{
    auto sp = line.find(' ');
    if (sp == string::npos)
        return "bad-op";
    string op = line.substr(0, sp), payload = line.substr(sp + 1);
    try
    {
        if (op == "load")
        {
            std::ifstream in(payload);
            return "ok " + cj(json::parse(in));
        }
        auto it = ops().find(op);
        json p;
        if (it == ops().end() || !parse_cj(payload, p))
            return "bad-op";
        json result = it->second(p);
        if (op == "nav")
            return "ok " + result[0].get<string>() + " "
                   + std::to_string(result[1].get<std::uint64_t>());
        return "ok " + cj(result);
    }
    catch (BadOp const&)
    {
        return "bad-op";
    }
    catch (Unreachable const&)
    {
        return "err unreachable";
    }
    catch (RuntimeError const&)
    {
        return "err validate";
    }
    catch (DebugError const&)
    {
        return "err debug";
    }
    catch (json::exception const&)
    {
        return "err json";
    }
    catch (std::exception const&)
    {
        return "err other";
    }
    catch (...)
    {
        return "err other";
    }
}

int main()
{
    std::ios::sync_with_stdio(false);
    string line;
    while (std::getline(std::cin, line))
    {
        std::cout << run_line(line) << "\n";
        if (std::getenv("C19_CALL_UNREACHABLE"))
            std::cout.flush();
    }
    std::cout.flush();
    return 0;
}
