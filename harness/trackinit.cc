// C02 / C16 harness (H3): drives the REAL ExtendFromPrimariesAction, InitializeTracksAction,
// pre-step action, InteractionApplier (with a scripted interactor allocating from the real
// secondary StackAllocator), tracking-cut action, ExtendFromSecondariesAction and
// CoreState::reset on a real CoreState built from SimpleTestBase.  Same one-op-per-line
// protocol as lean/CelerVerif/Model/TrackInitDriver.lean; all numbers decimal.
//
//   config <slots> <capacity> <maxEvents> <order 0..7> <stackcap>
//     order: 0 none, 1 init_charge, 2 reindex_shuffle, 3 reindex_status, 4 reindex_particle_type,
//            5 reindex_along_step_action, 6 reindex_step_limit_action, 7 reindex_both_action
//     (for 3..7 the real SortTracksAction(s) are run where the Stepper runs them)
//   insert <ev>:<particle>:<pos> ...      efp   init   pre   cut   efs   reset   reseed
//   interact <spec_0> ... <spec_{slots-1}>   spec = a|k|u|e followed by g/e/x per secondary
//   stepper <maxEvents> <slots> <ev> ...   real Stepper::operator()(primaries) on a fresh plain
//                                          problem: is the event id validated against max_events?
#include <cmath>
#include <cstdlib>
#include <array>
#include <memory>
#include <vector>

#include "corecel/data/CollectionAlgorithms.hh"
#include "corecel/data/Ref.hh"
#include "corecel/sys/ActionRegistry.hh"
#include "celeritas/SimpleTestBase.hh"
#include "celeritas/global/ActionInterface.hh"
#include "celeritas/global/CoreParams.hh"
#include "celeritas/global/CoreState.hh"
#include "celeritas/global/CoreTrackData.hh"
#include "celeritas/global/CoreTrackView.hh"
#include "celeritas/global/ActionLauncher.hh"
#include "celeritas/global/Stepper.hh"
#include "celeritas/global/TrackExecutor.hh"
#include "celeritas/grid/ValueGridBuilder.hh"
#include "celeritas/phys/InteractionApplier.hh"
#include "celeritas/phys/Model.hh"
#include "celeritas/phys/PhysicsParams.hh"
#include "celeritas/phys/Process.hh"
#include "celeritas/phys/ParticleView.hh"
#include "celeritas/phys/Primary.hh"
#include "celeritas/track/ExtendFromPrimariesAction.hh"
#include "celeritas/track/ExtendFromSecondariesAction.hh"
#include "celeritas/track/InitializeTracksAction.hh"
#include "celeritas/track/SortTracksAction.hh"
#include "celeritas/track/TrackInitParams.hh"

#include "common/lineio.hh"

using namespace celeritas;
using celeritas::test::SimpleTestBase;

namespace
{
constexpr double pos_unit = 0.01;
constexpr unsigned long outside_tag = 0x1000;

double tag_to_x(unsigned long tag)
{
    return tag < outside_tag ? pos_unit * tag : 1000.0 + pos_unit * (tag - outside_tag);
}
unsigned long x_to_tag(double x)
{
    return x < 100.0 ? std::lround(x / pos_unit)
                     : outside_tag + std::lround((x - 1000.0) / pos_unit);
}

struct SlotScript
{
    char kind = 'a';
    std::string secs;
};

// what the scripted models write for the oracle (shared with main)
struct Board
{
    std::vector<SlotScript> script;
    std::vector<char> alloc_failed;  // allocation returned null in the sampled interaction
    std::vector<char> touched_b;  // the secondary-free model B was applied to this slot
};

// scripted interactor, written like the real ones: allocate first, fail when out of memory
struct ScriptedInteractor
{
    Board* board;
    Interaction operator()(CoreTrackView const& track) const
    {
        auto slot = track.track_slot_id().unchecked_get();
        auto const& sc = board->script[slot];
        if (sc.kind == 'u')
            return Interaction::from_unchanged();
        Span<Secondary> secondaries;
        if (!sc.secs.empty())
        {
            auto allocate = track.make_physics_step_view().make_secondary_allocator();
            Secondary* p = allocate(static_cast<size_type>(sc.secs.size()));
            if (!p)
            {
                board->alloc_failed[slot] = 1;
                return Interaction::from_failure();
            }
            secondaries = {p, sc.secs.size()};
            for (std::size_t j = 0; j < sc.secs.size(); ++j)
            {
                if (sc.secs[j] == 'x')
                {
                    p[j] = {};  // as InteractionApplier does for a secondary below the cut
                    continue;
                }
                p[j].particle_id = ParticleId(sc.secs[j] == 'g' ? 0 : 1);
                p[j].energy = units::MevEnergy(5.);
                p[j].direction = {1., 0., 0.};
            }
        }
        Interaction result = sc.kind == 'k' ? Interaction::from_absorption() : Interaction{};
        if (sc.kind != 'k')
        {
            result.energy = track.make_particle_view().energy();
            result.direction = track.make_geo_view().dir();
            result.action = Interaction::Action::scattered;
        }
        result.secondaries = secondaries;
        return result;
    }
};

// an interaction that needs no secondaries (like Rayleigh scattering): turns the track to +y
struct NoSecondaryInteractor
{
    Board* board;
    Interaction operator()(CoreTrackView const& track) const
    {
        board->touched_b[track.track_slot_id().unchecked_get()] = 1;
        Interaction result;
        result.energy = track.make_particle_view().energy();
        result.direction = {0., 1., 0.};
        result.action = Interaction::Action::scattered;
        return result;
    }
};

// Two real physics models registered through PhysicsParams (so that model ids, the
// `physics-failure` action and `failure_action()` are the real ones): model A samples the
// scripted interaction with the real InteractionApplier / StackAllocator, model B (the LAST
// model) needs no secondaries.
class ScriptModel final : public Model
{
  public:
    ScriptModel(ActionId id, bool is_b, std::shared_ptr<Board> board)
        : id_(id), is_b_(is_b), board_(std::move(board))
    {
    }
    SetApplicability applicability() const final
    {
        Applicability a;
        a.particle = ParticleId{0};
        a.lower = units::MevEnergy{is_b_ ? 1e2 : 1e-4};
        a.upper = units::MevEnergy{is_b_ ? 1e8 : 1e2};
        return {a};
    }
    MicroXsBuilders micro_xs(Applicability) const final { return {}; }
    void step(CoreParams const& params, CoreStateHost& state) const final
    {
        if (is_b_)
        {
            auto execute = make_action_track_executor(
                params.ptr<MemSpace::native>(),
                state.ptr(),
                id_,
                InteractionApplier{NoSecondaryInteractor{board_.get()}});
            launch_action(*this, params, state, execute);
        }
        else
        {
            auto execute = make_action_track_executor(
                params.ptr<MemSpace::native>(),
                state.ptr(),
                id_,
                InteractionApplier{ScriptedInteractor{board_.get()}});
            launch_action(*this, params, state, execute);
        }
    }
    void step(CoreParams const&, CoreStateDevice&) const final {}
    ActionId action_id() const final { return id_; }
    std::string_view label() const final { return is_b_ ? "script-b" : "script-a"; }
    std::string_view description() const final { return "scripted model"; }

  private:
    ActionId id_;
    bool is_b_;
    std::shared_ptr<Board> board_;
};

class ScriptProcess final : public Process
{
  public:
    explicit ScriptProcess(std::shared_ptr<Board> board) : board_(std::move(board)) {}
    VecModel build_models(ActionIdIter start_id) const final
    {
        VecModel result;
        result.push_back(std::make_shared<ScriptModel>(*start_id++, false, board_));
        result.push_back(std::make_shared<ScriptModel>(*start_id++, true, board_));
        return result;
    }
    StepLimitBuilders step_limits(Applicability applic) const final
    {
        StepLimitBuilders builders;
        builders[ValueGridType::macro_xs] = std::make_unique<ValueGridLogBuilder>(
            applic.lower.value(), applic.upper.value(), std::vector<double>{1e-3, 1e-3});
        return builders;
    }
    bool use_integral_xs() const final { return false; }
    std::string_view label() const final { return "script"; }

  private:
    std::shared_ptr<Board> board_;
};

class Fix : public SimpleTestBase
{
  public:
    Fix(size_type cap, size_type maxev, TrackOrder order, real_type factor)
        : cap_(cap), maxev_(maxev), order_(order), factor_(factor)
    {
        this->disable_status_checker();
    }
    void TestBody() override {}
    SPConstTrackInit build_init() override
    {
        TrackInitParams::Input input;
        input.capacity = cap_;
        input.max_events = maxev_;
        input.track_order = order_;
        return std::make_shared<TrackInitParams>(input);
    }
    real_type secondary_stack_factor() const override { return factor_; }
    SPConstPhysics build_physics() override
    {
        PhysicsParams::Input input;
        input.options.secondary_stack_factor = factor_;
        input.particles = this->particle();
        input.materials = this->material();
        input.processes = {std::make_shared<ScriptProcess>(board)};
        input.action_registry = this->action_reg().get();
        return std::make_shared<PhysicsParams>(std::move(input));
    }
    std::shared_ptr<Board> board = std::make_shared<Board>();

    std::shared_ptr<CoreStepActionInterface const> find(std::string const& label)
    {
        auto aid = this->action_reg()->find_action(label);
        if (!aid)
            return nullptr;
        return std::dynamic_pointer_cast<CoreStepActionInterface const>(
            this->action_reg()->action(aid));
    }

  private:
    size_type cap_, maxev_;
    TrackOrder order_;
    real_type factor_;
};

// plain SimpleTestBase problem (Compton in Al) for the real Stepper: event-id validation
class PlainFix : public SimpleTestBase
{
  public:
    explicit PlainFix(size_type maxev) : maxev_(maxev) { this->disable_status_checker(); }
    void TestBody() override {}
    SPConstTrackInit build_init() override
    {
        TrackInitParams::Input input;
        input.capacity = 4096;
        input.max_events = maxev_;
        input.track_order = TrackOrder::none;
        return std::make_shared<TrackInitParams>(input);
    }

  private:
    size_type maxev_;
};

struct World
{
    std::unique_ptr<Fix> fix;
    std::unique_ptr<CoreState<MemSpace::host>> state;
    std::shared_ptr<CoreStepActionInterface const> init, pre, cut, efs;
    std::vector<std::shared_ptr<CoreStepActionInterface const>> sorts;
    std::vector<std::shared_ptr<CoreStepActionInterface const>> posts;  // post-step, by id
    ActionId model_a, failure_id;
    size_type slots = 0, maxev = 0;
    bool poisoned = false;
};

template<class I>
long id_to_int(I id)
{
    return id ? static_cast<long>(id.unchecked_get()) : -1;
}

std::string dump(World& w)
{
    auto& st = *w.state;
    auto const& ref = st.ref();
    auto const& params = w.fix->core()->host_ref();
    auto const& c = st.counters();
    std::string out = " | S";
    for (auto i : range(TrackSlotId{w.slots}))
    {
        auto status = ref.sim.status[i];
        if (status == TrackStatus::inactive)
        {
            out += " -";
            continue;
        }
        char sc = status == TrackStatus::initializing ? 'i'
                  : status == TrackStatus::alive      ? 'a'
                  : status == TrackStatus::errored    ? 'e'
                                                      : 'k';
        CoreTrackView track(params, ref, i);
        auto geo = track.make_geo_view();
        auto par = track.make_particle_view();
        out += " ";
        out += sc;
        out += std::to_string(id_to_int(ref.sim.track_ids[i])) + "/"
               + std::to_string(id_to_int(ref.sim.parent_ids[i])) + "/"
               + std::to_string(id_to_int(ref.sim.event_ids[i])) + "/"
               + std::to_string(ref.sim.num_steps[i]) + "/"
               + std::to_string(id_to_int(par.particle_id())) + "/"
               + std::to_string(x_to_tag(geo.pos()[0])) + ":";
        // an `initializing`/`errored`-at-init slot still holds the span of a previous occupant (points into the
        // recycled secondary stack) until pre-step clears it: not printed
        PhysicsStepView step(params.physics, ref.physics, i);
        if (status == TrackStatus::alive || status == TrackStatus::killed)
        for (auto const& s : step.secondaries())
        {
            out += !s ? 'x' : s.particle_id.unchecked_get() == 0 ? 'g' : 'e';
        }
    }
    out += " | V";
    for (auto i : range(TrackSlotId{c.num_vacancies}))
        out += " " + std::to_string(id_to_int(ref.init.vacancies[i]));
    out += " | I";
    // after a failed capacity check num_initializers exceeds the storage: never read past it
    // (then the valid ones are those that existed before the failed end-of-step action)
    for (auto i : range(ItemId<TrackInitializer>{
             c.num_initializers <= ref.init.initializers.size()
                 ? c.num_initializers
                 : c.num_initializers - c.num_secondaries}))
    {
        auto const& ti = ref.init.initializers[i];
        out += " " + std::to_string(id_to_int(ti.sim.track_id)) + "/"
               + std::to_string(id_to_int(ti.sim.parent_id)) + "/"
               + std::to_string(id_to_int(ti.sim.event_id)) + "/"
               + std::to_string(id_to_int(ti.particle.particle_id)) + "/"
               + std::to_string(x_to_tag(ti.geo.pos[0]));
    }
    out += " | P";
    for (auto i : range(TrackSlotId{w.slots}))
        out += " " + std::to_string(id_to_int(ref.init.parents[i]));
    out += " | C " + std::to_string(c.num_generated) + " " + std::to_string(c.num_initializers)
           + " " + std::to_string(c.num_vacancies) + " " + std::to_string(c.num_active) + " "
           + std::to_string(c.num_secondaries) + " " + std::to_string(c.num_alive);
    out += " | T";
    for (auto e : range(EventId{w.maxev}))
        out += " " + std::to_string(ref.init.track_counters[e]);
    return out;
}

bool parse_dec(std::string const& s, unsigned long* out)
{
    if (s.empty() || s.size() > 9)
        return false;
    unsigned long v = 0;
    for (char ch : s)
    {
        if (ch < '0' || ch > '9')
            return false;
        v = v * 10 + (ch - '0');
    }
    *out = v;
    return true;
}

}  // namespace

int main()
{
    setenv("CELER_LOG", "critical", 1);
    setenv("CELER_LOG_LOCAL", "critical", 1);
    setenv("CELER_DISABLE_PARALLEL", "1", 1);
    World w;
    std::string line;
    while (std::getline(std::cin, line))
    {
        auto t = vh::words(line);
        std::string res;
        try
        {
            if (t.empty())
            {
                res = "bad-op";
            }
            else if (t[0] == "config")
            {
                unsigned long a[5];
                bool ok = t.size() == 6;
                for (int i = 0; ok && i < 5; ++i)
                    ok = parse_dec(t[i + 1], &a[i]);
                if (!ok || a[0] < 1 || a[0] > 256 || a[1] < 1 || a[1] > 100000 || a[2] < 1
                    || a[2] > 64 || a[3] > 7 || a[4] > 100000)
                {
                    res = "bad-op";
                }
                else
                {
                    w.state.reset();
                    w.fix.reset();
                    // capacity = size_type(slots * factor)
                    real_type factor = (a[4] + 0.5) / static_cast<real_type>(a[0]);
                    w.fix = std::make_unique<Fix>(
                        a[1], a[2],
                        std::array<TrackOrder, 8>{TrackOrder::none,
                                                  TrackOrder::init_charge,
                                                  TrackOrder::reindex_shuffle,
                                                  TrackOrder::reindex_status,
                                                  TrackOrder::reindex_particle_type,
                                                  TrackOrder::reindex_along_step_action,
                                                  TrackOrder::reindex_step_limit_action,
                                                  TrackOrder::reindex_both_action}[a[3]],
                        factor);
                    w.slots = a[0];
                    w.maxev = a[2];
                    w.poisoned = false;
                    w.state = std::make_unique<CoreState<MemSpace::host>>(
                        *w.fix->core(), StreamId{0}, w.slots);
                    w.init = w.fix->find("initialize-tracks");
                    w.pre = w.fix->find("pre-step");
                    w.cut = w.fix->find("tracking-cut");
                    w.efs = w.fix->find("extend-from-secondaries");
                    w.sorts.clear();
                    w.posts.clear();
                    {
                        auto const& reg = *w.fix->action_reg();
                        for (auto aid : range(ActionId{reg.num_actions()}))
                        {
                            if (auto sp = std::dynamic_pointer_cast<SortTracksAction const>(
                                    reg.action(aid)))
                                w.sorts.push_back(sp);
                            // every registered post-step action, in id order (as
                            // ActionSequence runs them); the tracking cut is the `cut` op
                            auto st = std::dynamic_pointer_cast<CoreStepActionInterface const>(
                                reg.action(aid));
                            if (st && st->order() == StepActionOrder::post
                                && st->label() != "tracking-cut")
                                w.posts.push_back(st);
                        }
                        // ids looked up BY LABEL in the registry, never computed the way
                        // PhysicsParamsScalars does
                        w.model_a = reg.find_action("script-a");
                        w.failure_id = reg.find_action("physics-failure");
                    }
                    if (!w.init || !w.pre || !w.cut || !w.efs || !w.model_a || !w.failure_id)
                    {
                        std::cout << "config missing-action\n";
                        continue;
                    }
                    auto const& pp = w.fix->core()->host_ref().particles;
                    bool n0 = ParticleView(pp, ParticleId{0}).charge() == zero_quantity();
                    bool n1 = ParticleView(pp, ParticleId{1}).charge() == zero_quantity();
                    res = "config ok stack "
                          + std::to_string(w.state->ref().physics.secondaries.capacity())
                          + " neutral " + (n0 ? "1" : "0") + (n1 ? "1" : "0") + dump(w);
                }
            }
            else if (t[0] == "stepper" && t.size() >= 4 && t.size() <= 19)
            {
                unsigned long maxev = 0, slots = 0;
                bool ok = parse_dec(t[1], &maxev) && parse_dec(t[2], &slots) && maxev >= 1
                          && maxev <= 64 && slots >= 1 && slots <= 64;
                std::vector<Primary> prims;
                for (std::size_t i = 3; ok && i < t.size(); ++i)
                {
                    unsigned long ev = 0;
                    // up to 10 digits: ids far beyond max_events ("huge")
                    ok = !t[i].empty() && t[i].size() <= 10
                         && t[i].find_first_not_of("0123456789") == std::string::npos;
                    if (ok)
                    {
                        ev = std::stoul(t[i]);
                        ok = ev < 4294967295ul;
                    }
                    if (ok)
                    {
                        Primary p;
                        p.particle_id = ParticleId{0};
                        p.energy = units::MevEnergy(1.0);
                        p.position = {0, 0, 0};
                        p.direction = {0, 0, 1};
                        p.time = 0;
                        p.event_id = EventId(static_cast<size_type>(ev));
                        prims.push_back(p);
                    }
                }
                if (!ok)
                {
                    res = "bad-op";
                }
                else
                {
                    PlainFix fix(static_cast<size_type>(maxev));
                    StepperInput inp;
                    inp.params = fix.core();
                    inp.stream_id = StreamId{0};
                    inp.num_track_slots = static_cast<size_type>(slots);
                    Stepper<MemSpace::host> step(inp);
                    try
                    {
                        auto r = step(make_span(prims));
                        res = "stepper ok generated=" + std::to_string(r.generated)
                              + " active=" + std::to_string(r.active);
                    }
                    catch (RuntimeError const& e)
                    {
                        std::string m = e.what();
                        res = m.find("exceeds max_events") != std::string::npos
                                  ? "stepper error-max-events"
                                  : "stepper error-other";
                    }
                }
            }
            else if (!w.state)
            {
                res = "bad-op";
            }
            else if (t[0] == "reset" && t.size() == 1)
            {
                w.state->reset();
                w.poisoned = false;
                res = "reset ok" + dump(w);
            }
            else if (t[0] == "recover" && t.size() == 1)
            {
                // reset exactly when a capacity error left the state unusable
                if (w.poisoned)
                {
                    w.state->reset();
                    w.poisoned = false;
                    res = "recover reset" + dump(w);
                }
                else
                {
                    res = "recover noop" + dump(w);
                }
            }
            else if (w.poisoned)
            {
                res = "bad-op";
            }
            else if (t[0] == "insert")
            {
                std::vector<Primary> prims;
                bool ok = true;
                for (std::size_t i = 1; ok && i < t.size(); ++i)
                {
                    auto p1 = t[i].find(':');
                    auto p2 = t[i].find(':', p1 == std::string::npos ? p1 : p1 + 1);
                    unsigned long ev, par, pos;
                    ok = p1 != std::string::npos && p2 != std::string::npos
                         && parse_dec(t[i].substr(0, p1), &ev)
                         && parse_dec(t[i].substr(p1 + 1, p2 - p1 - 1), &par)
                         && parse_dec(t[i].substr(p2 + 1), &pos) && ev < w.maxev && par < 2
                         && pos < 2 * outside_tag;
                    if (ok)
                    {
                        Primary p;
                        p.particle_id = ParticleId(par);
                        p.energy = units::MevEnergy(1 + 0.5 * i);
                        p.position = {tag_to_x(pos), 0, 0};
                        p.direction = {0, 0, 1};
                        p.time = 0;
                        p.event_id = EventId(ev);
                        prims.push_back(p);
                    }
                }
                if (!ok)
                {
                    res = "bad-op";
                }
                else
                {
                    try
                    {
                        w.fix->insert_primaries(*w.state, make_span(prims));
                        res = "insert ok";
                    }
                    catch (RuntimeError const& e)
                    {
                        res = std::string("insert ")
                              + (e.details().which == RuntimeError::not_impl_err_str
                                     ? "error-not-implemented"
                                     : "error-capacity");
                    }
                    res += dump(w);
                }
            }
            else if (t[0] == "efp" && t.size() == 1)
            {
                w.fix->primaries_action()->step(*w.fix->core(), *w.state);
                res = "efp ok" + dump(w);
            }
            else if (t[0] == "init" && t.size() == 1)
            {
                w.init->step(*w.fix->core(), *w.state);
                // the Stepper runs the sort actions of order sort_start right after
                for (auto const& sa : w.sorts)
                    if (sa->order() == StepActionOrder::sort_start)
                        sa->step(*w.fix->core(), *w.state);
                res = "init ok" + dump(w);
            }
            else if (t[0] == "pre" && t.size() == 1)
            {
                w.pre->step(*w.fix->core(), *w.state);
                for (auto const& sa : w.sorts)
                    if (sa->order() == StepActionOrder::sort_pre
                        || sa->order() == StepActionOrder::sort_pre_post)
                        sa->step(*w.fix->core(), *w.state);
                res = "pre ok" + dump(w);
            }
            else if (t[0] == "cut" && t.size() == 1)
            {
                w.cut->step(*w.fix->core(), *w.state);
                res = "cut ok" + dump(w);
            }
            else if (t[0] == "efs" && t.size() == 1)
            {
                try
                {
                    w.efs->step(*w.fix->core(), *w.state);
                    res = "efs ok";
                }
                catch (RuntimeError const& e)
                {
                    w.poisoned = true;
                    res = "efs error-capacity";
                }
                res += dump(w);
            }
            else if (t[0] == "reseed" && t.size() == 1)
            {
                w.fix->core()->init()->reset_track_ids(StreamId{0}, &w.state->ref().init);
                res = "reseed ok" + dump(w);
            }
            else if (t[0] == "interact" && t.size() == w.slots + 1)
            {
                std::vector<SlotScript> script(w.slots);
                bool ok = true;
                for (size_type i = 0; ok && i < w.slots; ++i)
                {
                    auto const& s = t[i + 1];
                    script[i].kind = s[0];
                    script[i].secs = s.substr(1);
                    ok = (s[0] == 'a' || s[0] == 'k' || s[0] == 'u' || s[0] == 'e')
                         && s.find_first_not_of("gex", 1) == std::string::npos
                         && (s.size() == 1 || (s[0] != 'u' && s[0] != 'e'));
                }
                if (!ok)
                {
                    res = "bad-op";
                }
                else
                {
                    auto const& params = w.fix->core()->host_ref();
                    auto& ref = w.state->ref();
                    auto& board = *w.fix->board;
                    board.script = script;
                    board.alloc_failed.assign(w.slots, 0);
                    board.touched_b.assign(w.slots, 0);
                    struct Snap
                    {
                        bool valid = false;
                        real_type e = 0, dep = 0;
                        Real3 dir{0, 0, 0}, pos{0, 0, 0};
                        TrackStatus st = TrackStatus::inactive;
                    };
                    std::vector<Snap> snap(w.slots);
                    // along-step + discrete selection, emulated: every valid track takes a step
                    // and is handed to model A (the model that needs secondaries)
                    for (auto i : range(TrackSlotId{w.slots}))
                    {
                        CoreTrackView track(params, ref, i);
                        auto sim = track.make_sim_view();
                        if (!is_track_valid(sim.status()))
                            continue;
                        sim.increment_num_steps();
                        if (script[i.get()].kind == 'e')
                        {
                            track.apply_errored();
                            continue;
                        }
                        auto& sn = snap[i.get()];
                        sn.valid = true;
                        sn.e = track.make_particle_view().energy().value();
                        sn.dir = track.make_geo_view().dir();
                        sn.pos = track.make_geo_view().pos();
                        sn.dep = track.make_physics_step_view().energy_deposition().value();
                        sn.st = sim.status();
                        sim.post_step_action(w.model_a);
                    }
                    // the REAL post-step actions of the registry, in id order
                    for (auto const& act : w.posts)
                        act->step(*w.fix->core(), *w.state);
                    // impl-side oracle of C16
                    std::string failed, broken, wrong, foreign;
                    auto add = [](std::string& s, std::string const& x) {
                        s += (s.empty() ? "" : ",") + x;
                    };
                    for (auto i : range(TrackSlotId{w.slots}))
                    {
                        auto k = i.get();
                        if (board.touched_b[k])
                            add(foreign, std::to_string(k));
                        if (!board.alloc_failed[k])
                            continue;
                        add(failed, std::to_string(k));
                        CoreTrackView track(params, ref, i);
                        auto sim = track.make_sim_view();
                        auto par = track.make_particle_view();
                        auto geo = track.make_geo_view();
                        auto phys = track.make_physics_step_view();
                        auto const& sn = snap[k];
                        if (sim.post_step_action() != w.failure_id)
                        {
                            add(wrong,
                                std::to_string(k) + "="
                                    + std::to_string(id_to_int(sim.post_step_action())) + "/"
                                    + std::to_string(id_to_int(w.failure_id)));
                        }
                        bool same = sn.valid && par.energy().value() == sn.e
                                    && geo.dir() == sn.dir && geo.pos() == sn.pos
                                    && phys.energy_deposition().value() == sn.dep
                                    && sim.status() == sn.st && phys.secondaries().empty()
                                    && sim.step_length() == 0;
                        if (!same)
                            add(broken, std::to_string(k));
                    }
                    res = "interact F:" + (failed.empty() ? "-" : failed) + " stack "
                          + std::to_string(
                              ref.physics.secondaries.size[ItemId<size_type>{0}]);
                    if (!wrong.empty())
                        res += " FAILED-WRONG-ACTION:" + wrong;
                    if (!broken.empty())
                        res += " FAILED-NOT-NOOP:" + broken;
                    if (!foreign.empty())
                        res += " FOREIGN-MODEL-APPLIED:" + foreign;
                    res += dump(w);
                }
            }
            else
            {
                res = "bad-op";
            }
        }
        catch (std::exception const& e)
        {
            std::string m = e.what();
            for (auto& ch : m)
                if (ch == '\n')
                    ch = ' ';
            res = "exception " + m.substr(0, 200);
        }
        std::cout << res << "\n";
    }
    return 0;
}
