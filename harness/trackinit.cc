// C02 / C16 harness (H3): drives the REAL ExtendFromPrimariesAction, InitializeTracksAction,
// pre-step action, InteractionApplier (with a scripted interactor allocating from the real
// secondary StackAllocator), tracking-cut action, ExtendFromSecondariesAction and
// CoreState::reset on a real CoreState built from SimpleTestBase.  Same one-op-per-line
// protocol as lean/CelerVerif/Model/TrackInitDriver.lean; all numbers decimal.
//
//   config <slots> <capacity> <maxEvents> <order 0..7> <stackcap>
//     order: 0 none, 1 init_charge, 2 reindex_shuffle, 3 reindex_status, 4 reindex_particle_type,
//            5 reindex_along_step_action, 6 reindex_step_limit_action, 7 reindex_both_action
//     (for 3..7 the real SortTracksAction(s) are run where the Stepper runs them)
//   insert <ev>:<particle>:<pos> ...      efp   init   pre   cut   efs   reset   reseed
//   interact <spec_0> ... <spec_{slots-1}>   spec = a|k|u|e followed by g/e/x per secondary
#include <cmath>
#include <cstdlib>
#include <array>
#include <memory>
#include <vector>

#include "corecel/data/CollectionAlgorithms.hh"
#include "corecel/data/Ref.hh"
#include "corecel/sys/ActionRegistry.hh"
#include "celeritas/SimpleTestBase.hh"
#include "celeritas/global/ActionInterface.hh"
#include "celeritas/global/CoreParams.hh"
#include "celeritas/global/CoreState.hh"
#include "celeritas/global/CoreTrackData.hh"
#include "celeritas/global/CoreTrackView.hh"
#include "celeritas/phys/InteractionApplier.hh"
#include "celeritas/phys/ParticleView.hh"
#include "celeritas/phys/Primary.hh"
#include "celeritas/track/ExtendFromPrimariesAction.hh"
#include "celeritas/track/ExtendFromSecondariesAction.hh"
#include "celeritas/track/InitializeTracksAction.hh"
#include "celeritas/track/SortTracksAction.hh"
#include "celeritas/track/TrackInitParams.hh"

#include "common/lineio.hh"

using namespace celeritas;
using celeritas::test::SimpleTestBase;

namespace
{
constexpr double pos_unit = 0.01;
constexpr unsigned long outside_tag = 0x1000;

double tag_to_x(unsigned long tag)
{
    return tag < outside_tag ? pos_unit * tag : 1000.0 + pos_unit * (tag - outside_tag);
}
unsigned long x_to_tag(double x)
{
    return x < 100.0 ? std::lround(x / pos_unit)
                     : outside_tag + std::lround((x - 1000.0) / pos_unit);
}

class Fix : public SimpleTestBase
{
  public:
    Fix(size_type cap, size_type maxev, TrackOrder order, real_type factor)
        : cap_(cap), maxev_(maxev), order_(order), factor_(factor)
    {
        this->disable_status_checker();
    }
    void TestBody() override {}
    SPConstTrackInit build_init() override
    {
        TrackInitParams::Input input;
        input.capacity = cap_;
        input.max_events = maxev_;
        input.track_order = order_;
        return std::make_shared<TrackInitParams>(input);
    }
    real_type secondary_stack_factor() const override { return factor_; }

    std::shared_ptr<CoreStepActionInterface const> find(std::string const& label)
    {
        auto aid = this->action_reg()->find_action(label);
        if (!aid)
            return nullptr;
        return std::dynamic_pointer_cast<CoreStepActionInterface const>(
            this->action_reg()->action(aid));
    }

  private:
    size_type cap_, maxev_;
    TrackOrder order_;
    real_type factor_;
};

struct SlotScript
{
    char kind = 'a';
    std::string secs;
};

struct World
{
    std::unique_ptr<Fix> fix;
    std::unique_ptr<CoreState<MemSpace::host>> state;
    std::shared_ptr<CoreStepActionInterface const> init, pre, cut, efs;
    std::vector<std::shared_ptr<CoreStepActionInterface const>> sorts;
    size_type slots = 0, maxev = 0;
    bool poisoned = false;
};

template<class I>
long id_to_int(I id)
{
    return id ? static_cast<long>(id.unchecked_get()) : -1;
}

std::string dump(World& w)
{
    auto& st = *w.state;
    auto const& ref = st.ref();
    auto const& params = w.fix->core()->host_ref();
    auto const& c = st.counters();
    std::string out = " | S";
    for (auto i : range(TrackSlotId{w.slots}))
    {
        auto status = ref.sim.status[i];
        if (status == TrackStatus::inactive)
        {
            out += " -";
            continue;
        }
        char sc = status == TrackStatus::initializing ? 'i'
                  : status == TrackStatus::alive      ? 'a'
                  : status == TrackStatus::errored    ? 'e'
                                                      : 'k';
        CoreTrackView track(params, ref, i);
        auto geo = track.make_geo_view();
        auto par = track.make_particle_view();
        out += " ";
        out += sc;
        out += std::to_string(id_to_int(ref.sim.track_ids[i])) + "/"
               + std::to_string(id_to_int(ref.sim.parent_ids[i])) + "/"
               + std::to_string(id_to_int(ref.sim.event_ids[i])) + "/"
               + std::to_string(ref.sim.num_steps[i]) + "/"
               + std::to_string(id_to_int(par.particle_id())) + "/"
               + std::to_string(x_to_tag(geo.pos()[0])) + ":";
        // an `initializing`/`errored`-at-init slot still holds the span of a previous occupant (points into the
        // recycled secondary stack) until pre-step clears it: not printed
        PhysicsStepView step(params.physics, ref.physics, i);
        if (status == TrackStatus::alive || status == TrackStatus::killed)
        for (auto const& s : step.secondaries())
        {
            out += !s ? 'x' : s.particle_id.unchecked_get() == 0 ? 'g' : 'e';
        }
    }
    out += " | V";
    for (auto i : range(TrackSlotId{c.num_vacancies}))
        out += " " + std::to_string(id_to_int(ref.init.vacancies[i]));
    out += " | I";
    // after a failed capacity check num_initializers exceeds the storage: never read past it
    // (then the valid ones are those that existed before the failed end-of-step action)
    for (auto i : range(ItemId<TrackInitializer>{
             c.num_initializers <= ref.init.initializers.size()
                 ? c.num_initializers
                 : c.num_initializers - c.num_secondaries}))
    {
        auto const& ti = ref.init.initializers[i];
        out += " " + std::to_string(id_to_int(ti.sim.track_id)) + "/"
               + std::to_string(id_to_int(ti.sim.parent_id)) + "/"
               + std::to_string(id_to_int(ti.sim.event_id)) + "/"
               + std::to_string(id_to_int(ti.particle.particle_id)) + "/"
               + std::to_string(x_to_tag(ti.geo.pos[0]));
    }
    out += " | P";
    for (auto i : range(TrackSlotId{w.slots}))
        out += " " + std::to_string(id_to_int(ref.init.parents[i]));
    out += " | C " + std::to_string(c.num_generated) + " " + std::to_string(c.num_initializers)
           + " " + std::to_string(c.num_vacancies) + " " + std::to_string(c.num_active) + " "
           + std::to_string(c.num_secondaries) + " " + std::to_string(c.num_alive);
    out += " | T";
    for (auto e : range(EventId{w.maxev}))
        out += " " + std::to_string(ref.init.track_counters[e]);
    return out;
}

bool parse_dec(std::string const& s, unsigned long* out)
{
    if (s.empty() || s.size() > 9)
        return false;
    unsigned long v = 0;
    for (char ch : s)
    {
        if (ch < '0' || ch > '9')
            return false;
        v = v * 10 + (ch - '0');
    }
    *out = v;
    return true;
}

// scripted interactor, written like the real ones: allocate first, fail when out of memory
struct ScriptedInteractor
{
    SlotScript const* script;
    Interaction operator()(CoreTrackView const& track) const
    {
        auto const& sc = script[track.track_slot_id().unchecked_get()];
        if (sc.kind == 'u')
            return Interaction::from_unchanged();
        Span<Secondary> secondaries;
        if (!sc.secs.empty())
        {
            auto allocate = track.make_physics_step_view().make_secondary_allocator();
            Secondary* p = allocate(static_cast<size_type>(sc.secs.size()));
            if (!p)
                return Interaction::from_failure();
            secondaries = {p, sc.secs.size()};
            for (std::size_t j = 0; j < sc.secs.size(); ++j)
            {
                if (sc.secs[j] == 'x')
                {
                    p[j] = {};  // as InteractionApplier does for a secondary below the cut
                    continue;
                }
                p[j].particle_id = ParticleId(sc.secs[j] == 'g' ? 0 : 1);
                p[j].energy = units::MevEnergy(5.);
                p[j].direction = {1., 0., 0.};
            }
        }
        Interaction result = sc.kind == 'k' ? Interaction::from_absorption() : Interaction{};
        if (sc.kind != 'k')
        {
            result.energy = track.make_particle_view().energy();
            result.direction = track.make_geo_view().dir();
            result.action = Interaction::Action::scattered;
        }
        result.secondaries = secondaries;
        return result;
    }
};
}  // namespace

int main()
{
    setenv("CELER_LOG", "critical", 1);
    setenv("CELER_LOG_LOCAL", "critical", 1);
    setenv("CELER_DISABLE_PARALLEL", "1", 1);
    World w;
    std::string line;
    while (std::getline(std::cin, line))
    {
        auto t = vh::words(line);
        std::string res;
        try
        {
            if (t.empty())
            {
                res = "bad-op";
            }
            else if (t[0] == "config")
            {
                unsigned long a[5];
                bool ok = t.size() == 6;
                for (int i = 0; ok && i < 5; ++i)
                    ok = parse_dec(t[i + 1], &a[i]);
                if (!ok || a[0] < 1 || a[0] > 256 || a[1] < 1 || a[1] > 100000 || a[2] < 1
                    || a[2] > 64 || a[3] > 7 || a[4] > 100000)
                {
                    res = "bad-op";
                }
                else
                {
                    w.state.reset();
                    w.fix.reset();
                    // capacity = size_type(slots * factor)
                    real_type factor = (a[4] + 0.5) / static_cast<real_type>(a[0]);
                    w.fix = std::make_unique<Fix>(
                        a[1], a[2],
                        std::array<TrackOrder, 8>{TrackOrder::none,
                                                  TrackOrder::init_charge,
                                                  TrackOrder::reindex_shuffle,
                                                  TrackOrder::reindex_status,
                                                  TrackOrder::reindex_particle_type,
                                                  TrackOrder::reindex_along_step_action,
                                                  TrackOrder::reindex_step_limit_action,
                                                  TrackOrder::reindex_both_action}[a[3]],
                        factor);
                    w.slots = a[0];
                    w.maxev = a[2];
                    w.poisoned = false;
                    w.state = std::make_unique<CoreState<MemSpace::host>>(
                        *w.fix->core(), StreamId{0}, w.slots);
                    w.init = w.fix->find("initialize-tracks");
                    w.pre = w.fix->find("pre-step");
                    w.cut = w.fix->find("tracking-cut");
                    w.efs = w.fix->find("extend-from-secondaries");
                    w.sorts.clear();
                    {
                        auto const& reg = *w.fix->action_reg();
                        for (auto aid : range(ActionId{reg.num_actions()}))
                        {
                            if (auto sp = std::dynamic_pointer_cast<SortTracksAction const>(
                                    reg.action(aid)))
                                w.sorts.push_back(sp);
                        }
                    }
                    if (!w.init || !w.pre || !w.cut || !w.efs)
                    {
                        std::cout << "config missing-action\n";
                        continue;
                    }
                    auto const& pp = w.fix->core()->host_ref().particles;
                    bool n0 = ParticleView(pp, ParticleId{0}).charge() == zero_quantity();
                    bool n1 = ParticleView(pp, ParticleId{1}).charge() == zero_quantity();
                    res = "config ok stack "
                          + std::to_string(w.state->ref().physics.secondaries.capacity())
                          + " neutral " + (n0 ? "1" : "0") + (n1 ? "1" : "0") + dump(w);
                }
            }
            else if (!w.state)
            {
                res = "bad-op";
            }
            else if (t[0] == "reset" && t.size() == 1)
            {
                w.state->reset();
                w.poisoned = false;
                res = "reset ok" + dump(w);
            }
            else if (t[0] == "recover" && t.size() == 1)
            {
                // reset exactly when a capacity error left the state unusable
                if (w.poisoned)
                {
                    w.state->reset();
                    w.poisoned = false;
                    res = "recover reset" + dump(w);
                }
                else
                {
                    res = "recover noop" + dump(w);
                }
            }
            else if (w.poisoned)
            {
                res = "bad-op";
            }
            else if (t[0] == "insert")
            {
                std::vector<Primary> prims;
                bool ok = true;
                for (std::size_t i = 1; ok && i < t.size(); ++i)
                {
                    auto p1 = t[i].find(':');
                    auto p2 = t[i].find(':', p1 == std::string::npos ? p1 : p1 + 1);
                    unsigned long ev, par, pos;
                    ok = p1 != std::string::npos && p2 != std::string::npos
                         && parse_dec(t[i].substr(0, p1), &ev)
                         && parse_dec(t[i].substr(p1 + 1, p2 - p1 - 1), &par)
                         && parse_dec(t[i].substr(p2 + 1), &pos) && ev < w.maxev && par < 2
                         && pos < 2 * outside_tag;
                    if (ok)
                    {
                        Primary p;
                        p.particle_id = ParticleId(par);
                        p.energy = units::MevEnergy(1 + 0.5 * i);
                        p.position = {tag_to_x(pos), 0, 0};
                        p.direction = {0, 0, 1};
                        p.time = 0;
                        p.event_id = EventId(ev);
                        prims.push_back(p);
                    }
                }
                if (!ok)
                {
                    res = "bad-op";
                }
                else
                {
                    try
                    {
                        w.fix->insert_primaries(*w.state, make_span(prims));
                        res = "insert ok";
                    }
                    catch (RuntimeError const& e)
                    {
                        res = std::string("insert ")
                              + (e.details().which == RuntimeError::not_impl_err_str
                                     ? "error-not-implemented"
                                     : "error-capacity");
                    }
                    res += dump(w);
                }
            }
            else if (t[0] == "efp" && t.size() == 1)
            {
                w.fix->primaries_action()->step(*w.fix->core(), *w.state);
                res = "efp ok" + dump(w);
            }
            else if (t[0] == "init" && t.size() == 1)
            {
                w.init->step(*w.fix->core(), *w.state);
                // the Stepper runs the sort actions of order sort_start right after
                for (auto const& sa : w.sorts)
                    if (sa->order() == StepActionOrder::sort_start)
                        sa->step(*w.fix->core(), *w.state);
                res = "init ok" + dump(w);
            }
            else if (t[0] == "pre" && t.size() == 1)
            {
                w.pre->step(*w.fix->core(), *w.state);
                for (auto const& sa : w.sorts)
                    if (sa->order() == StepActionOrder::sort_pre
                        || sa->order() == StepActionOrder::sort_pre_post)
                        sa->step(*w.fix->core(), *w.state);
                res = "pre ok" + dump(w);
            }
            else if (t[0] == "cut" && t.size() == 1)
            {
                w.cut->step(*w.fix->core(), *w.state);
                res = "cut ok" + dump(w);
            }
            else if (t[0] == "efs" && t.size() == 1)
            {
                try
                {
                    w.efs->step(*w.fix->core(), *w.state);
                    res = "efs ok";
                }
                catch (RuntimeError const& e)
                {
                    w.poisoned = true;
                    res = "efs error-capacity";
                }
                res += dump(w);
            }
            else if (t[0] == "reseed" && t.size() == 1)
            {
                w.fix->core()->init()->reset_track_ids(StreamId{0}, &w.state->ref().init);
                res = "reseed ok" + dump(w);
            }
            else if (t[0] == "interact" && t.size() == w.slots + 1)
            {
                std::vector<SlotScript> script(w.slots);
                bool ok = true;
                for (size_type i = 0; ok && i < w.slots; ++i)
                {
                    auto const& s = t[i + 1];
                    script[i].kind = s[0];
                    script[i].secs = s.substr(1);
                    ok = (s[0] == 'a' || s[0] == 'k' || s[0] == 'u' || s[0] == 'e')
                         && s.find_first_not_of("gex", 1) == std::string::npos
                         && (s.size() == 1 || (s[0] != 'u' && s[0] != 'e'));
                }
                if (!ok)
                {
                    res = "bad-op";
                }
                else
                {
                    auto const& params = w.fix->core()->host_ref();
                    auto& ref = w.state->ref();
                    std::string failed, broken;
                    InteractionApplier apply{ScriptedInteractor{script.data()}};
                    for (auto i : range(TrackSlotId{w.slots}))
                    {
                        CoreTrackView track(params, ref, i);
                        auto sim = track.make_sim_view();
                        if (!is_track_valid(sim.status()))
                            continue;
                        sim.increment_num_steps();  // what the along-step action does
                        if (script[i.get()].kind == 'e')
                        {
                            track.apply_errored();
                            continue;
                        }
                        // snapshot for the impl-side oracle of C16 (failed interaction = no-op)
                        auto par = track.make_particle_view();
                        auto geo = track.make_geo_view();
                        auto phys = track.make_physics_step_view();
                        auto e0 = par.energy().value();
                        auto d0 = geo.dir();
                        auto p0 = geo.pos();
                        auto dep0 = phys.energy_deposition().value();
                        auto st0 = sim.status();
                        auto sz0 = phys.make_secondary_allocator().get().size();
                        apply(track);
                        bool is_failed
                            = sim.post_step_action()
                              == track.make_physics_view().scalars().failure_action();
                        if (is_failed)
                        {
                            failed += (failed.empty() ? "" : ",") + std::to_string(i.get());
                            bool same = par.energy().value() == e0 && geo.dir() == d0
                                        && geo.pos() == p0
                                        && phys.energy_deposition().value() == dep0
                                        && sim.status() == st0 && phys.secondaries().empty()
                                        && phys.make_secondary_allocator().get().size() == sz0
                                        && sim.step_length() == 0;
                            if (!same)
                                broken += (broken.empty() ? "" : ",") + std::to_string(i.get());
                        }
                    }
                    res = "interact F:" + (failed.empty() ? "-" : failed) + " stack "
                          + std::to_string(
                              ref.physics.secondaries.size[ItemId<size_type>{0}]);
                    if (!broken.empty())
                        res += " FAILED-NOT-NOOP:" + broken;
                    res += dump(w);
                }
            }
            else
            {
                res = "bad-op";
            }
        }
        catch (std::exception const& e)
        {
            std::string m = e.what();
            for (auto& ch : m)
                if (ch == '\n')
                    ch = ' ';
            res = "exception " + m.substr(0, 200);
        }
        std::cout << res << "\n";
    }
    return 0;
}
