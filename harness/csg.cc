// C10 harness: drives the REAL CsgTree / CsgTreeUtils / NodeSimplifier / DeMorganSimplifier /
// PostfixLogicBuilder / InternalSurfaceFlagger / SenseEvaluator / LogicEvaluator (LogicStack) /
// calc_max_depth (UnitInserter.cc) with the same one-op-per-line protocol as
// lean/CelerVerif/Model/CsgDriver.lean.  One output line per input line.
//
// Ops (decimal ids; node spec = true | false | surface k | negated n | aliased n |
//      join and|or n1 n2 ...):
//   reset | dump | insert <spec> | exchange n <spec> | volume n | simplify n | simplifyup s |
//   simplifyall s | replace key T|F | demorgan | demorganx (no precondition check, forked) | postfix n | postfixm n | flag n | infix n |
//   eval n <hexbits> | evalpost n <hexbits> | tt n k | ttpost n k | logic <tok...> ; <hexbits>
//   infixlogic <tok...> ; <hexbits>   (tok also `(` `)`; explicit infix grammar only)
//   infixof n | ttinfix n k           (infix encoding of a node by the harness' own encoder --
//                                      there is no C++ builder -- evaluated by the REAL InfixEvaluator)
// Tree-changing ops answer "<result> # <dump>".
#include <algorithm>
#include <sys/wait.h>
#include <unistd.h>
#include <exception>
#include <optional>
#include <variant>

#include "corecel/Assert.hh"
#include "corecel/cont/Span.hh"
#include "orange/OrangeTypes.hh"
#include "orange/orangeinp/CsgTree.hh"
#include "orange/orangeinp/CsgTreeUtils.hh"
#include "orange/orangeinp/CsgTypes.hh"
#include "orange/orangeinp/detail/InternalSurfaceFlagger.hh"
#include "orange/orangeinp/detail/PostfixLogicBuilder.hh"
#include "orange/orangeinp/detail/SenseEvaluator.hh"
#include "orange/surf/PlaneAligned.hh"
#include "orange/surf/VariantSurface.hh"
#include "orange/univ/detail/InfixEvaluator.hh"
#include "orange/univ/detail/LogicEvaluator.hh"

// The real `calc_max_depth` lives in an anonymous namespace of UnitInserter.cc: compile that
// translation unit into the harness so the function itself (not a copy) is called.
#include "orange/detail/UnitInserter.cc"

#include "common/lineio.hh"

using namespace celeritas;
using namespace celeritas::orangeinp;
using celeritas::orangeinp::detail::InternalSurfaceFlagger;
using celeritas::orangeinp::detail::PostfixLogicBuilder;
using celeritas::orangeinp::detail::SenseEvaluator;

namespace
{
constexpr std::size_t max_surface = 64;

struct ShowNode
{
    std::string operator()(True const&) const { return "T"; }
    std::string operator()(False const&) const { return "F"; }
    std::string operator()(Aliased const& a) const
    {
        return ">" + std::to_string(a.node.unchecked_get());
    }
    std::string operator()(Negated const& n) const
    {
        return "~" + std::to_string(n.node.unchecked_get());
    }
    std::string operator()(Surface const& s) const
    {
        return "S" + std::to_string(s.id.unchecked_get());
    }
    std::string operator()(Joined const& j) const
    {
        std::string out = (j.op == op_and ? "&(" : j.op == op_or ? "|(" : "?(");
        bool first = true;
        for (auto n : j.nodes)
        {
            if (!first)
                out += ",";
            first = false;
            out += std::to_string(n.unchecked_get());
        }
        return out + ")";
    }
};

std::string show(Node const& n)
{
    return std::visit(ShowNode{}, n);
}

std::string dump(CsgTree const& t)
{
    std::string out = "nodes";
    for (size_type i = 0; i < t.size(); ++i)
    {
        out += " " + std::to_string(i) + ":" + show(t[NodeId{i}]);
    }
    out += " vols";
    for (auto v : t.volumes())
    {
        out += " " + std::to_string(v.unchecked_get());
    }
    return out;
}

bool parse_dec(std::string const& w, std::size_t* out)
{
    if (w.empty() || w.size() > 9)
        return false;
    std::size_t v = 0;
    for (char c : w)
    {
        if (c < '0' || c > '9')
            return false;
        v = v * 10 + static_cast<std::size_t>(c - '0');
    }
    *out = v;
    return true;
}

// node spec from words[begin..]; children must be < bound
std::optional<Node>
parse_node(std::vector<std::string> const& w, std::size_t b, std::size_t bound)
{
    std::size_t n = w.size() - b;
    std::size_t v;
    if (n == 1 && w[b] == "true")
        return Node{True{}};
    if (n == 1 && w[b] == "false")
        return Node{False{}};
    if (n == 2 && w[b] == "surface" && parse_dec(w[b + 1], &v) && v < max_surface)
        return Node{Surface{LocalSurfaceId{static_cast<size_type>(v)}}};
    if (n == 2 && w[b] == "negated" && parse_dec(w[b + 1], &v) && v < bound)
        return Node{Negated{NodeId{static_cast<size_type>(v)}}};
    if (n == 2 && w[b] == "aliased" && parse_dec(w[b + 1], &v) && v < bound)
        return Node{Aliased{NodeId{static_cast<size_type>(v)}}};
    if (n >= 2 && w[b] == "join" && (w[b + 1] == "and" || w[b + 1] == "or"))
    {
        Joined j;
        j.op = (w[b + 1] == "and" ? op_and : op_or);
        for (std::size_t i = b + 2; i < w.size(); ++i)
        {
            if (!parse_dec(w[i], &v) || v >= bound)
                return std::nullopt;
            j.nodes.push_back(NodeId{static_cast<size_type>(v)});
        }
        return Node{std::move(j)};
    }
    return std::nullopt;
}

std::string show_tok(logic_int v)
{
    switch (v)
    {
        case logic::ltrue:
            return "*";
        case logic::lor:
            return "|";
        case logic::land:
            return "&";
        case logic::lnot:
            return "~";
        case logic::lopen:
            return "(";
        case logic::lclose:
            return ")";
        default:
            return std::to_string(v);
    }
}

// SenseEvaluator needs real surfaces and a point: surface s is the plane x = (bit s ? -1 : +1)
// and the point is the origin, so the point is "outside" (positive side) of surface s exactly
// when bit s is set.  A Surface node is true iff the point is outside.
bool eval_sense(CsgTree const& tree, NodeId n, std::uint64_t bits)
{
    std::vector<VariantSurface> surfaces;
    surfaces.reserve(max_surface);
    for (std::size_t s = 0; s < max_surface; ++s)
    {
        surfaces.emplace_back(PlaneX{((bits >> s) & 1u) ? real_type(-1) : real_type(1)});
    }
    SenseEvaluator eval(tree, surfaces, Real3{0, 0, 0});
    return eval(n) == SignedSense::inside;
}

// Real LogicEvaluator (LogicStack) on `logic` with values[face] = bit(faces[face])
bool eval_logic(std::vector<logic_int> const& lgc,
                std::vector<LocalSurfaceId> const& faces,
                std::uint64_t bits)
{
    std::vector<Sense> values(std::max<std::size_t>(faces.size(), 1));
    for (std::size_t f = 0; f < faces.size(); ++f)
    {
        values[f] = to_sense(((bits >> faces[f].unchecked_get()) & 1u) != 0);
    }
    celeritas::detail::LogicEvaluator eval(
        LdgSpan<logic_int const>{lgc.data(), lgc.size()});
    return eval(make_span(values));
}

std::string hex_of_bits(std::vector<bool> const& bs)
{
    std::string out;
    for (std::size_t i = 0; i < bs.size(); i += 4)
    {
        unsigned d = 0;
        for (std::size_t j = 0; j < 4 && i + j < bs.size(); ++j)
        {
            d |= static_cast<unsigned>(bs[i + j]) << j;
        }
        out += "0123456789abcdef"[d];
    }
    return out;
}


// ---- explicit infix notation (InfixEvaluator.hh): grammar check and tree encoder -------------
// E ::= A | A (lor A)+ | A (land A)+ ; A ::= face | lnot face | ltrue | lopen E lclose
// Malformed input is undefined behaviour in the release-build evaluator, so it is rejected here
// (mirrors `infixWellFormed` of lean/CelerVerif/Model/CsgInfix.lean).
bool wf_chain(std::vector<logic_int> const& t, std::size_t& pos);

bool wf_atom(std::vector<logic_int> const& t, std::size_t& pos)
{
    if (pos >= t.size())
        return false;
    logic_int tok = t[pos];
    if (!logic::is_operator_token(tok))
    {
        ++pos;
        return tok < max_surface;
    }
    if (tok == logic::ltrue)
    {
        ++pos;
        return true;
    }
    if (tok == logic::lnot)
    {
        if (pos + 1 >= t.size() || logic::is_operator_token(t[pos + 1])
            || t[pos + 1] >= max_surface)
            return false;
        pos += 2;
        return true;
    }
    if (tok == logic::lopen)
    {
        ++pos;
        if (!wf_chain(t, pos) || pos >= t.size() || t[pos] != logic::lclose)
            return false;
        ++pos;
        return true;
    }
    return false;
}

bool wf_chain(std::vector<logic_int> const& t, std::size_t& pos)
{
    logic_int op = 0;
    while (true)
    {
        if (!wf_atom(t, pos))
            return false;
        if (pos >= t.size())
            return true;
        logic_int o = t[pos];
        if ((o == logic::lor || o == logic::land) && (op == 0 || op == o))
        {
            op = o;
            ++pos;
            continue;
        }
        return true;
    }
}

bool infix_well_formed(std::vector<logic_int> const& t)
{
    std::size_t pos = 0;
    return wf_chain(t, pos) && pos == t.size();
}

// REAL InfixEvaluator with eval_sense(face) = bit `face` of bits
bool eval_infix(std::vector<logic_int> const& lgc, std::uint64_t bits)
{
    celeritas::detail::InfixEvaluator eval(
        LdgSpan<logic_int const>{lgc.data(), lgc.size()});
    return eval([bits](FaceId f) {
        return ((bits >> f.unchecked_get()) & 1u) != 0;
    });
}

// Harness-side encoder of a node into explicit infix notation (mirrors `infixOf`):
// nullopt for False, empty/singleton joins, negation of anything but a surface, cycles.
std::optional<logic_int> surface_of(CsgTree const& t, NodeId n, std::size_t fuel)
{
    if (fuel == 0)
        return std::nullopt;
    Node const& node = t[n];
    if (auto const* s = std::get_if<Surface>(&node))
        return s->id.unchecked_get();
    if (auto const* a = std::get_if<Aliased>(&node))
        return surface_of(t, a->node, fuel - 1);
    return std::nullopt;
}

bool infix_of(CsgTree const& t, NodeId n, std::size_t fuel, std::vector<logic_int>* out)
{
    if (fuel == 0)
        return false;
    Node const& node = t[n];
    if (std::holds_alternative<True>(node))
    {
        out->push_back(logic::ltrue);
        return true;
    }
    if (auto const* s = std::get_if<Surface>(&node))
    {
        out->push_back(s->id.unchecked_get());
        return true;
    }
    if (auto const* a = std::get_if<Aliased>(&node))
        return infix_of(t, a->node, fuel - 1, out);
    if (auto const* neg = std::get_if<Negated>(&node))
    {
        auto s = surface_of(t, neg->node, fuel - 1);
        if (!s)
            return false;
        out->push_back(logic::lnot);
        out->push_back(*s);
        return true;
    }
    if (auto const* j = std::get_if<Joined>(&node))
    {
        if (j->nodes.size() < 2)
            return false;
        out->push_back(logic::lopen);
        bool first = true;
        for (NodeId d : j->nodes)
        {
            if (!first)
                out->push_back(j->op);
            first = false;
            if (!infix_of(t, d, fuel - 1, out))
                return false;
        }
        out->push_back(logic::lclose);
        return true;
    }
    return false;
}

// documented precondition of DeMorganSimplifier: no alias nodes, no double negation
bool demorgan_precondition(CsgTree const& t)
{
    for (size_type i = 0; i < t.size(); ++i)
    {
        Node const& n = t[NodeId{i}];
        if (std::holds_alternative<Aliased>(n) || std::holds_alternative<False>(n))
            return false;
        if (auto const* neg = std::get_if<Negated>(&n))
        {
            if (std::holds_alternative<Negated>(t[neg->node]))
                return false;
        }
    }
    return true;
}
}  // namespace

int main()
{
    CsgTree tree;
    std::string line;
    while (std::getline(std::cin, line))
    {
        auto w = vh::words(line);
        std::size_t a = 0, b = 0;
        std::uint64_t bits = 0;
        std::string out = "bad-op";
        try
        {
            if (w.size() == 1 && w[0] == "reset")
            {
                tree = CsgTree{};
                out = "ok # " + dump(tree);
            }
            else if (w.size() == 1 && w[0] == "dump")
            {
                out = "ok # " + dump(tree);
            }
            else if (w.size() >= 2 && w[0] == "insert")
            {
                if (auto n = parse_node(w, 1, tree.size()))
                {
                    auto [id, inserted] = tree.insert(std::move(*n));
                    out = "id " + std::to_string(id.unchecked_get()) + " "
                          + (inserted ? "1" : "0") + " # " + dump(tree);
                }
            }
            else if (w.size() >= 3 && w[0] == "exchange" && parse_dec(w[1], &a)
                     && a >= 2 && a < tree.size())
            {
                if (auto n = parse_node(w, 2, a))
                {
                    Node old = tree.exchange(NodeId{static_cast<size_type>(a)},
                                             std::move(*n));
                    out = "old " + show(old) + " # " + dump(tree);
                }
            }
            else if (w.size() == 2 && w[0] == "volume" && parse_dec(w[1], &a)
                     && a < tree.size())
            {
                tree.insert_volume(NodeId{static_cast<size_type>(a)});
                out = "ok # " + dump(tree);
            }
            else if (w.size() == 2 && w[0] == "simplify" && parse_dec(w[1], &a)
                     && a < tree.size())
            {
                auto r = tree.simplify(NodeId{static_cast<size_type>(a)});
                out = (r ? "changed " + show(*r) : std::string("same")) + " # "
                      + dump(tree);
            }
            else if (w.size() == 2 && w[0] == "simplifyup" && parse_dec(w[1], &a)
                     && a < tree.size())
            {
                NodeId r = simplify_up(&tree, NodeId{static_cast<size_type>(a)});
                out = std::string("first ")
                      + (r ? std::to_string(r.unchecked_get()) : "none") + " # "
                      + dump(tree);
            }
            else if (w.size() == 2 && w[0] == "simplifyall" && parse_dec(w[1], &a)
                     && a >= 2 && a < tree.size())
            {
                simplify(&tree, NodeId{static_cast<size_type>(a)});
                out = "ok # " + dump(tree);
            }
            else if (w.size() == 3 && w[0] == "replace" && parse_dec(w[1], &a)
                     && a < tree.size() && (w[2] == "T" || w[2] == "F"))
            {
                try
                {
                    auto unk = replace_and_simplify(
                        &tree,
                        NodeId{static_cast<size_type>(a)},
                        w[2] == "T" ? Node{True{}} : Node{False{}});
                    out = "unknown";
                    for (auto u : unk)
                        out += " " + std::to_string(u.unchecked_get());
                }
                catch (RuntimeError const&)
                {
                    out = "validate-error";
                }
                out += " # " + dump(tree);
            }
            else if (w.size() == 1 && w[0] == "demorgan")
            {
                if (!demorgan_precondition(tree))
                {
                    out = "precondition";
                }
                else
                {
                    try
                    {
                        CsgTree result = transform_negated_joins(tree);
                        tree = std::move(result);
                        out = "ok # " + dump(tree);
                    }
                    catch (std::bad_variant_access const&)
                    {
                        out = "error bad-variant # " + dump(tree);
                    }
                }
            }
            else if (w.size() == 1 && w[0] == "demorganx")
            {
                // transform_negated_joins WITHOUT the documented precondition (alias nodes,
                // alias chains, double negations allowed).  The release build has no
                // assertions: a null id reaching CsgTree::insert is undefined behaviour, so the
                // call is first tried in a forked child; only if the child survives is it
                // repeated here (the transformation is deterministic).
                std::cout.flush();
                pid_t pid = fork();
                if (pid == 0)
                {
                    int rc = 0;
                    try
                    {
                        CsgTree result = transform_negated_joins(tree);
                        rc = (result.size() >= 2) ? 0 : 4;
                    }
                    catch (std::bad_variant_access const&)
                    {
                        rc = 3;
                    }
                    catch (...)
                    {
                        rc = 5;
                    }
                    _exit(rc);
                }
                int status = 0;
                if (pid < 0 || waitpid(pid, &status, 0) < 0)
                {
                    out = "error fork # " + dump(tree);
                }
                else if (WIFSIGNALED(status))
                {
                    out = "error crash # " + dump(tree);
                }
                else if (WEXITSTATUS(status) == 3)
                {
                    out = "error bad-variant # " + dump(tree);
                }
                else if (WEXITSTATUS(status) != 0)
                {
                    out = "error exception # " + dump(tree);
                }
                else
                {
                    CsgTree result = transform_negated_joins(tree);
                    tree = std::move(result);
                    out = "ok # " + dump(tree);
                }
            }
            else if (w.size() == 2
                     && (w[0] == "postfix" || w[0] == "postfixm" || w[0] == "flag"
                         || w[0] == "infix")
                     && parse_dec(w[1], &a) && a < tree.size())
            {
                NodeId n{static_cast<size_type>(a)};
                if (w[0] == "flag")
                {
                    InternalSurfaceFlagger has_internal{tree};
                    out = has_internal(n) ? "internal" : "simple";
                }
                else if (w[0] == "infix")
                {
                    out = "str " + build_infix_string(tree, n);
                }
                else
                {
                    std::vector<LocalSurfaceId> mapping;
                    PostfixLogicBuilder::result_type r;
                    if (w[0] == "postfixm")
                    {
                        mapping = calc_surfaces(tree);
                        r = PostfixLogicBuilder{tree, mapping}(n);
                    }
                    else
                    {
                        r = PostfixLogicBuilder{tree}(n);
                    }
                    out = "faces";
                    for (auto f : r.first)
                        out += " " + std::to_string(f.unchecked_get());
                    out += " logic";
                    for (auto v : r.second)
                        out += " " + show_tok(v);
                    out += " depth "
                           + std::to_string(celeritas::detail::calc_max_depth(
                               make_span(r.second)));
                }
            }
            else if (w.size() == 3 && (w[0] == "eval" || w[0] == "evalpost")
                     && parse_dec(w[1], &a) && a < tree.size()
                     && vh::parse_hex(w[2], &bits))
            {
                NodeId n{static_cast<size_type>(a)};
                if (w[0] == "eval")
                {
                    out = eval_sense(tree, n, bits) ? "T" : "F";
                }
                else
                {
                    auto r = PostfixLogicBuilder{tree}(n);
                    out = eval_logic(r.second, r.first, bits) ? "T" : "F";
                }
            }
            else if (w.size() == 3 && (w[0] == "tt" || w[0] == "ttpost")
                     && parse_dec(w[1], &a) && a < tree.size() && parse_dec(w[2], &b)
                     && b <= 12)
            {
                NodeId n{static_cast<size_type>(a)};
                std::vector<bool> tt(std::size_t(1) << b);
                if (w[0] == "tt")
                {
                    for (std::uint64_t m = 0; m < tt.size(); ++m)
                        tt[m] = eval_sense(tree, n, m);
                }
                else
                {
                    auto r = PostfixLogicBuilder{tree}(n);
                    for (std::uint64_t m = 0; m < tt.size(); ++m)
                        tt[m] = eval_logic(r.second, r.first, m);
                }
                out = "tt " + hex_of_bits(tt);
            }
            else if (w.size() == 2 && w[0] == "infixof" && parse_dec(w[1], &a)
                     && a < tree.size())
            {
                std::vector<logic_int> lgc;
                if (infix_of(tree, NodeId{static_cast<size_type>(a)}, tree.size() + 1, &lgc))
                {
                    out = "infix";
                    for (auto v : lgc)
                        out += " " + show_tok(v);
                }
                else
                {
                    out = "undefined";
                }
            }
            else if (w.size() == 3 && w[0] == "ttinfix" && parse_dec(w[1], &a)
                     && a < tree.size() && parse_dec(w[2], &b) && b <= 12)
            {
                std::vector<logic_int> lgc;
                if (infix_of(tree, NodeId{static_cast<size_type>(a)}, tree.size() + 1, &lgc)
                    && infix_well_formed(lgc))
                {
                    std::vector<bool> tt(std::size_t(1) << b);
                    for (std::uint64_t m = 0; m < tt.size(); ++m)
                        tt[m] = eval_infix(lgc, m);
                    out = "tt " + hex_of_bits(tt);
                }
                else
                {
                    out = "undefined";
                }
            }
            else if (w.size() >= 4 && w[0] == "infixlogic" && w[w.size() - 2] == ";"
                     && vh::parse_hex(w.back(), &bits))
            {
                std::vector<logic_int> lgc;
                bool ok = true;
                for (std::size_t i = 1; i + 2 < w.size() && ok; ++i)
                {
                    if (w[i] == "*")
                        lgc.push_back(logic::ltrue);
                    else if (w[i] == "|")
                        lgc.push_back(logic::lor);
                    else if (w[i] == "&")
                        lgc.push_back(logic::land);
                    else if (w[i] == "~")
                        lgc.push_back(logic::lnot);
                    else if (w[i] == "(")
                        lgc.push_back(logic::lopen);
                    else if (w[i] == ")")
                        lgc.push_back(logic::lclose);
                    else if (parse_dec(w[i], &a) && a < max_surface)
                        lgc.push_back(static_cast<logic_int>(a));
                    else
                        ok = false;
                }
                if (ok && infix_well_formed(lgc))
                {
                    out = std::string("val ") + (eval_infix(lgc, bits) ? "T" : "F");
                }
            }
            else if (w.size() >= 4 && w[0] == "logic" && w[w.size() - 2] == ";"
                     && vh::parse_hex(w.back(), &bits))
            {
                std::vector<logic_int> lgc;
                bool ok = true;
                for (std::size_t i = 1; i + 2 < w.size() && ok; ++i)
                {
                    if (w[i] == "*")
                        lgc.push_back(logic::ltrue);
                    else if (w[i] == "|")
                        lgc.push_back(logic::lor);
                    else if (w[i] == "&")
                        lgc.push_back(logic::land);
                    else if (w[i] == "~")
                        lgc.push_back(logic::lnot);
                    else if (parse_dec(w[i], &a) && a < max_surface)
                        lgc.push_back(static_cast<logic_int>(a));
                    else
                        ok = false;
                }
                if (ok && !lgc.empty())
                {
                    std::vector<LocalSurfaceId> faces;
                    for (size_type s = 0; s < max_surface; ++s)
                        faces.push_back(LocalSurfaceId{s});
                    bool v = eval_logic(lgc, faces, bits);
                    out = "depth "
                          + std::to_string(
                              celeritas::detail::calc_max_depth(make_span(lgc)))
                          + " val " + (v ? "T" : "F");
                }
            }
        }
        catch (std::exception const& e)
        {
            out = std::string("exception ") + typeid(e).name();
        }
        std::cout << out << "\n";
    }
    return 0;
}
