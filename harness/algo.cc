// C18 harness: drives the REAL device-portable algorithms / range / indexers / grids of
// /repo with the same one-op-per-line protocol as lean/CelerVerif/Model/AlgoDriver.lean.
//
//   algo           : protocol mode (stdin -> stdout); every answer also carries the verdict of
//                    an implementation-side oracle (std:: algorithms / exact arithmetic): a line
//                    ends in " !oracle:<what>" when the real code disagrees with the reference
//   algo --grid    : floating-point grid oracle mode (UniformGrid / NonuniformGrid / find_interp /
//                    Interpolator / TwodGridCalculator against long-double references at every
//                    grid point +- 1 ulp); not mirrored by the Lean model
#include <algorithm>
#include <cmath>
#include <functional>
#include <limits>
#include <utility>

#include "corecel/cont/Array.hh"
#include "corecel/cont/Range.hh"
#include "corecel/data/Collection.hh"
#include "corecel/data/CollectionBuilder.hh"
#include "corecel/data/HyperslabIndexer.hh"
#include "corecel/grid/FindInterp.hh"
#include "corecel/grid/Interpolator.hh"
#include "corecel/grid/NonuniformGrid.hh"
#include "corecel/grid/TwodGridCalculator.hh"
#include "corecel/grid/TwodGridData.hh"
#include "corecel/grid/UniformGrid.hh"
#include "corecel/grid/UniformGridData.hh"
#include "corecel/math/Algorithms.hh"
#include "orange/OrangeData.hh"
#include "orange/univ/detail/RaggedRightIndexer.hh"

#include "common/lineio.hh"

using namespace celeritas;
using ll = long long;
using ull = unsigned long long;
using u128 = unsigned __int128;
using VecL = std::vector<ll>;
using VecS = std::vector<std::string>;

//---------------------------------------------------------------------------//
// parsing (mirrors parseNatTok / parseIntTok / sections of the Lean driver)
//---------------------------------------------------------------------------//
static bool parse_nat(std::string const& s, u128* out)
{
    if (s.size() > 20 || s.empty())
        return false;
    u128 v = 0;
    if (s.rfind("0x", 0) == 0)
    {
        if (s.size() == 2)
            return false;
        for (std::size_t i = 2; i < s.size(); ++i)
        {
            char c = s[i];
            int d;
            if (c >= '0' && c <= '9')
                d = c - '0';
            else if (c >= 'a' && c <= 'f')
                d = c - 'a' + 10;
            else if (c >= 'A' && c <= 'F')
                d = c - 'A' + 10;
            else
                return false;
            v = v * 16 + d;
        }
    }
    else
    {
        for (char c : s)
        {
            if (c < '0' || c > '9')
                return false;
            v = v * 10 + (c - '0');
        }
    }
    *out = v;
    return true;
}

// integer token with |x| <= 2^62 ("small" in the Lean driver); returns 0 bad, 1 ok, 2 too large
static int parse_int(std::string const& s, ll* out)
{
    bool neg = !s.empty() && s[0] == '-';
    u128 v;
    if (!parse_nat(neg ? s.substr(1) : s, &v))
        return 0;
    if (v > (u128(1) << 62))
        return 2;
    *out = neg ? -static_cast<ll>(v) : static_cast<ll>(v);
    return 1;
}

static std::vector<VecS> sections(VecS const& w)
{
    std::vector<VecS> out(1);
    for (auto const& t : w)
    {
        if (t == ":")
            out.emplace_back();
        else
            out.back().push_back(t);
    }
    return out;
}

static bool parse_list(VecS const& w, VecL* out)
{
    out->clear();
    for (auto const& t : w)
    {
        ll v;
        if (parse_int(t, &v) != 1)
            return false;
        out->push_back(v);
    }
    return true;
}

static bool parse_nat_list(VecS const& w, std::vector<u128>* out)
{
    out->clear();
    for (auto const& t : w)
    {
        u128 v;
        if (!parse_nat(t, &v))
            return false;
        out->push_back(v);
    }
    return true;
}

static std::string ok(VecL const& v)
{
    std::string s = "ok";
    for (auto x : v)
        s += " " + std::to_string(x);
    return s;
}

static std::string u128_str(u128 v)
{
    if (v == 0)
        return "0";
    std::string s;
    while (v != 0)
    {
        s.insert(s.begin(), char('0' + int(v % 10)));
        v /= 10;
    }
    return s;
}

//---------------------------------------------------------------------------//
// comparator ops
//---------------------------------------------------------------------------//
template<class Comp>
static std::string cmp_op(std::string const& op, VecS const& args, VecL xs, Comp comp,
                          bool exact_ref, std::function<bool(ll)> val_ok)
{
    std::vector<ll> a;
    bool big = false;
    for (auto const& t : args)
    {
        ll v = 0;
        int r = parse_int(t, &v);
        if (r == 0)
            return "bad-op";
        if (r == 2)
            big = true;
        a.push_back(v);
    }
    {
        // arity check first (as the Lean driver's pattern match), then range of the arguments
        std::size_t want_args = (op == "psort" || op == "lower_bound" || op == "upper_bound"
                                 || op == "lower_bound_linear" || op == "find_sorted")
                                    ? 1
                                : op == "sift_down" ? 2
                                : (op == "sort" || op == "make_heap" || op == "sort_heap"
                                   || op == "min_element" || op == "all_adjacent")
                                    ? 0
                                    : 99;
        if (a.size() != want_args)
            return "bad-op";
        if (big)
            return "precond";
    }
    std::size_t const n = xs.size();
    ll* first = xs.data();
    ll* last = xs.data() + n;
    VecL orig = xs;
    auto perm_sorted = [&](VecL const& got, std::size_t m) {
        // first m sorted by comp, no later element precedes any of the first m, permutation
        bool good = std::is_permutation(got.begin(), got.end(), orig.begin());
        good = good && std::is_sorted(got.begin(), got.begin() + m, comp);
        for (std::size_t i = m; i < got.size() && m > 0; ++i)
            good = good && !comp(got[i], got[m - 1]);
        return good;
    };
    if (op == "sort" && a.empty())
    {
        celeritas::sort(first, last, comp);
        std::string s = ok(xs);
        VecL ref = orig;
        std::sort(ref.begin(), ref.end(), comp);
        if (!perm_sorted(xs, n) || (exact_ref && ref != xs))
            s += " !oracle:sort";
        return s;
    }
    if (op == "psort" && a.size() == 1)
    {
        if (a[0] < 0 || static_cast<ull>(a[0]) > n)
            return "precond";
        using CompRef = std::add_lvalue_reference_t<Comp>;
        celeritas::detail::partial_sort<CompRef>(first, first + a[0], last, comp);
        std::string s = ok(xs);
        VecL ref = orig;
        std::partial_sort(ref.begin(), ref.begin() + a[0], ref.end(), comp);
        bool good = perm_sorted(xs, a[0]);
        if (exact_ref)
            good = good && std::equal(ref.begin(), ref.begin() + a[0], xs.begin());
        if (!good)
            s += " !oracle:partial_sort";
        return s;
    }
    if (op == "make_heap" && a.empty())
    {
        using CompRef = std::add_lvalue_reference_t<Comp>;
        celeritas::detail::make_heap<CompRef>(first, last, comp);
        std::string s = ok(xs);
        if (!std::is_heap(xs.begin(), xs.end(), comp)
            || !std::is_permutation(xs.begin(), xs.end(), orig.begin()))
            s += " !oracle:make_heap";
        return s;
    }
    if (op == "sort_heap" && a.empty())
    {
        bool was_heap = std::is_heap(xs.begin(), xs.end(), comp);
        using CompRef = std::add_lvalue_reference_t<Comp>;
        celeritas::detail::sort_heap<CompRef>(first, last, comp);
        std::string s = ok(xs);
        if (!std::is_permutation(xs.begin(), xs.end(), orig.begin())
            || (was_heap && !std::is_sorted(xs.begin(), xs.end(), comp)))
            s += " !oracle:sort_heap";
        return s;
    }
    if (op == "sift_down" && a.size() == 2)
    {
        if (!(0 <= a[1] && a[1] < a[0] && static_cast<ull>(a[0]) <= n))
            return "precond";
        using CompRef = std::add_lvalue_reference_t<Comp>;
        celeritas::detail::sift_down<CompRef>(first, first + a[0], comp, a[0], first + a[1]);
        std::string s = ok(xs);
        if (!std::is_permutation(xs.begin(), xs.end(), orig.begin()))
            s += " !oracle:sift_down";
        return s;
    }
    if ((op == "lower_bound" || op == "upper_bound" || op == "lower_bound_linear"
         || op == "find_sorted")
        && a.size() == 1)
    {
        ll v = a[0];
        if (!val_ok(v))
            return "precond";
        bool sorted = std::is_sorted(xs.begin(), xs.end(), comp);
        std::size_t got, want;
        if (op == "lower_bound")
        {
            got = celeritas::lower_bound(first, last, v, comp) - first;
            want = std::lower_bound(xs.begin(), xs.end(), v, comp) - xs.begin();
        }
        else if (op == "upper_bound")
        {
            got = celeritas::upper_bound(first, last, v, comp) - first;
            want = std::upper_bound(xs.begin(), xs.end(), v, comp) - xs.begin();
        }
        else if (op == "lower_bound_linear")
        {
            got = celeritas::lower_bound_linear(first, last, v, comp) - first;
            // reference valid for ANY input: first element not ordered before v
            want = std::find_if(xs.begin(), xs.end(), [&](ll x) { return !comp(x, v); })
                   - xs.begin();
            sorted = true;
        }
        else
        {
            got = celeritas::find_sorted(first, last, v, comp) - first;
            auto pr = std::equal_range(xs.begin(), xs.end(), v, comp);
            want = (pr.first == pr.second) ? n : pr.first - xs.begin();
        }
        std::string s = "ok " + std::to_string(got);
        if (sorted && got != want)
            s += " !oracle:" + op;
        return s;
    }
    if (op == "min_element" && a.empty())
    {
        std::size_t got = celeritas::min_element(first, last, comp) - first;
        std::size_t want = std::min_element(xs.begin(), xs.end(), comp) - xs.begin();
        std::string s = "ok " + std::to_string(got);
        if (got != want)
            s += " !oracle:min_element";
        return s;
    }
    if (op == "all_adjacent" && a.empty())
    {
        bool got = celeritas::all_adjacent(first, last, comp);
        bool want = std::adjacent_find(xs.begin(), xs.end(),
                                       [&](ll x, ll y) { return !comp(x, y); })
                    == xs.end();
        std::string s = got ? "ok 1" : "ok 0";
        if (got != want)
            s += " !oracle:all_adjacent";
        return s;
    }
    return "bad-op";
}

static std::string
cmp_dispatch(std::string const& op, VecS const& args, std::vector<VecS> const& rest)
{
    if (args.empty() || rest.empty() || rest.size() > 2)
        return "bad-op";
    VecL xs, keys;
    if (!parse_list(rest[0], &xs))
        return "bad-op";
    bool have_keys = rest.size() == 2;
    if (have_keys && !parse_list(rest[1], &keys))
        return "bad-op";
    std::string c = args[0];
    VecS more(args.begin() + 1, args.end());
    if (c == "less" && !have_keys)
    {
        return cmp_op(op, more, xs, Less<>{}, true, [](ll) { return true; });
    }
    if (c == "greater" && !have_keys)
    {
        return cmp_op(
            op, more, xs, [](ll a, ll b) { return a > b; }, true, [](ll) { return true; });
    }
    if (c == "key" && have_keys)
    {
        for (ll x : xs)
            if (x < 0 || static_cast<ull>(x) >= keys.size())
                return "bad-op";
        // the comparator of SimpleUnitTracker::intersect: indices ordered by a key array
        ll const* k = keys.data();
        std::size_t nk = keys.size();
        return cmp_op(
            op, more, xs, [k](ll a, ll b) { return k[a] < k[b]; }, false,
            [nk](ll v) { return v >= 0 && static_cast<ull>(v) < nk; });
    }
    return "bad-op";
}

//---------------------------------------------------------------------------//
// predicate ops
//---------------------------------------------------------------------------//
static std::string pred_dispatch(std::string const& op, VecS const& args,
                                 std::vector<VecS> const& rest)
{
    if (args.size() != 2 || rest.size() != 1)
        return "bad-op";
    VecL xs;
    ll t;
    if (!parse_list(rest[0], &xs) || parse_int(args[1], &t) != 1)
        return "bad-op";
    std::function<bool(ll)> pred;
    if (args[0] == "lt")
        pred = [t](ll x) { return x < t; };
    else if (args[0] == "ge")
        pred = [t](ll x) { return x >= t; };
    else if (args[0] == "odd")
        pred = [](ll x) { return x % 2 != 0; };
    else
        return "bad-op";
    VecL orig = xs;
    if (op == "partition")
    {
        std::size_t k = celeritas::partition(xs.data(), xs.data() + xs.size(), pred) - xs.data();
        VecL res{static_cast<ll>(k)};
        res.insert(res.end(), xs.begin(), xs.end());
        std::string s = ok(res);
        VecL ref = orig;
        std::size_t kr = std::partition(ref.begin(), ref.end(), pred) - ref.begin();
        bool good = kr == k && std::is_permutation(xs.begin(), xs.end(), orig.begin())
                    && std::all_of(xs.begin(), xs.begin() + k, pred)
                    && std::none_of(xs.begin() + k, xs.end(), pred)
                    && k == static_cast<std::size_t>(std::count_if(orig.begin(), orig.end(), pred));
        if (!good)
            s += " !oracle:partition";
        return s;
    }
    if (op == "all_of" || op == "any_of")
    {
        bool got = op == "all_of" ? celeritas::all_of(xs.begin(), xs.end(), pred)
                                  : celeritas::any_of(xs.begin(), xs.end(), pred);
        bool want = op == "all_of" ? std::all_of(xs.begin(), xs.end(), pred)
                                   : std::any_of(xs.begin(), xs.end(), pred);
        std::string s = got ? "ok 1" : "ok 0";
        if (got != want)
            s += " !oracle:" + op;
        return s;
    }
    return "bad-op";
}

//---------------------------------------------------------------------------//
// scalar ops
//---------------------------------------------------------------------------//
template<unsigned int N>
static ull ipow_n(ull v)
{
    return celeritas::ipow<N>(v);
}
template<std::size_t... I>
static ull ipow_table(std::index_sequence<I...>, unsigned n, ull v)
{
    using Fn = ull (*)(ull);
    static Fn const table[] = {&ipow_n<static_cast<unsigned int>(I)>...};
    return table[n](v);
}

static bool i31(ll x)
{
    return -(1ll << 30) <= x && x <= (1ll << 30);
}

static std::string limit_out(VecL const& v, bool more)
{
    return ok(v) + (more ? " ..." : "");
}

static std::string scalar_op(VecS const& w)
{
    auto geti = [&](std::size_t i, ll* out) { return parse_int(w[i], out) == 1; };
    if (w.empty())
        return "bad-op";
    std::string const& op = w[0];
    if (op == "clamp" && w.size() == 4)
    {
        ll v, lo, hi;
        if (!geti(1, &v) || !geti(2, &lo) || !geti(3, &hi))
            return "bad-op";
        if (hi < lo)
            return "precond";
        ll got = celeritas::clamp(v, lo, hi);
        std::string s = "ok " + std::to_string(got);
        if (got != std::clamp(v, lo, hi))
            s += " !oracle:clamp";
        return s;
    }
    if (op == "clamp_nonneg" && w.size() == 2)
    {
        ll v;
        if (!geti(1, &v))
            return "bad-op";
        ll got = celeritas::clamp_to_nonneg(v);
        return "ok " + std::to_string(got) + (got != std::max(v, 0ll) ? " !oracle:clamp_nonneg" : "");
    }
    if (op == "signum" && w.size() == 2)
    {
        ll v;
        if (!geti(1, &v))
            return "bad-op";
        int got = celeritas::signum(v);
        int want = v > 0 ? 1 : v < 0 ? -1 : 0;
        return "ok " + std::to_string(got) + (got != want ? " !oracle:signum" : "");
    }
    if ((op == "min" || op == "max") && w.size() == 3)
    {
        ll x, y;
        if (!geti(1, &x) || !geti(2, &y))
            return "bad-op";
        ll got = op == "min" ? celeritas::min(x, y) : celeritas::max(x, y);
        ll want = op == "min" ? std::min(x, y) : std::max(x, y);
        return "ok " + std::to_string(got) + (got != want ? " !oracle:" + op : "");
    }
    if (op == "ceil_div" && w.size() == 3)
    {
        u128 t, b;
        if (!parse_nat(w[1], &t) || !parse_nat(w[2], &b) || (t >> 64) != 0 || (b >> 64) != 0)
            return "bad-op";
        if (b == 0)
            return "precond";
        ull got = celeritas::ceil_div<ull>(static_cast<ull>(t), static_cast<ull>(b));
        u128 want = (t + b - 1) / b;
        return "ok " + std::to_string(got) + (u128(got) != want ? " !oracle:ceil_div" : "");
    }
    if (op == "local_work" && w.size() == 4)
    {
        u128 t, n, i;
        if (!parse_nat(w[1], &t) || !parse_nat(w[2], &n) || !parse_nat(w[3], &i)
            || (t >> 64) != 0 || (n >> 64) != 0 || (i >> 64) != 0)
            return "bad-op";
        if (i >= n)
            return "precond";
        LocalWorkCalculator<ull> calc{static_cast<ull>(t), static_cast<ull>(n)};
        ull got = calc(static_cast<ull>(i));
        // exact reference: number of k in [0,total) with k % n == i  (round-robin split)
        u128 want = t / n + ((t % n) > i ? 1 : 0);
        return "ok " + std::to_string(got) + (u128(got) != want ? " !oracle:local_work" : "");
    }
    if (op == "ipow" && w.size() == 3)
    {
        u128 n, v;
        if (!parse_nat(w[1], &n) || !parse_nat(w[2], &v) || n > 64 || (v >> 64) != 0)
            return "bad-op";
        ull got = ipow_table(std::make_index_sequence<65>{}, static_cast<unsigned>(n),
                             static_cast<ull>(v));
        ull want = 1;
        for (unsigned k = 0; k < static_cast<unsigned>(n); ++k)
            want *= static_cast<ull>(v);
        return "ok " + std::to_string(got) + (got != want ? " !oracle:ipow" : "");
    }
    if (op == "range" && w.size() == 5 && w[1] == "i")
    {
        ll b, e, s;
        if (!geti(2, &b) || !geti(3, &e) || !geti(4, &s) || !i31(b) || !i31(e) || !i31(s))
            return "bad-op";
        if (s == 0)
            return "precond";
        VecL out;
        bool more = false;
        for (auto v : celeritas::range(static_cast<int>(b), static_cast<int>(e))
                          .step(static_cast<int>(s)))
        {
            if (out.size() == 64)
            {
                more = true;
                break;
            }
            out.push_back(v);
        }
        // exact reference
        VecL ref;
        if (s > 0)
            for (ll v = b; v < e && ref.size() < 64; v += s)
                ref.push_back(v);
        else
            for (ll v = e + s; v >= b && ref.size() < 64; v += s)
                ref.push_back(v);
        return limit_out(out, more) + (ref != out ? " !oracle:range" : "");
    }
    if (op == "range" && w.size() == 5 && w[1] == "u")
    {
        u128 b, e, s;
        if (!parse_nat(w[2], &b) || !parse_nat(w[3], &e) || !parse_nat(w[4], &s)
            || (b >> 32) != 0 || (e >> 32) != 0 || (s >> 32) != 0)
            return "bad-op";
        if (s == 0)
            return "precond";
        VecL out;
        bool more = false;
        for (auto v : celeritas::range(static_cast<unsigned int>(b), static_cast<unsigned int>(e))
                          .step(static_cast<unsigned int>(s)))
        {
            if (out.size() == 64)
            {
                more = true;
                break;
            }
            out.push_back(v);
        }
        // exact reference only when no 32-bit wrap can occur
        std::string tail;
        if (e + s < (u128(1) << 32))
        {
            VecL ref;
            for (u128 v = b; v < e && ref.size() < 64; v += s)
                ref.push_back(static_cast<ll>(v));
            if (ref != out)
                tail = " !oracle:range";
        }
        return limit_out(out, more) + tail;
    }
    if (op == "range1" && w.size() == 3)
    {
        ll b, e;
        if (!geti(1, &b) || !geti(2, &e) || !i31(b) || !i31(e))
            return "bad-op";
        if (e < b)
            return "precond";
        VecL out;
        bool more = false;
        auto r = celeritas::range(static_cast<int>(b), static_cast<int>(e));
        for (auto v : r)
        {
            if (out.size() == 64)
            {
                more = true;
                break;
            }
            out.push_back(v);
        }
        bool good = static_cast<ll>(r.size()) == e - b && r.empty() == (e == b);
        for (std::size_t i = 0; i < out.size(); ++i)
            good = good && out[i] == b + static_cast<ll>(i) && r[static_cast<int>(i)] == out[i];
        good = good && (more || static_cast<ll>(out.size()) == e - b);
        return limit_out(out, more) + (!good ? " !oracle:range1" : "");
    }
    if (op == "count" && w.size() == 4)
    {
        ll b, s;
        u128 n;
        if (!geti(1, &b) || !geti(2, &s) || !parse_nat(w[3], &n) || !i31(b)
            || !(-(1ll << 20) <= s && s <= (1ll << 20)) || n > 64)
            return "bad-op";
        VecL out;
        bool good = true;
        for (auto v : celeritas::count(static_cast<int>(b)).step(static_cast<int>(s)))
        {
            if (out.size() == n)
                break;
            good = good && v == b + static_cast<ll>(out.size()) * s;
            out.push_back(v);
        }
        return ok(out) + (!good ? " !oracle:count" : "");
    }
    if (op == "twod_index" && w.size() == 4)
    {
        u128 ny, ix, iy;
        if (!parse_nat(w[1], &ny) || !parse_nat(w[2], &ix) || !parse_nat(w[3], &iy)
            || ny >= (1u << 15) || ix >= (1u << 15) || iy >= (1u << 15))
            return "bad-op";
        if (iy >= ny)
            return "precond";
        TwodGridData g;
        size_type nx = static_cast<size_type>(ix) + 1;
        g.x = ItemRange<real_type>{ItemId<real_type>{0}, ItemId<real_type>{nx}};
        g.y = ItemRange<real_type>{ItemId<real_type>{nx},
                                   ItemId<real_type>{nx + static_cast<size_type>(ny)}};
        size_type v0 = nx + static_cast<size_type>(ny);
        g.values = ItemRange<real_type>{
            ItemId<real_type>{v0}, ItemId<real_type>{v0 + nx * static_cast<size_type>(ny)}};
        size_type got = g.at(static_cast<size_type>(ix), static_cast<size_type>(iy)).get() - v0;
        return "ok " + std::to_string(got);
    }
    return "bad-op";
}

//---------------------------------------------------------------------------//
// indexers
//---------------------------------------------------------------------------//
template<size_type N>
static std::string hyperslab(std::vector<u128> const& d, std::vector<u128> const& c, bool inverse)
{
    Array<size_type, N> dims;
    for (size_type i = 0; i < N; ++i)
        dims[i] = static_cast<size_type>(d[i]);
    if (!inverse)
    {
        Array<size_type, N> coords;
        for (size_type i = 0; i < N; ++i)
            coords[i] = static_cast<size_type>(c[i]);
        size_type got = HyperslabIndexer<N>(dims)(coords);
        // exact mixed-radix reference
        u128 want = 0;
        for (size_type i = 0; i < N; ++i)
            want = want * d[i] + c[i];
        // and the inverse must give the coordinates back
        auto back = HyperslabInverseIndexer<N>(dims)(got);
        bool good = u128(got) == want;
        for (size_type i = 0; i < N; ++i)
            good = good && back[i] == coords[i];
        return "ok " + std::to_string(got) + (!good ? " !oracle:hyperslab" : "");
    }
    size_type index = static_cast<size_type>(c[0]);
    auto coords = HyperslabInverseIndexer<N>(dims)(index);
    VecL out;
    u128 rem = c[0];
    bool good = true;
    for (size_type i = N; i-- > 0;)
    {
        u128 want = i == 0 ? rem : rem % d[i];
        rem = i == 0 ? 0 : rem / d[i];
        good = good && u128(coords[i]) == want;
    }
    for (size_type i = 0; i < N; ++i)
        out.push_back(coords[i]);
    u128 prod = 1;
    for (auto x : d)
        prod *= x;
    if (c[0] < prod)
        good = good && HyperslabIndexer<N>(dims)(coords) == index;
    return ok(out) + (!good ? " !oracle:hyperslab_inv" : "");
}

template<size_type N>
static std::string ragged(std::vector<u128> const& sz, std::vector<u128> const& c, bool inverse)
{
    Array<size_type, N> sizes;
    for (size_type i = 0; i < N; ++i)
        sizes[i] = static_cast<size_type>(sz[i]);
    auto data = RaggedRightIndexerData<N>::from_sizes(sizes);
    if (!inverse)
    {
        size_type got = celeritas::detail::RaggedRightIndexer<N>(data)(
            {static_cast<size_type>(c[0]), static_cast<size_type>(c[1])});
        u128 want = c[1];
        for (u128 i = 0; i < c[0]; ++i)
            want += sz[static_cast<std::size_t>(i)];
        auto back = celeritas::detail::RaggedRightInverseIndexer<N>(data)(got);
        bool good = u128(got) == want && back[0] == c[0] && back[1] == c[1];
        return "ok " + std::to_string(got) + (!good ? " !oracle:ragged" : "");
    }
    auto got = celeritas::detail::RaggedRightInverseIndexer<N>(data)(static_cast<size_type>(c[0]));
    u128 rem = c[0];
    size_type i = 0;
    while (rem >= sz[i])
    {
        rem -= sz[i];
        ++i;
    }
    bool good = got[0] == i && u128(got[1]) == rem
                && celeritas::detail::RaggedRightIndexer<N>(data)({got[0], got[1]}) == c[0];
    return "ok " + std::to_string(got[0]) + " " + std::to_string(got[1])
           + (!good ? " !oracle:ragged_inv" : "");
}

static std::string indexer_op(std::string const& op, VecS const& args,
                              std::vector<VecS> const& rest)
{
    std::vector<u128> d, c;
    if (rest.size() != 1 || !parse_nat_list(args, &d) || !parse_nat_list(rest[0], &c))
        return "bad-op";
    for (auto x : d)
        if (x >= (u128(1) << 32))
            return "bad-op";
    for (auto x : c)
        if (x >= (u128(1) << 33))
            return "bad-op";
    u128 prod = 1, sum = 0;
    bool has_zero = false;
    for (auto x : d)
    {
        prod = std::min<u128>(prod * x, u128(1) << 64);
        sum += x;
        has_zero = has_zero || x == 0;
    }
    std::size_t n = d.size();
    if (op == "hyperslab" || op == "hyperslab_inv")
    {
        bool inv = op == "hyperslab_inv";
        if (inv && c.size() != 1)
            return "bad-op";
        if (n == 0 || n > 5 || (!inv && c.size() != n))
            return "bad-op";
        if (has_zero || prod >= (u128(1) << 32))
            return "precond";
        if (inv && c[0] > prod)
            return "precond";
        if (!inv)
            for (std::size_t i = 0; i < n; ++i)
                if (c[i] >= d[i])
                    return "precond";
        switch (n)
        {
            case 1: return hyperslab<1>(d, c, inv);
            case 2: return hyperslab<2>(d, c, inv);
            case 3: return hyperslab<3>(d, c, inv);
            case 4: return hyperslab<4>(d, c, inv);
            default: return hyperslab<5>(d, c, inv);
        }
    }
    if (op == "ragged" || op == "ragged_inv")
    {
        bool inv = op == "ragged_inv";
        if (c.size() != (inv ? 1u : 2u))
            return "bad-op";
        if (n == 0 || n > 6)
            return "bad-op";
        if (sum >= (u128(1) << 32))
            return "precond";
        if (inv ? c[0] >= sum : (c[0] >= n || c[1] >= d[static_cast<std::size_t>(c[0])]))
            return "precond";
        switch (n)
        {
            case 1: return ragged<1>(d, c, inv);
            case 2: return ragged<2>(d, c, inv);
            case 3: return ragged<3>(d, c, inv);
            case 4: return ragged<4>(d, c, inv);
            case 5: return ragged<5>(d, c, inv);
            default: return ragged<6>(d, c, inv);
        }
    }
    return "bad-op";
}

//---------------------------------------------------------------------------//
// nonuniform grid (integer-valued doubles: exact)
//---------------------------------------------------------------------------//
template<class T>
struct GridStore
{
    Collection<T, Ownership::value, MemSpace::host> data;
    Collection<T, Ownership::const_reference, MemSpace::host> ref;
    ItemRange<T> range;
    explicit GridStore(std::vector<T> const& xs)
    {
        range = make_builder(&data).insert_back(xs.begin(), xs.end());
        ref = data;
    }
};

static std::string nugrid_find(VecS const& args, std::vector<VecS> const& rest)
{
    VecL xs;
    ll v;
    if (args.size() != 1 || rest.size() != 1 || !parse_list(rest[0], &xs))
        return "bad-op";
    int r = parse_int(args[0], &v);
    if (r != 1)
        return "bad-op";
    if (xs.size() < 2 || !std::is_sorted(xs.begin(), xs.end()) || v < xs.front()
        || v >= xs.back())
        return "precond";
    for (ll x : xs)
        if (std::abs(x) > (1ll << 53))
            return "precond";  // keep the values exactly representable as double
    std::vector<double> xd(xs.begin(), xs.end());
    GridStore<double> store(xd);
    NonuniformGrid<double> grid(store.range, store.ref);
    size_type got = grid.find(static_cast<double>(v));
    // reference: the value is bracketed; on a grid point it is the FIRST equal knot
    bool good = got + 1 < xs.size() && xs[got] <= v && v <= xs[got + 1]
                && (xs[got] == v ? (got == 0 || xs[got - 1] < v) : v < xs[got + 1]);
    // for strictly increasing grids this is std::upper_bound - 1
    if (std::adjacent_find(xs.begin(), xs.end()) == xs.end())
        good = good
               && got + 1 == static_cast<size_type>(std::upper_bound(xs.begin(), xs.end(), v)
                                                     - xs.begin());
    // same code on an integer grid
    std::vector<int> xi;
    bool fits = true;
    for (ll x : xs)
    {
        fits = fits && std::abs(x) < (1ll << 31);
        xi.push_back(static_cast<int>(x));
    }
    if (fits && std::abs(v) < (1ll << 31))
    {
        GridStore<int> si(xi);
        NonuniformGrid<int> gi(si.range, si.ref);
        good = good && gi.find(static_cast<int>(v)) == got;
    }
    return "ok " + std::to_string(got) + (!good ? " !oracle:nugrid_find" : "");
}

//---------------------------------------------------------------------------//
// floating-point grid oracle (`--grid`)
//---------------------------------------------------------------------------//
using ld = long double;
static double const kInf = std::numeric_limits<double>::infinity();

static bool get_dbl(std::string const& s, double* out)
{
    std::uint64_t u;
    if (s.size() != 16 || !vh::parse_hex(s, &u))
        return false;
    *out = vh::bits_dbl(u);
    return std::isfinite(*out);
}

// queries: every knot and its two neighbours, plus a few more steps below the last knot
static std::vector<double> knot_queries(std::vector<double> const& knots, double front, double back)
{
    std::vector<double> q;
    for (double k : knots)
    {
        q.push_back(std::nextafter(k, -kInf));
        q.push_back(k);
        q.push_back(std::nextafter(k, kInf));
    }
    double v = back;
    for (int i = 0; i < 8; ++i)
    {
        v = std::nextafter(v, -kInf);
        q.push_back(v);
    }
    for (std::size_t i = 0; i + 1 < knots.size(); ++i)
        q.push_back(knots[i] + 0.5 * (knots[i + 1] - knots[i]));
    std::vector<double> out;
    for (double x : q)
        if (x >= front && x < back)
            out.push_back(x);
    return out;
}

static std::string grid_ugrid(VecS const& w)
{
    double f, b;
    u128 n;
    if (w.size() != 4 || !get_dbl(w[1], &f) || !get_dbl(w[2], &b) || !parse_nat(w[3], &n)
        || n < 2 || n > 100000 || !(f < b))
        return "bad-op";
    auto data = UniformGridData::from_bounds(f, b, static_cast<size_type>(n));
    if (!data)
        return "precond";
    UniformGrid grid(data);
    std::vector<double> knots;
    for (size_type i = 0; i < grid.size(); ++i)
        knots.push_back(grid[i]);
    knots.back() = std::min(knots.back(), b);
    auto qs = knot_queries(knots, f, b);
    qs.push_back(std::nextafter(b, -kInf));
    std::size_t soft = 0, lastbin = 0, hard = 0;
    std::string first_last, first_hard;
    for (double v : qs)
    {
        if (!(v >= f && v < b))
            continue;
        size_type bin = grid.find(v);
        if (bin + 1 >= grid.size())
        {
            // would read one past the table in every calculator
            if (lastbin++ == 0)
                first_last = " v=" + vh::hexd(v) + " bin=" + std::to_string(bin);
            continue;
        }
        // exact-arithmetic reference for the bin of a uniform grid: floor((v - front)/delta)
        ld t = (ld(v) - ld(f)) / ld(data.delta);
        ld tb = std::floor(t);
        if (tb != ld(bin))
        {
            // allowed only when v is within rounding of a knot (|t - round(t)| tiny)
            ld dist = std::fabs(t - std::round(t));
            if (dist <= 8 * std::numeric_limits<double>::epsilon() * std::max<ld>(1, std::fabs(t))
                && std::fabs(tb - ld(bin)) <= 1)
                ++soft;
            else if (hard++ == 0)
                first_hard = " v=" + vh::hexd(v) + " bin=" + std::to_string(bin);
            continue;
        }
        auto fi = find_interp(grid, v);
        if (fi.index != bin)
        {
            if (hard++ == 0)
                first_hard = " find_interp-index v=" + vh::hexd(v);
        }
        else if (!(fi.fraction >= 0 && fi.fraction < 1))
        {
            // grid[bin] is itself rounded: fraction may leave [0,1) by rounding only
            if (fi.fraction > -1e-9 && fi.fraction < 1 + 1e-9)
                ++soft;
            else if (hard++ == 0)
                first_hard = " find_interp-fraction v=" + vh::hexd(v);
        }
    }
    std::string s = "ugrid q=" + std::to_string(qs.size()) + " soft=" + std::to_string(soft);
    if (lastbin)
        s += " LAST-BIN n=" + std::to_string(lastbin) + first_last;
    if (hard)
        s += " HARD n=" + std::to_string(hard) + first_hard;
    return s;
}

static std::string grid_nugrid(VecS const& w)
{
    std::vector<double> xs;
    for (std::size_t i = 1; i < w.size(); ++i)
    {
        double x;
        if (!get_dbl(w[i], &x))
            return "bad-op";
        xs.push_back(x);
    }
    if (xs.size() < 2 || !std::is_sorted(xs.begin(), xs.end()) || !(xs.front() < xs.back()))
        return "precond";
    bool strict = std::adjacent_find(xs.begin(), xs.end()) == xs.end();
    GridStore<double> store(xs);
    NonuniformGrid<double> grid(store.range, store.ref);
    auto qs = knot_queries(xs, xs.front(), xs.back());
    std::size_t hard = 0, nanfrac = 0, soft = 0;
    std::string first_hard;
    for (double v : qs)
    {
        size_type got = grid.find(v);
        bool good = got + 1 < xs.size() && xs[got] <= v && v <= xs[got + 1]
                    && (xs[got] == v ? (got == 0 || xs[got - 1] < v) : v < xs[got + 1]);
        if (strict)
            good = good
                   && got + 1
                          == static_cast<size_type>(std::upper_bound(xs.begin(), xs.end(), v)
                                                    - xs.begin());
        if (good)
        {
            auto fi = find_interp(grid, v);
            ld want = (ld(v) - ld(xs[got])) / (ld(xs[got + 1]) - ld(xs[got]));
            if (xs[got + 1] == xs[got])
                ++nanfrac;  // zero-width bin selected (duplicate knot): 0/0
            else
            {
                good = fi.index == got && fi.fraction >= 0 && fi.fraction <= 1
                       && std::fabs(ld(fi.fraction) - want) <= 1e-15L;
                if (good && !(fi.fraction < 1))
                    ++soft;  // documented range is [0, 1): reached 1.0 by rounding
            }
        }
        if (!good && hard++ == 0)
            first_hard = " v=" + vh::hexd(v) + " got=" + std::to_string(got);
    }
    std::string s = "nugrid q=" + std::to_string(qs.size()) + " soft=" + std::to_string(soft)
                    + " zero-width=" + std::to_string(nanfrac);
    if (hard)
        s += " HARD n=" + std::to_string(hard) + first_hard;
    return s;
}

template<Interp XI, Interp YI>
static std::string interp_case(double xl, double yl, double xr, double yr)
{
    Interpolator<XI, YI, double> interp({xl, yl}, {xr, yr});
    auto fx = [](ld v) { return XI == Interp::log ? std::log2(v) : v; };
    auto fy = [](ld v) { return YI == Interp::log ? std::log2(v) : v; };
    auto fyinv = [](ld v) { return YI == Interp::log ? std::exp2(v) : v; };
    std::vector<double> qs = {xl, std::nextafter(xl, kInf), std::nextafter(xr, -kInf), xr};
    for (int i = 1; i < 8; ++i)
        qs.push_back(xl + (xr - xl) * (i / 8.0));
    ld worst = 0;
    std::size_t hard = 0;
    std::string first_hard;
    double lo = std::min(yl, yr), hi = std::max(yl, yr);
    for (double x : qs)
    {
        if (!(x >= xl && x <= xr))
            continue;
        double got = interp(x);
        ld want = fyinv(fy(yl) + (fy(yr) - fy(yl)) * (fx(x) - fx(xl)) / (fx(xr) - fx(xl)));
        ld scale = YI == Interp::log ? std::fabs(want) * (1 + std::fabs(fy(yl)) + std::fabs(fy(yr)))
                                     : ld(std::fabs(yl)) + std::fabs(yr);
        if (XI == Interp::log)
            scale *= 1 + (std::fabs(fx(xl)) + std::fabs(fx(xr))) / std::fabs(fx(xr) - fx(xl));
        ld err = std::fabs(ld(got) - want);
        ld rel = scale > 0 ? err / scale : err;
        worst = std::max(worst, rel);
        bool good = rel <= 64 * std::numeric_limits<double>::epsilon()
                    && got >= lo - 64 * std::numeric_limits<double>::epsilon() * double(scale)
                    && got <= hi + 64 * std::numeric_limits<double>::epsilon() * double(scale);
        if (x == xl && XI == Interp::linear && YI == Interp::linear)
            good = good && got == yl;  // fma(slope, 0, yl) is exact
        if (!good && hard++ == 0)
            first_hard = " x=" + vh::hexd(x) + " got=" + vh::hexd(got) + " want="
                         + vh::hexd(static_cast<double>(want));
    }
    std::string s = "interp q=" + std::to_string(qs.size()) + " worst=" + vh::hexd(double(worst));
    if (hard)
        s += " HARD n=" + std::to_string(hard) + first_hard;
    return s;
}

static std::string grid_interp(VecS const& w)
{
    double xl, yl, xr, yr;
    if (w.size() != 6 || !get_dbl(w[2], &xl) || !get_dbl(w[3], &yl) || !get_dbl(w[4], &xr)
        || !get_dbl(w[5], &yr))
        return "bad-op";
    if (!(xl < xr))
        return "precond";
    bool xlog = w[1] == "loglin" || w[1] == "loglog";
    bool ylog = w[1] == "linlog" || w[1] == "loglog";
    if ((xlog && !(xl > 0)) || (ylog && !(yl > 0 && yr > 0)))
        return "precond";
    if (w[1] == "linlin")
        return interp_case<Interp::linear, Interp::linear>(xl, yl, xr, yr);
    if (w[1] == "loglin")
        return interp_case<Interp::log, Interp::linear>(xl, yl, xr, yr);
    if (w[1] == "linlog")
        return interp_case<Interp::linear, Interp::log>(xl, yl, xr, yr);
    if (w[1] == "loglog")
        return interp_case<Interp::log, Interp::log>(xl, yl, xr, yr);
    return "bad-op";
}

// twod nx ny x... y... values(nx*ny)...
static std::string grid_twod(VecS const& w)
{
    u128 nx, ny;
    if (w.size() < 3 || !parse_nat(w[1], &nx) || !parse_nat(w[2], &ny) || nx < 2 || ny < 2
        || nx > 64 || ny > 64 || w.size() != 3 + nx + ny + nx * ny)
        return "bad-op";
    std::vector<double> all;
    for (std::size_t i = 3; i < w.size(); ++i)
    {
        double x;
        if (!get_dbl(w[i], &x))
            return "bad-op";
        all.push_back(x);
    }
    std::size_t NX = static_cast<std::size_t>(nx), NY = static_cast<std::size_t>(ny);
    std::vector<double> xs(all.begin(), all.begin() + NX), ys(all.begin() + NX, all.begin() + NX + NY),
        vals(all.begin() + NX + NY, all.end());
    auto strictly = [](std::vector<double> const& v) {
        return std::adjacent_find(v.begin(), v.end(), [](double a, double b) { return !(a < b); })
               == v.end();
    };
    if (!strictly(xs) || !strictly(ys))
        return "precond";
    Collection<real_type, Ownership::value, MemSpace::host> data;
    auto build = make_builder(&data);
    TwodGridData g;
    g.x = build.insert_back(xs.begin(), xs.end());
    g.y = build.insert_back(ys.begin(), ys.end());
    g.values = build.insert_back(vals.begin(), vals.end());
    Collection<real_type, Ownership::const_reference, MemSpace::host> ref;
    ref = data;
    TwodGridCalculator calc(g, ref);
    auto qx = knot_queries(xs, xs.front(), xs.back());
    auto qy = knot_queries(ys, ys.front(), ys.back());
    std::size_t hard = 0, q = 0;
    std::string first_hard;
    ld vmax = 0;
    for (double v : vals)
        vmax = std::max<ld>(vmax, std::fabs(v));
    for (double x : qx)
    {
        auto sub = calc(x);
        std::size_t ix = std::upper_bound(xs.begin(), xs.end(), x) - xs.begin() - 1;
        for (double y : qy)
        {
            ++q;
            std::size_t iy = std::upper_bound(ys.begin(), ys.end(), y) - ys.begin() - 1;
            ld fx = (ld(x) - xs[ix]) / (ld(xs[ix + 1]) - xs[ix]);
            ld fy = (ld(y) - ys[iy]) / (ld(ys[iy + 1]) - ys[iy]);
            auto at = [&](std::size_t i, std::size_t j) { return ld(vals[i * NY + j]); };
            ld want = (1 - fx) * ((1 - fy) * at(ix, iy) + fy * at(ix, iy + 1))
                      + fx * ((1 - fy) * at(ix + 1, iy) + fy * at(ix + 1, iy + 1));
            double got = sub(y);
            double got2 = calc(TwodGridCalculator::Point{x, y});
            bool good = sub.x_index() == ix && got == got2
                        && std::fabs(ld(got) - want)
                               <= 32 * std::numeric_limits<double>::epsilon() * vmax;
            if (!good && hard++ == 0)
                first_hard = " x=" + vh::hexd(x) + " y=" + vh::hexd(y) + " got=" + vh::hexd(got)
                             + " want=" + vh::hexd(static_cast<double>(want));
        }
    }
    std::string s = "twod q=" + std::to_string(q);
    if (hard)
        s += " HARD n=" + std::to_string(hard) + first_hard;
    return s;
}

//---------------------------------------------------------------------------//
int main(int argc, char** argv)
{
    bool grid_mode = argc > 1 && std::string(argv[1]) == "--grid";
    std::string line;
    while (std::getline(std::cin, line))
    {
        auto w = vh::words(line);
        std::string out = "bad-op";
        if (grid_mode)
        {
            if (!w.empty() && w[0] == "ugrid")
                out = grid_ugrid(w);
            else if (!w.empty() && w[0] == "nugrid")
                out = grid_nugrid(w);
            else if (!w.empty() && w[0] == "interp")
                out = grid_interp(w);
            else if (!w.empty() && w[0] == "twod")
                out = grid_twod(w);
            std::cout << out << "\n";
            continue;
        }
        auto secs = sections(w);
        if (secs.size() == 1)
        {
            out = scalar_op(secs[0]);
        }
        else if (!secs[0].empty())
        {
            std::string op = secs[0][0];
            VecS args(secs[0].begin() + 1, secs[0].end());
            std::vector<VecS> rest(secs.begin() + 1, secs.end());
            if (op == "hyperslab" || op == "hyperslab_inv" || op == "ragged" || op == "ragged_inv")
                out = indexer_op(op, args, rest);
            else if (op == "partition" || op == "all_of" || op == "any_of")
                out = pred_dispatch(op, args, rest);
            else if (op == "nugrid_find")
                out = nugrid_find(args, rest);
            else
                out = cmp_dispatch(op, args, rest);
        }
        std::cout << out << "\n";
    }
    return 0;
}
