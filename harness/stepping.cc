// SHARED H3 HARNESS: the real Stepper on programmatic problems (no Geant4 / ROOT data).
//
// Builds one of the repository's own test problems by instantiating its fixture directly
//   * simple : test/celeritas/SimpleTestBase  (Compton-only gammas, Al box in vacuum, KN model)
//   * mock   : test/celeritas/MockTestBase    (mock processes with continuous loss, charged and
//              neutral particle types, three concentric spheres), extended in this harness by
//              - a `positron` particle (PDG -11) so that the e+/e-/gamma production-cut loop of
//                InteractionApplier is reachable,
//              - `interactor 1`: every mock model runs the REAL InteractionApplier around a
//                harness interactor (scatter / absorb / unchanged / pair / at-rest annihilation,
//                up to 3 secondaries) instead of MockModel's empty host kernel,
//              - `along linear|fluct`: the stock AlongStepGeneralLinearAction (mean / fluctuating
//                loss), `along vlinear|vfluct`: the SAME appliers (celeritas::AlongStep<NoMsc,
//                LinearPropagatorFactory, MeanELoss|FluctELoss>) with recording adapters around
//                the propagator and the energy-loss handler (records G and L lines).
// and runs celeritas::Stepper<host> to completion (or `maxsteps` iterations), observing the core
// state through independent probe actions inserted at user_start, user_pre, along (last),
// pre_post (last) and user_post.  Output: the step log documented in common/steplog.hh.
//
// INPUT (stdin, one directive per line, `run` starts; decimal numbers unless stated):
//   problem simple|mock            slots N            capacity N         maxevents N
//   stackfactor X                  order <TrackOrder name, e.g. none init_charge reindex_shuffle
//                                         reindex_status reindex_particle_type ...>
//   seed N (RngParams seed)        maxsteps N         collector 0|1      statuscheck 0|1
//   along neutral|linear|fluct|vlinear|vfluct          (mock; simple is always neutral)
//   interactor 0|1                 xsscale X          lossscale X        posrest 0|1
//   cut <gamma|electron|positron> <MeV>   (all materials)    postcut 0|1
//   opt <min_range|max_step_over_range|fixed_step_limiter|linear_loss_limit|
//        lowest_electron_energy> X
//   primary <particle name> <E MeV> <x y z cm> <u v w> <event> <count>
//   msc 0|1    (mock: Urban MSC for e-/e+ in the along-step; UrbanMscParams is built from hand-made
//               tables: scaled cross section xs*E^2 = mscxs * {1, 1e3, 10, 1e-12} MeV^2/cm in the
//               four materials, log grid 1e-4..100 MeV; along linear|fluct use the stock
//               AlongStepGeneralLinearAction with these params, vlinear|vfluct the same appliers
//               with a recording adapter around celeritas::UrbanMsc (M lines))
//   mscalg minimal|safety|safety_plus|distance_to_boundary   (PhysicsParamsOptions)
//   mscxs X
//   errat N    (N>0: a harness action of order `along`, running after the real along-step
//               actions, calls the REAL CoreTrackView::apply_errored() on every alive track whose
//               step counter has just reached N: status errored, post-step action = tracking cut;
//               the REAL tracking-cut action then kills it in the same iteration and deposits
//               K (+2mc^2 for antiparticles).  Routes any particle type through
//               TrackingCutExecutor in flight; tracks started outside the world take the
//               errored-at-initialisation route)
//   quiet 0|1  (1: only I/T/R lines)
//   reset      (back to default configuration)
//   run
// Several `run`s may follow each other; settings persist, primaries are cleared after a run.
// Always run with CELER_DISABLE_PARALLEL=1 (vlib.sh sets it).
#include <algorithm>
#include <cmath>
#include <cstdlib>
#include <map>
#include <memory>
#include <sstream>

#include "corecel/cont/Range.hh"
#include "corecel/data/CollectionAlgorithms.hh"
#include "corecel/io/Logger.hh"
#include "corecel/sys/ActionRegistry.hh"
#include "geocel/UnitUtils.hh"
#include "celeritas/MockTestBase.hh"
#include "celeritas/SimpleTestBase.hh"
#include "celeritas/em/distribution/EnergyLossHelper.hh"
#include "celeritas/em/distribution/EnergyLossTraits.hh"
#include "celeritas/em/msc/UrbanMsc.hh"
#include "celeritas/em/params/FluctuationParams.hh"
#include "celeritas/em/params/UrbanMscParams.hh"
#include "celeritas/io/ImportModel.hh"
#include "celeritas/random/distribution/NormalDistribution.hh"
#include "celeritas/geo/GeoMaterialParams.hh"
#include "celeritas/geo/GeoParams.hh"
#include "celeritas/global/ActionInterface.hh"
#include "celeritas/global/ActionLauncher.hh"
#include "celeritas/global/ActionSequence.hh"
#include "celeritas/global/CoreParams.hh"
#include "celeritas/global/CoreState.hh"
#include "celeritas/global/CoreTrackView.hh"
#include "celeritas/global/Stepper.hh"
#include "celeritas/global/TrackExecutor.hh"
#include "celeritas/global/alongstep/AlongStep.hh"
#include "celeritas/global/alongstep/AlongStepGeneralLinearAction.hh"
#include "celeritas/global/alongstep/AlongStepNeutralAction.hh"
#include "celeritas/global/alongstep/detail/AlongStepNeutralImpl.hh"
#include "celeritas/global/alongstep/detail/FluctELoss.hh"
#include "celeritas/global/alongstep/detail/LinearPropagatorFactory.hh"
#include "celeritas/global/alongstep/detail/MeanELoss.hh"
#include "celeritas/mat/MaterialParams.hh"
#include "celeritas/phys/CutoffParams.hh"
#include "celeritas/phys/InteractionApplier.hh"
#include "celeritas/phys/PDGNumber.hh"
#include "celeritas/phys/ParticleParams.hh"
#include "celeritas/phys/PhysicsParams.hh"
#include "celeritas/phys/Primary.hh"
#include "celeritas/phys/Process.hh"
#include "celeritas/random/RngParams.hh"
#include "celeritas/random/distribution/GenerateCanonical.hh"
#include "celeritas/random/distribution/IsotropicDistribution.hh"
#include "celeritas/track/SimParams.hh"
#include "celeritas/track/TrackInitParams.hh"
#include "celeritas/user/StepCollector.hh"
#include "celeritas/user/StepInterface.hh"
#include "celeritas/phys/MockModel.hh"
#include "celeritas/phys/MockProcess.hh"

#include "common/steplog.hh"

using namespace celeritas;
using celeritas::test::MockModel;
using celeritas::test::MockProcess;
using celeritas::test::MockTestBase;
using celeritas::test::SimpleTestBase;
using vh::SlotRec;

namespace
{
//---------------------------------------------------------------------------------------------
struct PrimarySpec
{
    std::string particle;
    double energy;
    double pos[3];
    double dir[3];
    unsigned long event;
    unsigned long count;
};

struct Config
{
    std::string problem = "simple";
    unsigned long slots = 16, capacity = 4096, maxevents = 16, seed = 20220511, maxsteps = 100000;
    unsigned long errat = 0;
    bool msc = false;          // Urban MSC in the along-step (mock problem, hand-made tables)
    std::string mscalg = "safety";
    double mscxs = 1.0;        // scale of the hand-made MSC cross sections   // >0: mark every alive track errored after its errat-th along-step
    double stackfactor = 3.0;
    std::string order = "none";
    std::string along = "linear";
    bool interactor = false, collector = false, statuscheck = false, posrest = true, quiet = false;
    bool postcut = false;
    double xsscale = 1.0, lossscale = 1.0;
    std::map<std::string, double> cuts;   // MeV, all materials
    std::map<std::string, double> opts;
    std::vector<PrimarySpec> primaries;
};

//! Per-run shared observation store (single stream, sequential track loops)
struct Store
{
    std::vector<SlotRec> rec;
    long iter = 0;
};
Store g_store;

char status_char(TrackStatus s)
{
    switch (s)
    {
        case TrackStatus::inactive: return '-';
        case TrackStatus::initializing: return 'i';
        case TrackStatus::alive: return 'a';
        case TrackStatus::killed: return 'k';
        case TrackStatus::errored: return 'e';
        default: return '?';
    }
}
template<class I>
long id_to_long(I id)
{
    return id ? static_cast<long>(id.unchecked_get()) : -1;
}

TrackOrder parse_order(std::string const& s, bool* ok)
{
    *ok = true;
    for (auto o : range(TrackOrder::size_))
    {
        if (s == to_cstring(o))
            return o;
    }
    *ok = false;
    return TrackOrder::none;
}

//---------------------------------------------------------------------------------------------
// RECORDING ADAPTERS (template parameters of the real appliers; no source change)
//---------------------------------------------------------------------------------------------
template<class P>
struct RecPropagator
{
    P inner;
    SlotRec* rec;
    Propagation operator()(real_type dist)
    {
        Propagation p = inner(dist);
        rec->has_g = true;
        rec->g_dist = p.distance;
        rec->g_bnd = p.boundary ? 1 : 0;
        return p;
    }
    static constexpr bool tracks_can_loop() { return P::tracks_can_loop(); }
};

struct RecLinearPropagatorFactory
{
    decltype(auto) operator()(CoreTrackView const& track) const
    {
        using P = decltype(detail::LinearPropagatorFactory{}(track));
        return RecPropagator<P>{detail::LinearPropagatorFactory{}(track),
                                &g_store.rec[track.track_slot_id().unchecked_get()]};
    }
    static constexpr bool tracks_can_loop() { return false; }
};

//! Wraps MeanELoss / FluctELoss: forwards every call, records inputs and the result
template<class EH>
struct RecELoss
{
    using Energy = units::MevEnergy;
    EH eh;
    NativeCRef<FluctuationData> const* fluct = nullptr;   // non-null: replay the raw sample

    bool is_applicable(CoreTrackView const& track)
    {
        bool r = eh.is_applicable(track);
        auto& rec = g_store.rec[track.track_slot_id().unchecked_get()];
        rec.l_appl = r ? 1 : 0;
        return r;
    }

    template<EnergyLossFluctuationModel M>
    static Energy sample(EnergyLossHelper const& helper, RngEngine& rng)
    {
        typename EnergyLossTraits<M>::type sample_eloss{helper};
        return sample_eloss(rng);
    }

    Energy calc_eloss(CoreTrackView const& track, real_type step, bool apply_cut)
    {
        auto& rec = g_store.rec[track.track_slot_id().unchecked_get()];
        auto particle = track.make_particle_view();
        auto phys = track.make_physics_view();
        rec.has_l = true;
        rec.l_e = particle.energy().value();
        rec.l_step = step;
        rec.l_cut = apply_cut ? 1 : 0;
        rec.l_low = phys.scalars().lowest_electron_energy.value();
        Energy mean = calc_mean_energy_loss(particle, phys, step);
        rec.l_mean = mean.value();
        rec.l_has_sample = 0;
        bool below = apply_cut && particle.energy() < phys.scalars().lowest_electron_energy;
        if (fluct && !below && mean < particle.energy() && mean > zero_quantity())
        {
            // replay the sampling on the slot's own RNG, then restore the RNG state so that the
            // real FluctELoss::calc_eloss below sees exactly the state it would have seen
            auto const& states = track.core_scalars();   // (unused; keeps CoreTrackView API explicit)
            (void)states;
            auto cutoffs = track.make_cutoff_view();
            auto material = track.make_material_view();
            EnergyLossHelper helper(*fluct, cutoffs, material, particle, mean, step);
            // state of the slot's RNG NOW (MSC may already have drawn numbers in this step)
            saved = static_cast<NativeRef<RngStateData>*>(rng_states)->state[track.track_slot_id()];
            auto rng = track.make_rng_engine();
            // save / restore through the engine's own state accessors is not public: use a
            // scratch copy of the whole per-slot RNG state taken by the caller (see VAlongStep)
            Energy s = mean;
            switch (helper.model())
            {
                case EnergyLossFluctuationModel::none:
                    s = sample<EnergyLossFluctuationModel::none>(helper, rng);
                    break;
                case EnergyLossFluctuationModel::gamma:
                    s = sample<EnergyLossFluctuationModel::gamma>(helper, rng);
                    break;
                case EnergyLossFluctuationModel::gaussian:
                    s = sample<EnergyLossFluctuationModel::gaussian>(helper, rng);
                    break;
                case EnergyLossFluctuationModel::urban:
                    s = sample<EnergyLossFluctuationModel::urban>(helper, rng);
                    break;
            }
            rec.l_has_sample = 1;
            rec.l_sample = s.value();
            restore_rng(track);
        }
        Energy ret = eh.calc_eloss(track, step, apply_cut);
        rec.l_ret = ret.value();
        return ret;
    }

    // set by VAlongStep before each track: copy of the slot's RNG state
    static inline void* rng_states = nullptr;   // NativeRef<RngStateData>*
    static inline XorwowState saved{};
    static void save_rng(NativeRef<RngStateData> const& st, TrackSlotId tid)
    {
        rng_states = const_cast<NativeRef<RngStateData>*>(&st);
        saved = st.state[tid];
    }
    static void restore_rng(CoreTrackView const& track)
    {
        auto* st = static_cast<NativeRef<RngStateData>*>(rng_states);
        st->state[track.track_slot_id()] = saved;
    }
    static constexpr bool imprecise_range() { return EH::imprecise_range(); }
};

//! Wraps celeritas::UrbanMsc: forwards every call, records inputs / outputs (M line)
struct RecMsc
{
    UrbanMsc inner;
    NativeCRef<UrbanMscData> const* shared;
    NativeRef<RngStateData> const* rng_states;

    bool is_applicable(CoreTrackView const& track, real_type step) const
    {
        bool r = inner.is_applicable(track, step);
        auto& rec = g_store.rec[track.track_slot_id().unchecked_get()];
        rec.has_m = true;
        rec.m_appl = r ? 1 : 0;
        rec.m_phys = step;
        rec.m_alg = static_cast<int>(track.make_physics_view().scalars().step_limit_algorithm);
        return r;
    }

    void limit_step(CoreTrackView const& track)
    {
        auto& rec = g_store.rec[track.track_slot_id().unchecked_get()];
        auto phys = track.make_physics_view();
        auto par = track.make_particle_view();
        auto sim = track.make_sim_view();
        auto geo = track.make_geo_view();
        detail::UrbanMscHelper helper(*shared, par, phys);
        rec.m_phys = sim.step_length();
        rec.m_onb = geo.is_on_boundary() ? 1 : 0;
        rec.m_maxstep = helper.max_step();
        rec.m_mfp = helper.msc_mfp();
        rec.m_range = phys.dedx_range();
        {
            MscRange const& r0 = phys.msc_range();
            rec.m_v0 = r0 ? 1 : 0;
            rec.m_ri0 = r0.range_init;
            rec.m_rf0 = r0.range_factor;
            rec.m_lm0 = r0.limit_min;
        }
        // the same pre-conditions UrbanMsc::limit_step evaluates before it builds a step limiter
        rec.m_lim = 0;
        rec.m_safety = 0;
        if (!(sim.step_length() <= shared->params.limit_min_fix()))
        {
            bool far = false;
            if (!geo.is_on_boundary())
            {
                rec.m_safety = geo.find_safety(rec.m_maxstep);
                far = rec.m_safety >= rec.m_maxstep;
            }
            rec.m_lim = far ? 0 : 1;
        }
        // standard normal the Gaussian step sampler would draw at this RNG state
        {
            XorwowState saved = rng_states->state[track.track_slot_id()];
            auto rng = track.make_rng_engine();
            NormalDistribution<real_type> unit(0, 1);
            rec.m_z = unit(rng);
            const_cast<NativeRef<RngStateData>*>(rng_states)->state[track.track_slot_id()] = saved;
        }
        inner.limit_step(track);
        {
            MscRange const& r1 = phys.msc_range();
            rec.m_v1 = r1 ? 1 : 0;
            rec.m_ri1 = r1.range_init;
            rec.m_rf1 = r1.range_factor;
            rec.m_lm1 = r1.limit_min;
            auto const& ms = track.make_physics_step_view().msc_step();
            rec.m_true = ms.true_path;
            rec.m_geom = ms.geom_path;
            rec.m_limited = sim.post_step_action() == phys.scalars().msc_action() ? 1 : 0;
        }
    }

    void apply_step(CoreTrackView const& track)
    {
        auto& rec = g_store.rec[track.track_slot_id().unchecked_get()];
        auto geo = track.make_geo_view();
        Real3 const before = geo.pos();
        bool onb = geo.is_on_boundary();
        inner.apply_step(track);
        Real3 const after = track.make_geo_view().pos();
        rec.m_applied = 1;
        rec.m_truefinal = track.make_sim_view().step_length();
        real_type d2 = 0;
        for (int i = 0; i < 3; ++i)
            d2 += (after[i] - before[i]) * (after[i] - before[i]);
        rec.m_dlen = std::sqrt(d2);
        rec.m_displaced = d2 > 0 ? 1 : 0;
        rec.m_asafety = 0;
        if (rec.m_displaced && !onb)
        {
            // safety at the pre-displacement point (independent of the value apply_step used):
            // move back, measure, move forward again (both inside the same volume)
            auto g2 = track.make_geo_view();
            g2.move_internal(before);
            rec.m_asafety = g2.find_safety(10 * rec.m_dlen + shared->params.geom_limit);
            g2.move_internal(after);
        }
    }
};

//! Along-step action of the harness: the real appliers with recording adapters
class VAlongStep final : public CoreStepActionInterface
{
  public:
    VAlongStep(ActionId id,
               std::shared_ptr<FluctuationParams const> fluct,
               std::shared_ptr<UrbanMscParams const> msc)
        : id_(id), fluct_(std::move(fluct)), msc_(std::move(msc))
    {
    }
    void step(CoreParams const& params, CoreStateHost& state) const final
    {
        auto launch = [&](auto&& execute_track) {
            return launch_action(*this,
                                 params,
                                 state,
                                 make_along_step_track_executor(params.ptr<MemSpace::native>(),
                                                                state.ptr(),
                                                                this->action_id(),
                                                                std::forward<decltype(execute_track)>(
                                                                    execute_track)));
        };
        auto const& sref = state.ref();
        // the four combinations {NoMsc, RecMsc} x {Mean, Fluct}: same celeritas::AlongStep
        auto run = [&](auto make_msc) {
            if (fluct_)
            {
                auto const& fref = fluct_->ref<MemSpace::native>();
                launch([&, make_msc](CoreTrackView& track) {
                    RecELoss<detail::FluctELoss>::save_rng(sref.rng, track.track_slot_id());
                    AlongStep{make_msc(),
                              RecLinearPropagatorFactory{},
                              RecELoss<detail::FluctELoss>{detail::FluctELoss{fref}, &fref}}(track);
                });
            }
            else
            {
                launch([&, make_msc](CoreTrackView& track) {
                    AlongStep{make_msc(),
                              RecLinearPropagatorFactory{},
                              RecELoss<detail::MeanELoss>{detail::MeanELoss{}, nullptr}}(track);
                });
            }
        };
        if (msc_)
        {
            auto const& mref = msc_->ref<MemSpace::native>();
            run([&mref, &sref] { return RecMsc{UrbanMsc{mref}, &mref, &sref.rng}; });
        }
        else
        {
            run([] { return detail::NoMsc{}; });
        }
    }
    void step(CoreParams const&, CoreStateDevice&) const final { CELER_NOT_CONFIGURED("CUDA"); }
    ActionId action_id() const final { return id_; }
    std::string_view label() const final { return "along-step-verif-linear"; }
    std::string_view description() const final
    {
        return "AlongStep<NoMsc, LinearPropagatorFactory, Mean|FluctELoss> with recording adapters";
    }
    StepActionOrder order() const final { return StepActionOrder::along; }

  private:
    ActionId id_;
    std::shared_ptr<FluctuationParams const> fluct_;
    std::shared_ptr<UrbanMscParams const> msc_;
};

//---------------------------------------------------------------------------------------------
// HARNESS INTERACTOR (mock problem, `interactor 1`): applied through the REAL InteractionApplier
//---------------------------------------------------------------------------------------------
struct VInteractor
{
    // particle ids of the extended mock problem
    ParticleId gamma, celeriton, anticeleriton, electron, positron;

    Interaction operator()(CoreTrackView const& track) const
    {
        auto& rec = g_store.rec[track.track_slot_id().unchecked_get()];
        Interaction result = this->sample(track);
        rec.has_x = true;
        ++rec.x_calls;
        char const first_kind = result.action == Interaction::Action::scattered   ? 's'
                                : result.action == Interaction::Action::absorbed  ? 'a'
                                : result.action == Interaction::Action::unchanged ? 'u'
                                                                                  : 'f';
        if (rec.x_calls == 1)
            rec.x_first = first_kind;
        rec.x_kind = result.action == Interaction::Action::scattered   ? 's'
                     : result.action == Interaction::Action::absorbed  ? 'a'
                     : result.action == Interaction::Action::unchanged ? 'u'
                                                                       : 'f';
        rec.x_e = result.energy.value();
        rec.x_dep = result.energy_deposition.value();
        rec.x_secs.clear();
        for (auto const& s : result.secondaries)
            rec.x_secs.push_back({static_cast<int>(id_to_long(s.particle_id)), s.energy.value()});
        return result;
    }

    Interaction sample(CoreTrackView const& track) const
    {
        using Energy = units::MevEnergy;
        auto particle = track.make_particle_view();
        auto rng = track.make_rng_engine();
        real_type const e = particle.energy().value();
        real_type const mass = particle.mass().value();
        Real3 const dir = track.make_geo_view().dir();
        auto alloc = track.make_physics_step_view().make_secondary_allocator();
        IsotropicDistribution<real_type> iso;

        auto make = [&](size_type n) -> Secondary* { return n ? alloc(n) : nullptr; };

        if (e == 0)
        {
            // at rest: antiparticles annihilate into two photons of energy mc^2 each
            Interaction r = Interaction::from_absorption();
            if (particle.is_antiparticle())
            {
                Secondary* s = make(2);
                if (!s)
                    return Interaction::from_failure();
                Real3 d = iso(rng);
                s[0].particle_id = gamma;
                s[0].energy = Energy{mass};
                s[0].direction = d;
                s[1].particle_id = gamma;
                s[1].energy = Energy{mass};
                s[1].direction = {-d[0], -d[1], -d[2]};
                r.secondaries = {s, 2};
            }
            return r;
        }

        // CONTRACT of this interactor (what C01's interaction_balance assumes, = property C04):
        //   K_in + 2 m_in [in is antiparticle and absorbed]
        //     = K_out + edep + sum_s (K_s + 2 m_s [s is antiparticle])      (up to rounding)
        real_type u = generate_canonical(rng);
        real_type f = generate_canonical(rng);
        real_type g = generate_canonical(rng);
        if (g < real_type(0.25))
        {
            // extreme sharing: produces secondaries below the production cuts
            f = f < real_type(0.5) ? real_type(0.02) * f : 1 - real_type(0.02) * f;
        }
        if (particle.particle_id() == gamma)
        {
            real_type const me = ParticleView(track.make_particle_view(electron)).mass().value();
            if (u < real_type(0.25) && e > 2 * 1 + real_type(0.05))
            {
                // pair production of celeriton / anti-celeriton (mass 1 each)
                Secondary* s = make(2);
                if (!s)
                    return Interaction::from_failure();
                real_type k = e - 2 * real_type(1);
                real_type k1 = k * f;
                s[0].particle_id = celeriton;
                s[0].energy = Energy{k1};
                s[0].direction = dir;
                s[1].particle_id = anticeleriton;
                s[1].energy = Energy{k - k1};
                s[1].direction = iso(rng);
                Interaction r = Interaction::from_absorption();
                r.secondaries = {s, 2};
                return r;
            }
            if (u < real_type(0.45) && positron && e > 2 * me + real_type(0.01))
            {
                // e+ e- pair
                Secondary* s = make(2);
                if (!s)
                    return Interaction::from_failure();
                real_type k = e - 2 * me;
                real_type k1 = k * f;
                s[0].particle_id = electron;
                s[0].energy = Energy{k1};
                s[0].direction = dir;
                s[1].particle_id = positron;
                s[1].energy = Energy{k - k1};
                s[1].direction = iso(rng);
                Interaction r = Interaction::from_absorption();
                r.secondaries = {s, 2};
                return r;
            }
            if (u < real_type(0.6))
            {
                // absorption: electron gets part, rest deposited locally
                Secondary* s = make(1);
                if (!s)
                    return Interaction::from_failure();
                real_type e1 = e * f;
                s[0].particle_id = electron;
                s[0].energy = Energy{e1};
                s[0].direction = iso(rng);
                Interaction r = Interaction::from_absorption();
                r.energy_deposition = Energy{e - e1};
                r.secondaries = {s, 1};
                return r;
            }
            // Compton-like scatter
            Secondary* s = make(1);
            if (!s)
                return Interaction::from_failure();
            real_type eout = e * (real_type(0.05) + real_type(0.9) * f);
            s[0].particle_id = electron;
            s[0].energy = Energy{e - eout};
            s[0].direction = iso(rng);
            Interaction r;
            r.action = Interaction::Action::scattered;
            r.energy = Energy{eout};
            r.direction = iso(rng);
            r.secondaries = {s, 1};
            return r;
        }

        // massive particles
        if (u < real_type(0.1))
            return Interaction::from_unchanged();
        if (u < real_type(0.2))
        {
            // absorbed: a photon takes part of the energy, the rest is deposited
            Secondary* s = make(1);
            if (!s)
                return Interaction::from_failure();
            real_type e1 = e * f;
            s[0].particle_id = gamma;
            s[0].energy = Energy{e1};
            s[0].direction = iso(rng);
            Interaction r = Interaction::from_absorption();
            // an antiparticle absorbed in flight releases its 2mc^2 locally
            r.energy_deposition
                = Energy{(e - e1) + (particle.is_antiparticle() ? 2 * mass : real_type(0))};
            r.secondaries = {s, 1};
            return r;
        }
        // scattered with delta ray + photon (+ third, sometimes zero-energy-free deposit)
        size_type n = u < real_type(0.6) ? 2 : 3;
        Secondary* s = make(n);
        if (!s)
            return Interaction::from_failure();
        real_type lost = e * (real_type(0.5) * f);
        real_type eout = e - lost;
        real_type e1 = lost * g;
        real_type rem = lost - e1;
        real_type e2 = rem * real_type(0.75);
        real_type rem2 = rem - e2;
        s[0].particle_id = electron;
        s[0].energy = Energy{e1};
        s[0].direction = iso(rng);
        s[1].particle_id = gamma;
        s[1].energy = Energy{e2};
        s[1].direction = iso(rng);
        Interaction r;
        r.action = Interaction::Action::scattered;
        r.energy = Energy{eout};
        r.direction = iso(rng);
        if (n == 3)
        {
            s[2].particle_id = g < real_type(0.5) ? electron : gamma;
            s[2].energy = Energy{rem2};
            s[2].direction = iso(rng);
        }
        else
        {
            r.energy_deposition = Energy{rem2};
        }
        // never emit an exactly-zero-energy secondary (ProcessSecondaries asserts > 0)
        for (size_type i = 0; i < n; ++i)
        {
            if (!(s[i].energy > zero_quantity()))
                s[i] = {};
        }
        r.secondaries = {s, n};
        return r;
    }
};

//! Model = MockModel's tables + a host kernel running the real InteractionApplier
class VModel final : public Model
{
  public:
    // zero_lower: this is the lowest-energy model of a process that has a positive cross
    // section at its low end (massive particles stop; photons can be scattered below the stock
    // lower model limit 1e-6 MeV: in both cases the process is still selectable — flat xs
    // extrapolation — and needs a model there).  PhysicsParams then marks the particle
    // `has_at_rest`, and a stopped track selects this process at E = 0: the model must cover
    // E = 0 (as the real e+ annihilation model does), otherwise ModelFinder returns an invalid id.
    // wide_upper: this is the highest-energy model of its process for this particle.  The
    // XsCalculator extrapolates the process cross section flat ABOVE its grid, so the process can
    // be selected there, but the ModelFinder returns an invalid id beyond the last model: extend
    // the last model up to 1000 MeV (stock MockTestBase: a celeriton above 10 MeV selecting
    // "meows" stores a garbage ActionId, which makes the action-sorting track orders write out of
    // bounds).  DISABLED (crashes at set-up for some configurations, not diagnosed): callers must
    // keep all mock energies <= 10 MeV, the common upper limit of the stock process ranges.
    VModel(std::shared_ptr<MockModel const> inner, VInteractor vi, bool zero_lower, bool wide_upper)
        : inner_(std::move(inner)), vi_(vi), zero_lower_(zero_lower), wide_upper_(wide_upper)
    {
        label_ = "verif-model-" + std::to_string(inner_->action_id().get());
        lower_ = inner_->applicability().begin()->lower;
        upper_ = inner_->applicability().begin()->upper;
    }
    SetApplicability applicability() const final
    {
        SetApplicability out;
        for (Applicability a : inner_->applicability())
        {
            if (zero_lower_)
                a.lower = zero_quantity();
            if (wide_upper_)
                a.upper = units::MevEnergy{1000};
            out.insert(a);
        }
        return out;
    }
    MicroXsBuilders micro_xs(Applicability range) const final
    {
        if (range.lower < lower_)
            range.lower = lower_;
        if (range.upper > upper_)
            range.upper = upper_;
        return inner_->micro_xs(range);
    }
    void step(CoreParams const& params, CoreStateHost& state) const final
    {
        auto execute = make_action_track_executor(params.ptr<MemSpace::native>(),
                                                  state.ptr(),
                                                  this->action_id(),
                                                  InteractionApplier{VInteractor{vi_}});
        return launch_action(*this, params, state, execute);
    }
    void step(CoreParams const&, CoreStateDevice&) const final { CELER_NOT_CONFIGURED("CUDA"); }
    ActionId action_id() const final { return inner_->action_id(); }
    std::string_view label() const final { return label_; }
    std::string_view description() const final { return inner_->description(); }

  private:
    std::shared_ptr<MockModel const> inner_;
    VInteractor vi_;
    bool zero_lower_;
    bool wide_upper_;
    units::MevEnergy lower_;
    units::MevEnergy upper_;
    std::string label_;
};

class VProcess final : public Process
{
  public:
    VProcess(MockProcess::Input inp,
             VInteractor vi,
             bool interact,
             std::shared_ptr<ParticleParams const> particles)
        : inner_(inp), inp_(inp), vi_(vi), interact_(interact), particles_(std::move(particles))
    {
    }
    VecModel build_models(ActionIdIter start_id) const final
    {
        VecModel base = inner_.build_models(start_id);
        if (!interact_)
            return base;
        VecModel out;
        for (std::size_t i = 0; i < base.size(); ++i)
        {
            Applicability const& a = inp_.applic[i];
            bool lowest = true, highest = true;
            for (auto const& b : inp_.applic)
            {
                lowest = lowest && !(b.particle == a.particle && b.lower < a.lower);
                highest = highest && !(b.particle == a.particle && b.upper > a.upper);
            }
            bool massive = particles_->get(a.particle).mass() > zero_quantity();
            bool xs_low = !inp_.xs.empty() && inp_.xs.front() > zero_quantity();
            out.push_back(std::make_shared<VModel>(
                std::dynamic_pointer_cast<MockModel const>(base[i]), vi_,
                lowest && (massive || true) && xs_low, /*wide_upper=*/false && highest));
        }
        return out;
    }
    StepLimitBuilders step_limits(Applicability range) const final
    {
        // grids are built on the process's own energy range (never from E = 0)
        for (auto const& b : inp_.applic)
        {
            if (b.particle == range.particle && range.lower < b.lower)
            {
                bool lower_one = true;
                for (auto const& c : inp_.applic)
                    lower_one = lower_one && !(c.particle == b.particle && c.lower < b.lower);
                if (lower_one)
                    range.lower = b.lower;
            }
            if (b.particle == range.particle && range.upper > b.upper)
            {
                bool upper_one = true;
                for (auto const& c : inp_.applic)
                    upper_one = upper_one && !(c.particle == b.particle && c.upper > b.upper);
                if (upper_one)
                    range.upper = b.upper;
            }
        }
        return inner_.step_limits(range);
    }
    bool use_integral_xs() const final { return inner_.use_integral_xs(); }
    std::string_view label() const final { return inner_.label(); }

  private:
    MockProcess inner_;
    MockProcess::Input inp_;
    VInteractor vi_;
    bool interact_;
    std::shared_ptr<ParticleParams const> particles_;
};

//---------------------------------------------------------------------------------------------
// FIXTURES
//---------------------------------------------------------------------------------------------
class SimpleFix : public SimpleTestBase
{
  public:
    explicit SimpleFix(Config const& c) : c_(c)
    {
    }
    void TestBody() override {}
    SPConstTrackInit build_init() override
    {
        bool ok;
        TrackInitParams::Input input;
        input.capacity = c_.capacity;
        input.max_events = c_.maxevents;
        input.track_order = parse_order(c_.order, &ok);
        return std::make_shared<TrackInitParams>(input);
    }
    real_type secondary_stack_factor() const override { return c_.stackfactor; }
    SPConstCutoff build_cutoff() override
    {
        if (c_.cuts.empty() && !c_.postcut)
            return SimpleTestBase::build_cutoff();
        using namespace ::celeritas::units;
        CutoffParams::Input input;
        input.materials = this->material();
        input.particles = this->particle();
        auto get = [&](char const* n, double dflt) {
            auto it = c_.cuts.find(n);
            return MevEnergy{it == c_.cuts.end() ? dflt : it->second};
        };
        input.cutoffs = {
            {pdg::gamma(),
             {{get("gamma", 0.01), 0.1 * millimeter}, {get("gamma", 100), 100 * centimeter}}},
            {pdg::electron(),
             {{get("electron", 1000), 1000 * centimeter},
              {get("electron", 1000), 1000 * centimeter}}},
        };
        input.apply_post_interaction = c_.postcut;
        return std::make_shared<CutoffParams>(std::move(input));
    }
  private:
    Config c_;
};

class MockFix : public MockTestBase
{
  public:
    explicit MockFix(Config const& c) : c_(c)
    {
    }
    void TestBody() override {}

    SPConstParticle build_particle() override
    {
        using namespace constants;
        using namespace units;
        constexpr auto zero = zero_quantity();
        ParticleParams::Input inp;
        if (c_.msc)
        {
            // MscParamsHelper::build_xs indexes its two-entry table array with the PARTICLE ID of
            // the electron (`xs_tables_[par_ids_[0].get()]`), i.e. it silently assumes that e- and
            // e+ are particles 0 and 1: with any other numbering it reads out of bounds (SIGSEGV
            // with the stock mock order).  With `msc 1` the electron and positron come first.
            inp.push_back({"electron", pdg::electron(), MevMass{0.5109989461},
                           ElementaryCharge{-1}, stable_decay_constant});
            inp.push_back({"positron", pdg::positron(), MevMass{0.5109989461},
                           ElementaryCharge{1}, stable_decay_constant});
            inp.push_back({"gamma", pdg::gamma(), zero, zero, stable_decay_constant});
            inp.push_back({"celeriton", PDGNumber{1337}, MevMass{1}, ElementaryCharge{1},
                           stable_decay_constant});
            inp.push_back({"anti-celeriton", PDGNumber{-1337}, MevMass{1}, ElementaryCharge{-1},
                           stable_decay_constant});
            inp.push_back({"celerino", PDGNumber{81}, MevMass{0}, ElementaryCharge{0},
                           stable_decay_constant});
            return std::make_shared<ParticleParams>(std::move(inp));
        }
        inp.push_back({"gamma", pdg::gamma(), zero, zero, stable_decay_constant});
        inp.push_back({"celeriton", PDGNumber{1337}, MevMass{1}, ElementaryCharge{1},
                       stable_decay_constant});
        inp.push_back({"anti-celeriton", PDGNumber{-1337}, MevMass{1}, ElementaryCharge{-1},
                       stable_decay_constant});
        inp.push_back({"electron", pdg::electron(), MevMass{0.5109989461}, ElementaryCharge{-1},
                       stable_decay_constant});
        inp.push_back({"celerino", PDGNumber{81}, MevMass{0}, ElementaryCharge{0},
                       stable_decay_constant});
        inp.push_back({"positron", pdg::positron(), MevMass{0.5109989461}, ElementaryCharge{1},
                       stable_decay_constant});
        return std::make_shared<ParticleParams>(std::move(inp));
    }

    SPConstCutoff build_cutoff() override
    {
        using namespace ::celeritas::units;
        CutoffParams::Input input;
        input.materials = this->material();
        input.particles = this->particle();
        size_type nmat = this->material()->size();
        for (auto const& kv : c_.cuts)
        {
            PDGNumber p = kv.first == "gamma"      ? pdg::gamma()
                          : kv.first == "electron" ? pdg::electron()
                                                   : pdg::positron();
            CutoffParams::MaterialCutoffs mc(nmat, {MevEnergy{kv.second}, 0.07 * centimeter});
            input.cutoffs.insert({p, mc});
        }
        input.apply_post_interaction = c_.postcut;
        return std::make_shared<CutoffParams>(std::move(input));
    }

    SPConstTrackInit build_init() override
    {
        bool ok;
        TrackInitParams::Input input;
        input.capacity = c_.capacity;
        input.max_events = c_.maxevents;
        input.track_order = parse_order(c_.order, &ok);
        return std::make_shared<TrackInitParams>(input);
    }

    PhysicsOptions build_physics_options() const override
    {
        PhysicsOptions o;
        o.secondary_stack_factor = c_.stackfactor;
        for (auto a : range(MscStepLimitAlgorithm::size_))
        {
            if (c_.mscalg == to_cstring(a))
                o.step_limit_algorithm = a;
        }
        for (auto const& kv : c_.opts)
        {
            if (kv.first == "min_range")
                o.min_range = kv.second;
            else if (kv.first == "max_step_over_range")
                o.max_step_over_range = kv.second;
            else if (kv.first == "fixed_step_limiter")
                o.fixed_step_limiter = kv.second;
            else if (kv.first == "linear_loss_limit")
                o.linear_loss_limit = kv.second;
            else if (kv.first == "lowest_electron_energy")
                o.lowest_electron_energy = units::MevEnergy{kv.second};
            else if (kv.first == "lambda_limit")
                o.lambda_limit = kv.second;
            else if (kv.first == "range_factor")
                o.range_factor = kv.second;
            else if (kv.first == "safety_factor")
                o.safety_factor = kv.second;
        }
        return o;
    }

    SPConstPhysics build_physics() override
    {
        using Barn = MockProcess::BarnMicroXs;
        using test::MevCmSqLossDens;
        PhysicsParams::Input physics_inp;
        physics_inp.materials = this->material();
        physics_inp.particles = this->particle();
        physics_inp.options = this->build_physics_options();
        physics_inp.action_registry = this->action_reg().get();

        VInteractor vi;
        vi.gamma = this->particle()->find("gamma");
        vi.celeriton = this->particle()->find("celeriton");
        vi.anticeleriton = this->particle()->find("anti-celeriton");
        vi.electron = this->particle()->find("electron");
        vi.positron = this->particle()->find("positron");

        double const xs = c_.xsscale, ls = c_.lossscale;
        auto add = [&](char const* label,
                       bool integral,
                       MockProcess::VecApplicability applic,
                       std::vector<double> barns,
                       double loss) {
            MockProcess::Input inp;
            inp.materials = this->material();
            inp.interact = this->make_model_callback();
            inp.label = label;
            inp.use_integral_xs = integral;
            inp.applic = std::move(applic);
            for (double b : barns)
                inp.xs.push_back(Barn{b * xs});
            inp.energy_loss = MevCmSqLossDens{loss * ls * 1e-20};
            physics_inp.processes.push_back(
                std::make_shared<VProcess>(inp, vi, c_.interactor, this->particle()));
        };
        // same processes as MockTestBase::build_physics (cross sections / losses scalable)
        add("scattering", false,
            {make_applicability("gamma", 1e-6, 100), make_applicability("celeriton", 1, 100)},
            {1.0, 1.0}, 0);
        add("absorption", false, {make_applicability("gamma", 1e-6, 100)}, {2.0, 2.0}, 0);
        add("purrs", true,
            {make_applicability("celeriton", 1e-3, 1), make_applicability("celeriton", 1, 10),
             make_applicability("celeriton", 10, 100)},
            {3.0, 3.0}, 0.6);
        add("hisses", true,
            {make_applicability("anti-celeriton", 1e-3, 1),
             make_applicability("anti-celeriton", 1, 100)},
            {4.0, 4.0}, 0.7);
        add("meows", true,
            {make_applicability("celeriton", 1e-3, 10),
             make_applicability("anti-celeriton", 1e-3, 10)},
            {5.0, 5.0}, 0);
        add("barks", true, {make_applicability("electron", 1e-5, 10)}, {0, 6.0, 12.0, 6.0}, 0.5);
        // added: positron process.  posrest=1: cross section positive down to zero energy, so
        // the positron has an at-rest interaction; posrest=0: xs vanishes at the low end, a
        // positron that ranges out is killed by ElossApplier (range action) without annihilating
        if (c_.posrest)
            add("snarls", true, {make_applicability("positron", 1e-5, 100)}, {7.0, 7.0}, 0.5);
        else
            add("snarls", true, {make_applicability("positron", 1e-5, 100)}, {0, 7.0, 7.0}, 0.5);
        return std::make_shared<PhysicsParams>(std::move(physics_inp));
    }

    SPConstAction build_along_step() override
    {
        auto& reg = *this->action_reg();
        if (c_.along == "neutral")
        {
            auto result = std::make_shared<AlongStepNeutralAction>(reg.next_id());
            reg.insert(result);
            return result;
        }
        auto msc = this->build_msc();
        if (c_.along == "linear" || c_.along == "fluct")
        {
            auto result = AlongStepGeneralLinearAction::from_params(
                reg.next_id(), *this->material(), *this->particle(), msc, c_.along == "fluct");
            reg.insert(result);
            return result;
        }
        std::shared_ptr<FluctuationParams const> fluct;
        if (c_.along == "vfluct")
            fluct = std::make_shared<FluctuationParams>(*this->particle(), *this->material());
        auto result = std::make_shared<VAlongStep>(reg.next_id(), fluct, msc);
        reg.insert(result);
        return result;
    }

    //! Urban MSC parameters from hand-made tables (no Geant4 data): one log-spaced vector of
    //! the energy-squared-scaled macroscopic cross section per material for e- and e+
    std::shared_ptr<UrbanMscParams const> build_msc()
    {
        if (!c_.msc)
            return nullptr;
        std::vector<ImportMscModel> models;
        // per material: inner (lo density), middle (composite), outer (hi density), world
        double const base[] = {1.0, 1.0e3, 10.0, 1.0e-12};
        for (int pdg : {11, -11})
        {
            ImportMscModel m;
            m.particle_pdg = pdg;
            m.model_class = ImportModelClass::urban_msc;
            m.xs_table.table_type = ImportTableType::msc_xs;
            m.xs_table.x_units = ImportUnits::mev;
            m.xs_table.y_units = ImportUnits::mev_2_per_cm;
            for (double b : base)
            {
                ImportPhysicsVector v;
                v.vector_type = ImportPhysicsVectorType::log;
                int const n = 25;   // 1e-4 .. 100 MeV, 4 points per decade
                for (int i = 0; i < n; ++i)
                {
                    double e = 1e-4 * std::pow(10.0, i / 4.0);
                    if (i == n - 1)
                        e = 100.0;
                    v.x.push_back(e);
                    // mildly energy dependent, a little larger for e+
                    v.y.push_back(c_.mscxs * b * (1.0 + 0.1 * std::log10(e / 1e-4))
                                  * (pdg < 0 ? 1.05 : 1.0));
                }
                m.xs_table.physics_vectors.push_back(std::move(v));
            }
            models.push_back(std::move(m));
        }
        return std::make_shared<UrbanMscParams>(*this->particle(), *this->material(), models);
    }

  private:
    Config c_;
};

//! `errat N`: marks tracks errored through the real CoreTrackView::apply_errored
class ErrorMarker final : public CoreStepActionInterface
{
  public:
    ErrorMarker(ActionId id, size_type nsteps) : id_(id), nsteps_(nsteps) {}
    void step(CoreParams const& params, CoreStateHost& state) const final
    {
        auto const& pref = params.ref<MemSpace::native>();
        auto const& sref = state.ref();
        for (auto slot : range(TrackSlotId{state.size()}))
        {
            CoreTrackView track(pref, sref, slot);
            auto sim = track.make_sim_view();
            if (sim.status() == TrackStatus::alive && sim.num_steps() == nsteps_)
                track.apply_errored();
        }
    }
    void step(CoreParams const&, CoreStateDevice&) const final { CELER_NOT_CONFIGURED("CUDA"); }
    ActionId action_id() const final { return id_; }
    std::string_view label() const final { return "verif-error-marker"; }
    std::string_view description() const final { return "apply_errored after N steps"; }
    StepActionOrder order() const final { return StepActionOrder::along; }

  private:
    ActionId id_;
    size_type nsteps_;
};

//---------------------------------------------------------------------------------------------
// PROBES: independent user actions reading the core state directly
//---------------------------------------------------------------------------------------------
enum class Phase
{
    start,
    pre,
    along,
    prepost,
    post
};

void fill_point(vh::PointRec& p, CoreTrackView const& track)
{
    auto geo = track.make_geo_view();
    auto par = track.make_particle_view();
    auto sim = track.make_sim_view();
    p.e = par.energy().value();
    for (int i = 0; i < 3; ++i)
    {
        p.pos[i] = geo.pos()[i];
        p.dir[i] = geo.dir()[i];
    }
    p.t = sim.time();
    p.vol = geo.is_outside() ? -1 : id_to_long(geo.volume_id());
    p.bnd = geo.is_on_boundary() ? 1 : 0;
}

class Probe final : public CoreStepActionInterface
{
  public:
    Probe(ActionId id, StepActionOrder order, Phase phase, std::string label)
        : id_(id), order_(order), phase_(phase), label_(std::move(label))
    {
    }
    void step(CoreParams const& params, CoreStateHost& state) const final
    {
        auto const& pref = params.ref<MemSpace::native>();
        auto const& sref = state.ref();
        for (auto slot : range(TrackSlotId{state.size()}))
        {
            CoreTrackView track(pref, sref, slot);
            auto& rec = g_store.rec[slot.unchecked_get()];
            auto sim = track.make_sim_view();
            TrackStatus st = sim.status();
            if (phase_ == Phase::start)
            {
                rec.clear_step();
                rec.st[0] = status_char(st);
                continue;
            }
            if (phase_ == Phase::pre)
            {
                rec.st[1] = status_char(st);
                rec.active = (st != TrackStatus::inactive);
                if (!rec.active)
                    continue;
                rec.ev = id_to_long(sim.event_id());
                rec.trk = id_to_long(sim.track_id());
                rec.par = id_to_long(sim.parent_id());
                rec.pid = id_to_long(track.make_particle_view().particle_id());
                fill_point(rec.p0, track);
                rec.lim = sim.step_length();
                rec.limact = id_to_long(sim.post_step_action());
                rec.along = id_to_long(sim.along_step_action());
                auto matid = track.make_material_view().material_id();
                rec.mat = st == TrackStatus::alive ? id_to_long(matid) : -1;
                if (st == TrackStatus::alive && matid)
                {
                    auto phys = track.make_physics_view();
                    auto pstep = track.make_physics_step_view();
                    rec.mfp0 = phys.interaction_mfp();
                    rec.xs = pstep.macro_xs();
                    bool eloss = static_cast<bool>(phys.eloss_ppid());
                    bool stopped = track.make_particle_view().is_stopped();
                    rec.rng = (eloss && !stopped) ? phys.dedx_range() : 0;
                    rec.flags = (stopped ? 1 : 0) | (eloss ? 2 : 0) | (phys.has_at_rest() ? 4 : 0)
                                | (phys.num_particle_processes() == 0 ? 8 : 0);
                }
                continue;
            }
            if (!rec.active)
                continue;
            if (phase_ == Phase::along)
            {
                rec.st[2] = status_char(st);
                rec.ea = track.make_particle_view().energy().value();
                rec.depa = track.make_physics_step_view().energy_deposition().value();
                rec.ta = sim.time();
                rec.stepa = sim.step_length();
                rec.acta = id_to_long(sim.post_step_action());
                rec.bnda = track.make_geo_view().is_on_boundary() ? 1 : 0;
                if (rec.mat >= 0)
                    rec.mfpa = track.make_physics_view().interaction_mfp();
            }
            else if (phase_ == Phase::prepost)
            {
                rec.st[3] = status_char(st);
                rec.act3 = id_to_long(sim.post_step_action());
            }
            else
            {
                rec.st[4] = status_char(st);
                fill_point(rec.p1, track);
                rec.nstep = sim.num_steps();
                rec.step = sim.step_length();
                rec.act = id_to_long(sim.post_step_action());
                auto pstep = track.make_physics_step_view();
                rec.dep = pstep.energy_deposition().value();
                if (rec.mat >= 0 && track.make_material_view().material_id())
                    rec.mfp1 = track.make_physics_view().interaction_mfp();
                rec.secs.clear();
                for (auto const& s : pstep.secondaries())
                {
                    if (s)
                        rec.secs.push_back(
                            {static_cast<int>(id_to_long(s.particle_id)), s.energy.value()});
                }
            }
        }
    }
    void step(CoreParams const&, CoreStateDevice&) const final { CELER_NOT_CONFIGURED("CUDA"); }
    ActionId action_id() const final { return id_; }
    std::string_view label() const final { return label_; }
    std::string_view description() const final { return "verification probe"; }
    StepActionOrder order() const final { return order_; }

  private:
    ActionId id_;
    StepActionOrder order_;
    Phase phase_;
    std::string label_;
};

//! StepCollector client (public user API) for cross-checking the probes (`collector 1`)
class Collector final : public StepInterface
{
  public:
    Filters filters() const final { return {}; }
    StepSelection selection() const final { return StepSelection::all(); }
    void process_steps(HostStepState state) final
    {
        auto& d = state.steps.data;
        auto const& p0 = d.points[StepPoint::pre];
        auto const& p1 = d.points[StepPoint::post];
        for (auto tid : range(TrackSlotId{d.size()}))
        {
            if (!d.track_id[tid])
                continue;
            std::string o = "K";
            vh::put(o, g_store.iter);
            vh::put(o, static_cast<long>(tid.unchecked_get()));
            vh::put(o, id_to_long(d.event_id[tid]));
            vh::put(o, id_to_long(d.track_id[tid]));
            vh::put(o, id_to_long(d.parent_id[tid]));
            vh::put(o, static_cast<long>(d.track_step_count[tid]));
            vh::put(o, id_to_long(d.particle[tid]));
            for (auto const* p : {&p0, &p1})
            {
                o += " |";
                vh::put(o, static_cast<double>(p->energy[tid].value()));
                for (int i = 0; i < 3; ++i)
                    vh::put(o, static_cast<double>(p->pos[tid][i]));
                for (int i = 0; i < 3; ++i)
                    vh::put(o, static_cast<double>(p->dir[tid][i]));
                vh::put(o, static_cast<double>(p->time[tid]));
                vh::put(o, id_to_long(p->volume_id[tid]));
            }
            o += " |";
            vh::put(o, static_cast<double>(d.step_length[tid]));
            vh::put(o, static_cast<double>(d.energy_deposition[tid].value()));
            vh::put(o, id_to_long(d.action_id[tid]));
            lines.push_back(std::move(o));
        }
    }
    void process_steps(DeviceStepState) final {}
    std::vector<std::string> lines;
};

//---------------------------------------------------------------------------------------------
struct EventTotals
{
    long nprim = 0, nesc = 0, nsteps = 0;
    long double eprim = 0, dep = 0, esc = 0;
    std::map<long, int> tracks;
};

//! Same as GlobalTestBase::build_core (private there), but with the RNG seed of the config
template<class Fix>
std::shared_ptr<CoreParams const> make_core(Fix& fix, Config const& c)
{
    CoreParams::Input inp;
    inp.geometry = fix.geometry();
    inp.material = fix.material();
    inp.geomaterial = fix.geomaterial();
    inp.particle = fix.particle();
    inp.cutoff = fix.cutoff();
    inp.physics = fix.physics();
    inp.rng = std::make_shared<RngParams>(static_cast<unsigned int>(c.seed));
    inp.sim = fix.sim();
    inp.init = fix.init();
    inp.wentzel = fix.wentzel();
    inp.action_reg = fix.action_reg();
    inp.output_reg = fix.output_reg();
    inp.aux_reg = fix.aux_reg();
    auto&& along = fix.along_step();   // registers the along-step action
    (void)along;
    return std::make_shared<CoreParams>(std::move(inp));
}

template<class Fix>
void run_problem(Fix& fix, Config const& c)
{
    auto core = make_core(fix, c);
    auto& reg = *fix.action_reg();
    if (c.errat > 0)
    {
        reg.insert(std::make_shared<ErrorMarker>(reg.next_id(), static_cast<size_type>(c.errat)));
    }
    // probes: inserted last => highest ids => run after every other action of the same order
    struct PD
    {
        StepActionOrder order;
        Phase phase;
        char const* label;
    };
    for (PD pd : {PD{StepActionOrder::user_start, Phase::start, "verif-probe-start"},
                  PD{StepActionOrder::user_pre, Phase::pre, "verif-probe-pre"},
                  PD{StepActionOrder::along, Phase::along, "verif-probe-along"},
                  PD{StepActionOrder::pre_post, Phase::prepost, "verif-probe-prepost"},
                  PD{StepActionOrder::user_post, Phase::post, "verif-probe-post"}})
    {
        reg.insert(std::make_shared<Probe>(reg.next_id(), pd.order, pd.phase, pd.label));
    }
    std::shared_ptr<Collector> collector;
    std::shared_ptr<StepCollector> sc;
    if (c.collector)
    {
        collector = std::make_shared<Collector>();
        sc = StepCollector::make_and_insert(*core, {collector});
    }

    StepperInput inp;
    inp.params = core;
    inp.stream_id = StreamId{0};
    inp.num_track_slots = c.slots;
    Stepper<MemSpace::host> step(inp);

    g_store.rec.assign(c.slots, SlotRec{});
    g_store.iter = 0;

    auto const& host = core->host_ref();
    std::string out;
    auto emit = [&](std::string const& s) {
        out += s;
        out += '\n';
        if (out.size() > (1u << 20))
        {
            std::fwrite(out.data(), 1, out.size(), stdout);
            out.clear();
        }
    };

    // ---- tables
    if (!c.quiet)
    {
        for (auto const& a : step.actions().actions().step())
        {
            emit("A " + std::to_string(a->action_id().get()) + " "
                 + to_cstring(a->order()) + " " + std::string(a->label()));
        }
    }
    if (!c.quiet)
    {
        // every action of the registry (explicit and implicit), by its own label
        for (auto aidx : range(reg.num_actions()))
        {
            emit("B " + std::to_string(aidx) + " " + std::string(reg.action(ActionId{aidx})->label()));
        }
    }
    {
        auto const& ps = host.physics.scalars;
        auto const& cs = host.scalars;
        auto q = [&](char const* n, ActionId a) {
            emit(std::string("Q ") + n + " " + std::to_string(id_to_long(a)));
        };
        q("boundary", cs.boundary_action);
        q("tracking-cut", cs.tracking_cut_action);
        q("propagation-limit", cs.propagation_limit_action);
        q("along-neutral", cs.along_step_neutral_action);
        q("along-user", cs.along_step_user_action);
        q("msc", ps.msc_action());
        q("range", ps.range_action());
        q("discrete", ps.discrete_action());
        q("integral-rejection", ps.integral_rejection_action());
        q("failure", ps.failure_action());
        q("fixed-step", ps.fixed_step_action);
        emit("Q model-first " + std::to_string(ps.model_to_action));
        emit("Q model-count " + std::to_string(ps.num_models));
        emit("Y min_range " + vh::hexd(ps.min_range));
        emit("Y max_step_over_range " + vh::hexd(ps.max_step_over_range));
        emit("Y fixed_step_limiter " + vh::hexd(ps.fixed_step_limiter));
        emit("Y linear_loss_limit " + vh::hexd(ps.linear_loss_limit));
        emit("Y lowest_electron_energy " + vh::hexd(ps.lowest_electron_energy.value()));
        emit("Y sqrt_tol " + vh::hexd(celeritas::sqrt_tol()));
        emit(std::string("Y postcut ") + (host.cutoffs.apply_post_interaction ? "1" : "0"));
        emit("Y msc_range_factor " + vh::hexd(ps.range_factor));
        emit("Y msc_lambda_limit " + vh::hexd(ps.lambda_limit));
        emit("Y msc_safety_factor " + vh::hexd(ps.safety_factor));
        emit("Y msc_limit_min_fix " + vh::hexd(UrbanMscParameters::limit_min_fix()));
        emit("Y msc_safety_tol " + vh::hexd(UrbanMscParameters{}.safety_tol));
        emit("Y msc_geom_limit " + vh::hexd(UrbanMscParameters{}.geom_limit));
        emit(std::string("Y msc_alg ") + std::to_string(static_cast<int>(ps.step_limit_algorithm)));
        auto const& pp = *fix.particle();
        for (auto pid : range(ParticleId{pp.size()}))
        {
            auto pv = pp.get(pid);
            auto const& pg = host.physics.process_groups[pid];
            emit("P " + std::to_string(pid.get()) + " " + pp.id_to_label(pid) + " "
                 + std::to_string(pp.id_to_pdg(pid).get()) + " " + vh::hexd(pv.mass().value())
                 + " " + vh::hexd(pv.charge().value()) + " " + (pv.is_antiparticle() ? "1" : "0")
                 + " " + (pg.has_at_rest ? "1" : "0") + " " + std::to_string(pg.size()) + " "
                 + (pg.eloss_ppid ? "1" : "0"));
        }
        auto const& cut = *fix.cutoff();
        for (auto mid : range(MaterialId{fix.material()->size()}))
        {
            auto cv = cut.get(mid);
            for (auto pid : range(ParticleId{pp.size()}))
            {
                if (host.cutoffs.id_to_index[pid] < host.cutoffs.num_particles)
                    emit("U " + std::to_string(mid.get()) + " " + std::to_string(pid.get()) + " "
                         + vh::hexd(cv.energy(pid).value()));
            }
        }
        auto const& geo = *fix.geometry();
        auto const& gm = *fix.geomaterial();
        for (auto vid : range(VolumeId{geo.num_volumes()}))
        {
            emit("V " + std::to_string(vid.get()) + " " + geo.id_to_label(vid).name + " "
                 + std::to_string(id_to_long(gm.material_id(vid))));
        }
    }

    // ---- primaries
    std::vector<Primary> primaries;
    std::map<long, EventTotals> totals;
    for (auto const& ps : c.primaries)
    {
        Primary p;
        p.particle_id = fix.particle()->find(ps.particle);
        if (!p.particle_id)
        {
            emit("R exception unknown-particle " + ps.particle);
            std::fwrite(out.data(), 1, out.size(), stdout);
            return;
        }
        p.energy = units::MevEnergy{ps.energy};
        p.position = celeritas::test::from_cm(Real3{ps.pos[0], ps.pos[1], ps.pos[2]});
        p.direction = {ps.dir[0], ps.dir[1], ps.dir[2]};
        p.time = 0;
        p.event_id = EventId{static_cast<size_type>(ps.event)};
        for (unsigned long i = 0; i < ps.count; ++i)
            primaries.push_back(p);
        auto& t = totals[static_cast<long>(ps.event)];
        t.nprim += ps.count;
        t.eprim += static_cast<long double>(ps.energy) * ps.count;
    }

    auto after_iteration = [&](StepperResult const& r) {
        if (!c.quiet)
        {
            for (long s = 0; s < static_cast<long>(c.slots); ++s)
            {
                auto const& rec = g_store.rec[s];
                if (!rec.active)
                    continue;
                emit(vh::format_S(g_store.iter, s, rec));
                if (rec.has_g)
                    emit(vh::format_G(g_store.iter, s, rec));
                if (rec.has_l)
                    emit(vh::format_L(g_store.iter, s, rec));
                if (rec.has_m)
                    emit(vh::format_M(g_store.iter, s, rec));
                if (rec.has_x)
                    emit(vh::format_X(g_store.iter, s, rec));
            }
            if (collector)
            {
                for (auto& l : collector->lines)
                    emit(l);
                collector->lines.clear();
            }
        }
        for (auto const& rec : g_store.rec)
        {
            if (!rec.active)
                continue;
            auto& t = totals[rec.ev];
            t.dep += rec.dep;
            t.nsteps += 1;
            t.tracks[rec.trk] = 1;
            if (rec.st[4] == 'k' && rec.p1.vol < 0 && rec.st[1] == 'a')
            {
                t.esc += rec.p1.e;
                t.nesc += 1;
            }
        }
        auto const& cnt = step.state().counters();
        emit("I " + std::to_string(g_store.iter) + " " + std::to_string(r.generated) + " "
             + std::to_string(r.queued) + " " + std::to_string(r.active) + " "
             + std::to_string(r.alive) + " | " + std::to_string(cnt.num_initializers) + " "
             + std::to_string(cnt.num_vacancies) + " " + std::to_string(cnt.num_secondaries));
        // flush per iteration: a crash in a later iteration must not lose the log so far
        std::fwrite(out.data(), 1, out.size(), stdout);
        std::fflush(stdout);
        out.clear();
    };

    std::string verdict = "done";
    try
    {
        StepperResult r = step(make_span(primaries));
        after_iteration(r);
        while (r)
        {
            ++g_store.iter;
            if (static_cast<unsigned long>(g_store.iter) >= c.maxsteps)
            {
                verdict = "maxsteps";
                break;
            }
            r = step();
            after_iteration(r);
        }
    }
    catch (std::exception const& e)
    {
        std::string w = e.what();
        for (auto& ch : w)
            if (ch == '\n')
                ch = ' ';
        verdict = "exception " + w.substr(0, 300);
    }
    for (auto const& kv : totals)
    {
        auto const& t = kv.second;
        emit("T " + std::to_string(kv.first) + " " + std::to_string(t.nprim) + " "
             + vh::hexd(static_cast<double>(t.eprim)) + " | "
             + vh::hexd(static_cast<double>(t.dep)) + " " + vh::hexd(static_cast<double>(t.esc))
             + " " + std::to_string(t.nesc) + " | " + std::to_string(t.tracks.size()) + " "
             + std::to_string(t.nsteps));
    }
    emit("R " + verdict);
    std::fwrite(out.data(), 1, out.size(), stdout);
    std::fflush(stdout);
}

bool parse_double(std::string const& s, double* out)
{
    char* end = nullptr;
    *out = std::strtod(s.c_str(), &end);
    return end && *end == '\0' && !s.empty();
}
bool parse_ulong(std::string const& s, unsigned long* out)
{
    if (s.empty() || s.size() > 12)
        return false;
    unsigned long v = 0;
    for (char ch : s)
    {
        if (ch < '0' || ch > '9')
            return false;
        v = v * 10 + (ch - '0');
    }
    *out = v;
    return true;
}
}  // namespace

int main()
{
    setenv("CELER_LOG", "critical", 1);
    setenv("CELER_LOG_LOCAL", "critical", 1);
    setenv("CELER_DISABLE_PARALLEL", "1", 1);
    Config c;
    std::string line;
    while (std::getline(std::cin, line))
    {
        auto t = vh::words(line);
        if (t.empty() || t[0][0] == '#')
            continue;
        bool ok = true;
        unsigned long u = 0;
        double d = 0;
        auto const& k = t[0];
        if (k == "problem" && t.size() == 2 && (t[1] == "simple" || t[1] == "mock"))
            c.problem = t[1];
        else if (k == "slots" && t.size() == 2 && parse_ulong(t[1], &u) && u >= 1 && u <= 65536)
            c.slots = u;
        else if (k == "capacity" && t.size() == 2 && parse_ulong(t[1], &u) && u >= 1)
            c.capacity = u;
        else if (k == "maxevents" && t.size() == 2 && parse_ulong(t[1], &u) && u >= 1)
            c.maxevents = u;
        else if (k == "seed" && t.size() == 2 && parse_ulong(t[1], &u))
            c.seed = u;
        else if (k == "maxsteps" && t.size() == 2 && parse_ulong(t[1], &u) && u >= 1)
            c.maxsteps = u;
        else if (k == "errat" && t.size() == 2 && parse_ulong(t[1], &u))
            c.errat = u;
        else if (k == "msc" && t.size() == 2 && parse_ulong(t[1], &u))
            c.msc = u != 0;
        else if (k == "mscxs" && t.size() == 2 && parse_double(t[1], &d) && d > 0)
            c.mscxs = d;
        else if (k == "mscalg" && t.size() == 2
                 && (t[1] == "minimal" || t[1] == "safety" || t[1] == "safety_plus"
                     || t[1] == "distance_to_boundary"))
            c.mscalg = t[1];
        else if (k == "stackfactor" && t.size() == 2 && parse_double(t[1], &d) && d >= 0)
            c.stackfactor = d;
        else if (k == "order" && t.size() == 2 && (parse_order(t[1], &ok), ok))
            c.order = t[1];
        else if (k == "along" && t.size() == 2
                 && (t[1] == "neutral" || t[1] == "linear" || t[1] == "fluct" || t[1] == "vlinear"
                     || t[1] == "vfluct"))
            c.along = t[1];
        else if (k == "interactor" && t.size() == 2 && parse_ulong(t[1], &u))
            c.interactor = u != 0;
        else if (k == "collector" && t.size() == 2 && parse_ulong(t[1], &u))
            c.collector = u != 0;
        else if (k == "statuscheck" && t.size() == 2 && parse_ulong(t[1], &u))
            c.statuscheck = u != 0;
        else if (k == "posrest" && t.size() == 2 && parse_ulong(t[1], &u))
            c.posrest = u != 0;
        else if (k == "postcut" && t.size() == 2 && parse_ulong(t[1], &u))
            c.postcut = u != 0;
        else if (k == "quiet" && t.size() == 2 && parse_ulong(t[1], &u))
            c.quiet = u != 0;
        else if (k == "xsscale" && t.size() == 2 && parse_double(t[1], &d) && d > 0)
            c.xsscale = d;
        else if (k == "lossscale" && t.size() == 2 && parse_double(t[1], &d) && d > 0)
            c.lossscale = d;
        else if (k == "cut" && t.size() == 3
                 && (t[1] == "gamma" || t[1] == "electron" || t[1] == "positron")
                 && parse_double(t[2], &d) && d >= 0)
            c.cuts[t[1]] = d;
        else if (k == "opt" && t.size() == 3 && parse_double(t[2], &d))
            c.opts[t[1]] = d;
        else if (k == "primary" && t.size() == 11)
        {
            PrimarySpec p;
            p.particle = t[1];
            ok = parse_double(t[2], &p.energy);
            for (int i = 0; i < 3; ++i)
                ok = ok && parse_double(t[3 + i], &p.pos[i]) && parse_double(t[6 + i], &p.dir[i]);
            ok = ok && parse_ulong(t[9], &p.event) && parse_ulong(t[10], &p.count);
            if (ok)
                c.primaries.push_back(p);
            else
                std::cout << "E bad-directive " << line << "\n";
        }
        else if (k == "reset" && t.size() == 1)
            c = Config{};
        else if (k == "run" && t.size() == 1)
        {
            std::cout << "C problem " << c.problem << " slots " << c.slots << " capacity "
                      << c.capacity << " maxevents " << c.maxevents << " stackfactor "
                      << c.stackfactor << " order " << c.order << " seed " << c.seed
                      << " maxsteps " << c.maxsteps << " along " << c.along << " interactor "
                      << c.interactor << " posrest " << c.posrest << " postcut " << c.postcut
                      << " xsscale " << c.xsscale << " lossscale " << c.lossscale << " errat " << c.errat
                      << " msc " << c.msc << " mscalg " << c.mscalg << " mscxs " << c.mscxs << "\n";
            std::cout.flush();
            try
            {
                if (c.problem == "simple")
                {
                    SimpleFix fix(c);
                    run_problem(fix, c);
                }
                else
                {
                    MockFix fix(c);
                    run_problem(fix, c);
                }
            }
            catch (std::exception const& e)
            {
                std::string w = e.what();
                for (auto& ch : w)
                    if (ch == '\n')
                        ch = ' ';
                std::cout << "R exception " << w.substr(0, 400) << "\n";
            }
            std::cout.flush();
            c.primaries.clear();
        }
        else
        {
            std::cout << "E bad-directive " << line << "\n";
        }
    }
    return 0;
}
