// C15 harness: the real celeritas sampling distributions driven by a ScriptedEngine, with the
// line protocol of lean/CelerVerif/Model/DistDriver.lean:
//
//   <op> <params: 16-hex-digit doubles | small hex integers> | <script: hex doubles>
//   answer:  <sample(s)> <number of canonical draws consumed>   or   script-exhausted
//
// `stat <seed> <n> <op> <params>` instead draws n samples with the real XorwowRngEngine (one
// distribution object) and prints them (statistical oracle of tools/checks/c15.py).
#include <cmath>
#include <memory>
#include <string>
#include <vector>

#include "corecel/data/CollectionStateStore.hh"
#include "corecel/math/Algorithms.hh"
#include "celeritas/Constants.hh"
#include "celeritas/Quantities.hh"
#include "celeritas/em/distribution/EnergyLossGammaDistribution.hh"
#include "celeritas/em/distribution/EnergyLossGaussianDistribution.hh"
#include "celeritas/em/distribution/BhabhaEnergyDistribution.hh"
#include "celeritas/em/distribution/MollerEnergyDistribution.hh"
#include "celeritas/em/distribution/TsaiUrbanDistribution.hh"
#include "celeritas/random/Selector.hh"
#include "celeritas/random/XorwowRngEngine.hh"
#include "celeritas/random/XorwowRngParams.hh"
#include "celeritas/random/distribution/BernoulliDistribution.hh"
#include "celeritas/random/distribution/ExponentialDistribution.hh"
#include "celeritas/random/distribution/GammaDistribution.hh"
#include "celeritas/random/distribution/InverseSquareDistribution.hh"
#include "celeritas/random/distribution/IsotropicDistribution.hh"
#include "celeritas/random/distribution/NormalDistribution.hh"
#include "celeritas/random/distribution/PoissonDistribution.hh"
#include "celeritas/random/distribution/RadialDistribution.hh"
#include "celeritas/random/distribution/ReciprocalDistribution.hh"
#include "celeritas/random/distribution/RejectionSampler.hh"
#include "celeritas/random/distribution/UniformBoxDistribution.hh"
#include "celeritas/random/distribution/UniformRealDistribution.hh"

#include "common/lineio.hh"
#include "common/scripted_engine.hh"

using namespace celeritas;
using std::string;
using vecd = std::vector<double>;
using vecu = std::vector<std::uint64_t>;

static string hv(Real3 const& v)
{
    return vh::hexd(v[0]) + " " + vh::hexd(v[1]) + " " + vh::hexd(v[2]);
}
static double D(std::uint64_t b)
{
    return vh::bits_dbl(b);
}

//! engine WITHOUT a GenerateCanonical specialisation: exercises the default implementation in
//! GenerateCanonical.hh (std::generate_canonical) on scripted raw 32-bit words
struct RawEngine
{
    using result_type = unsigned int;
    std::vector<unsigned int> w;
    std::size_t pos{0};
    static constexpr result_type min() { return 0u; }
    static constexpr result_type max() { return 0xffffffffu; }
    result_type operator()()
    {
        if (pos >= w.size())
            throw vh::ScriptExhausted{};
        return w[pos++];
    }
};

//! target functions of the documented rejection loop
static double target(std::uint64_t kind, double x)
{
    switch (kind)
    {
        case 0:
            return x;
        case 1:
            return x * x;
        default:
            return 4 * x * (1 - x);
    }
}

// Run one op with any engine; `p` are the raw parameter words (bit patterns / integers).
// Returns the printed sample(s) (without draw count), or "bad-op".
template<class Engine>
static string sample(string const& op, vecu const& p, Engine& rng)
{
    auto n = p.size();
    if (op == "uniform" && n == 2)
    {
        UniformRealDistribution<double> d(D(p[0]), D(p[1]));
        return vh::hexd(d(rng));
    }
    if (op == "exp" && n == 1)
    {
        ExponentialDistribution<double> d(D(p[0]));
        return vh::hexd(d(rng));
    }
    if (op == "normal" && n == 3 && p[2] >= 1 && p[2] <= 64)
    {
        NormalDistribution<double> d(D(p[0]), D(p[1]));
        string out;
        for (std::uint64_t i = 0; i < p[2]; ++i)
            out += (i ? " " : "") + vh::hexd(d(rng));
        return out;
    }
    if (op == "normop" && n == 8 && p[0] >= 1 && p[0] <= 3 && p[5] <= 8 && p[6] <= 8 && p[7] <= 8)
    {
        // user-written special members of NormalDistribution (spare-value handling):
        // kind m1 sd1 m2 sd2 pre1 pre2 k
        NormalDistribution<double> a(D(p[1]), D(p[2]));
        NormalDistribution<double> b(D(p[3]), D(p[4]));
        string out;
        auto emit = [&](double v) { out += (out.empty() ? "" : " ") + vh::hexd(v); };
        for (std::uint64_t i = 0; i < p[5]; ++i)
            emit(a(rng));
        for (std::uint64_t i = 0; i < p[6]; ++i)
            emit(b(rng));
        if (p[0] == 1)
        {
            NormalDistribution<double> c(std::move(a));
            for (std::uint64_t i = 0; i < p[7]; ++i)
                emit(c(rng));
            for (std::uint64_t i = 0; i < p[7]; ++i)
                emit(a(rng));
        }
        else
        {
            if (p[0] == 2)
                a = b;
            else
                a = std::move(b);
            for (std::uint64_t i = 0; i < p[7]; ++i)
                emit(a(rng));
            for (std::uint64_t i = 0; i < p[7]; ++i)
                emit(b(rng));
        }
        return out.empty() ? string("-") : out;
    }
    if (op == "gamma" && n == 3 && p[2] >= 1 && p[2] <= 64)
    {
        GammaDistribution<double> d(D(p[0]), D(p[1]));
        string out;
        for (std::uint64_t i = 0; i < p[2]; ++i)
            out += (i ? " " : "") + vh::hexd(d(rng));
        return out;
    }
    if (op == "poisson" && n == 2 && p[1] >= 1 && p[1] <= 64)
    {
        PoissonDistribution<double> d(D(p[0]));
        string out;
        for (std::uint64_t i = 0; i < p[1]; ++i)
            out += (i ? " " : "") + std::to_string(d(rng));
        return out;
    }
    if (op == "recip" && n == 2)
    {
        ReciprocalDistribution<double> d(D(p[0]), D(p[1]));
        return vh::hexd(d(rng));
    }
    if (op == "recip1" && n == 1)
    {
        ReciprocalDistribution<double> d(D(p[0]));
        return vh::hexd(d(rng));
    }
    if (op == "invsq" && n == 2)
    {
        InverseSquareDistribution<double> d(D(p[0]), D(p[1]));
        return vh::hexd(d(rng));
    }
    if (op == "radial" && n == 1)
    {
        RadialDistribution<double> d(D(p[0]));
        return vh::hexd(d(rng));
    }
    if (op == "iso" && n == 0)
    {
        IsotropicDistribution<double> d;
        return hv(d(rng));
    }
    if (op == "box" && n == 6)
    {
        UniformBoxDistribution<double> d(Real3{D(p[0]), D(p[1]), D(p[2])},
                                         Real3{D(p[3]), D(p[4]), D(p[5])});
        return hv(d(rng));
    }
    if (op == "bern" && n == 1)
    {
        BernoulliDistribution d(D(p[0]));
        return d(rng) ? "1" : "0";
    }
    if (op == "bern2" && n == 2)
    {
        BernoulliDistribution d(D(p[0]), D(p[1]));
        return d(rng) ? "1" : "0";
    }
    if (op == "select" && n >= 2)
    {
        // p[0] = total, p[1..] = weights
        vecd w;
        for (std::size_t i = 1; i < n; ++i)
            w.push_back(D(p[i]));
        auto sel = make_selector([&w](size_type i) { return w[i]; },
                                 static_cast<size_type>(w.size()),
                                 D(p[0]));
        return std::to_string(sel(rng));
    }
    if (op == "reject" && n == 2)
    {
        RejectionSampler<double> d(D(p[0]), D(p[1]));
        return vh::hexd(d(rng));
    }
    if (op == "reject1" && n == 1)
    {
        RejectionSampler<double> d(D(p[0]));
        return vh::hexd(d(rng));
    }
    if (op == "rejloop" && n == 4 && p[0] <= 2)
    {
        // the documented usage:  do { x = sample(rng); } while (RejectionSampler{f(x), fmax}(rng));
        UniformRealDistribution<double> prop(D(p[1]), D(p[2]));
        double x;
        do
        {
            x = prop(rng);
        } while (RejectionSampler<double>{target(p[0], x), D(p[3])}(rng));
        return vh::hexd(x);
    }
    if (op == "tsai" && n == 2)
    {
        TsaiUrbanDistribution d(units::MevEnergy{D(p[0])}, units::MevMass{D(p[1])});
        return vh::hexd(d(rng));
    }
    if (op == "moller" && n == 3)
    {
        MollerEnergyDistribution d(
            units::MevMass{D(p[0])}, units::MevEnergy{D(p[1])}, units::MevEnergy{D(p[2])});
        return vh::hexd(d(rng));
    }
    if (op == "bhabha" && n == 3)
    {
        BhabhaEnergyDistribution d(
            units::MevMass{D(p[0])}, units::MevEnergy{D(p[1])}, units::MevEnergy{D(p[2])});
        return vh::hexd(d(rng));
    }
    if (op == "elgamma" && n == 2)
    {
        using EnergySq = EnergyLossGammaDistribution::EnergySq;
        EnergyLossGammaDistribution d(units::MevEnergy{D(p[0])}, EnergySq{D(p[1])});
        return vh::hexd(d(rng).value());
    }
    if (op == "elgauss" && n == 2)
    {
        EnergyLossGaussianDistribution d(units::MevEnergy{D(p[0])}, units::MevEnergy{D(p[1])});
        return vh::hexd(d(rng).value());
    }
    if (op == "elgaussv" && n == 2)
    {
        using EnergySq = EnergyLossGaussianDistribution::EnergySq;
        EnergyLossGaussianDistribution d(units::MevEnergy{D(p[0])}, EnergySq{D(p[1])});
        return vh::hexd(d(rng).value());
    }
    return "bad-op";
}

// like `sample`, but n draws from ONE distribution object with the given engine
template<class Engine>
static string many(string const& op, vecu const& p, Engine& rng, std::uint64_t count)
{
    string out;
    auto emit = [&](string const& s) { out += (out.empty() ? "" : " ") + s; };
#define LOOP(DECL, EXPR)                        \
    {                                           \
        DECL;                                   \
        for (std::uint64_t i = 0; i < count; ++i) \
            emit(EXPR);                         \
        return out;                             \
    }
    auto n = p.size();
    if (op == "normal" && n == 2)
        LOOP(NormalDistribution<double> d(D(p[0]), D(p[1])), vh::hexd(d(rng)))
    if (op == "gamma" && n == 2)
        LOOP(GammaDistribution<double> d(D(p[0]), D(p[1])), vh::hexd(d(rng)))
    if (op == "poisson" && n == 1)
        LOOP(PoissonDistribution<double> d(D(p[0])), std::to_string(d(rng)))
    // stateless distributions: construct once, sample repeatedly
    for (std::uint64_t i = 0; i < count; ++i)
    {
        string s = sample(op, p, rng);
        if (s == "bad-op")
            return s;
        emit(s);
    }
    return out;
#undef LOOP
}

int main()
{
    string line;
    while (std::getline(std::cin, line))
    {
        auto w = vh::words(line);
        if (w.empty())
        {
            std::cout << "bad-op\n";
            continue;
        }
        string const& op = w[0];
        // primitive self-tests (functions outside `Num`) and constants used by the model
        if (op == "cbrt" || op == "castu" || op == "pow")
        {
            std::uint64_t a = 0, b = 0;
            bool ok = (w.size() == (op == "pow" ? 3u : 2u)) && vh::parse_hex(w[1], &a)
                      && (op != "pow" || vh::parse_hex(w[2], &b));
            if (!ok)
                std::cout << "bad-op\n";
            else if (op == "cbrt")
                std::cout << vh::hexd(std::cbrt(D(a))) << "\n";
            else if (op == "pow")
                std::cout << vh::hexd(fastpow(D(a), D(b))) << "\n";
            else
            {
                // same conversion as PoissonDistribution's `result_type(x)`
                double volatile x = D(a);
                unsigned int r = static_cast<unsigned int>(x);
                std::cout << r << "\n";
            }
            continue;
        }
        if (op == "stdcanon")
        {
            // stdcanon <raw 32-bit words>: default GenerateCanonical<Engine,double> (not modelled
            // in Lean; checked against an exact reference in tools/checks/c15.py)
            RawEngine rng;
            bool ok = true;
            for (std::size_t i = 1; ok && i < w.size(); ++i)
            {
                std::uint64_t v;
                ok = vh::parse_hex(w[i], &v) && v <= 0xffffffffu;
                rng.w.push_back(static_cast<unsigned int>(v));
            }
            if (!ok)
            {
                std::cout << "bad-op\n";
                continue;
            }
            try
            {
                double r = generate_canonical<double>(rng);
                std::cout << vh::hexd(r) << " " << rng.pos << "\n";
            }
            catch (vh::ScriptExhausted const&)
            {
                std::cout << "script-exhausted\n";
            }
            continue;
        }
        if (op == "consts" && w.size() == 1)
        {
            std::cout << vh::hexd(m_pi) << " " << vh::hexd(static_cast<double>(2 * m_pi)) << " "
                      << vh::hexd(2 * constants::pi) << " " << vh::hexd(double(1.6)) << " "
                      << vh::hexd(double(1.6 / 3)) << " " << vh::hexd(double(0.0331)) << " "
                      << vh::hexd(double(1) / 3) << " "
                      << PoissonDistribution<double>::lambda_threshold() << "\n";
            continue;
        }
        if (op == "stat")
        {
            // stat <seed> <n> <op> <params...>
            std::uint64_t seed = 0, cnt = 0;
            vecu p;
            bool ok = w.size() >= 4 && vh::parse_hex(w[1], &seed) && vh::parse_hex(w[2], &cnt)
                      && cnt <= 10000000;
            for (std::size_t i = 4; ok && i < w.size(); ++i)
            {
                std::uint64_t v;
                ok = vh::parse_hex(w[i], &v);
                p.push_back(v);
            }
            if (!ok)
            {
                std::cout << "bad-op\n";
                continue;
            }
            using HostStore = CollectionStateStore<XorwowRngStateData, MemSpace::host>;
            auto params = std::make_shared<XorwowRngParams>(static_cast<unsigned int>(seed));
            HostStore states(params->host_ref(), StreamId{0}, 1);
            XorwowRngEngine rng(params->host_ref(), states.ref(), TrackSlotId{0});
            std::cout << many(w[3], p, rng, cnt) << "\n";
            continue;
        }
        std::size_t bar = 1;
        while (bar < w.size() && w[bar] != "|")
            ++bar;
        vecu p;
        vecd script;
        bool ok = bar < w.size();
        for (std::size_t i = 1; ok && i < bar; ++i)
        {
            std::uint64_t v;
            ok = vh::parse_hex(w[i], &v);
            p.push_back(v);
        }
        for (std::size_t i = bar + 1; ok && i < w.size(); ++i)
        {
            std::uint64_t v;
            ok = vh::parse_hex(w[i], &v);
            script.push_back(D(v));
        }
        if (!ok)
        {
            std::cout << "bad-op\n";
            continue;
        }
        vh::ScriptedEngine rng(script);
        try
        {
            string s = sample(op, p, rng);
            if (s == "bad-op")
                std::cout << s << "\n";
            else
                std::cout << s << " " << rng.draws() << "\n";
        }
        catch (vh::ScriptExhausted const&)
        {
            std::cout << "script-exhausted\n";
        }
    }
    return 0;
}
