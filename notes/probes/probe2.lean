def M32 : Nat := 0xffffffff
structure St where
  s0 : Nat
  s1 : Nat
  s2 : Nat
  s3 : Nat
  s4 : Nat
deriving DecidableEq, Repr
def St.next (s : St) : St :=
  let t := (s.s0 ^^^ (s.s0 >>> 2)) &&& M32
  { s0 := s.s1, s1 := s.s2, s2 := s.s3, s3 := s.s4,
    s4 := ((s.s4 ^^^ (s.s4 <<< 4)) ^^^ (t ^^^ (t <<< 1))) &&& M32 }
def St.xor (a b : St) : St := ⟨a.s0 ^^^ b.s0, a.s1 ^^^ b.s1, a.s2 ^^^ b.s2, a.s3 ^^^ b.s3, a.s4 ^^^ b.s4⟩
def St.zero : St := ⟨0,0,0,0,0⟩
-- ev: polynomial g as Nat, fuel bits
def ev : Nat → Nat → St → St → St
  | 0, _, _, acc => acc
  | n+1, g, x, acc => ev n (g >>> 1) x.next (if g % 2 = 1 then acc.xor x else acc)
def P : Nat := 0x100000f0e0f3c0035000621210861003000060001
def basis (k : Nat) : St :=
  let w := 1 <<< (k % 32)
  match k / 32 with
  | 0 => ⟨w,0,0,0,0⟩ | 1 => ⟨0,w,0,0,0⟩ | 2 => ⟨0,0,w,0,0⟩ | 3 => ⟨0,0,0,w,0⟩ | _ => ⟨0,0,0,0,w⟩
theorem ch : (List.range 160).all (fun k => ev 161 P (basis k) St.zero == St.zero) = true := by decide +kernel
#print axioms ch
