#include <iostream>
#include "orange/orangeinp/detail/BoundingZone.hh"
#include "orange/BoundingBoxUtils.hh"
#include "geocel/BoundingBoxIO.json.hh"
using namespace celeritas; using namespace celeritas::orangeinp::detail;
std::ostream& pr(std::ostream& os, BoundingZone const& z){ os<<"{i="; if(z.interior) os<<z.interior; else os<<"null"; os<<" x="; if(z.exterior) os<<z.exterior; else os<<"null"; os<<" neg="<<z.negated<<"}"; return os;}
int main(){
  BBox Abox{{-10,-10,-10},{10,10,10}};
  BoundingZone A{Abox,Abox,false};
  BoundingZone B{BBox{{-1.15,-1.15,-1.15},{1.15,1.15,1.15}},BBox{{-2,-2,-2},{2,2,2}},false};
  BoundingZone nB=B; nB.negate();
  BoundingZone AmB=calc_intersection(A,nB);
  pr(std::cout<<"A-B: ",AmB)<<"\n";
  BoundingZone nAmB=AmB; nAmB.negate();
  BBox Dbox{{-0.5,-0.5,-0.5},{0.5,0.5,0.5}};
  BoundingZone D{Dbox,Dbox,false};
  BoundingZone R=calc_intersection(D,nAmB);
  pr(std::cout<<"D & ~(A-B): ",R)<<"\n";
  // union variant: A | ~B
  BoundingZone U=calc_union(A,nB); pr(std::cout<<"A | ~B: ",U)<<"\n";
  BoundingZone R2=calc_intersection(D,U); pr(std::cout<<"D & (A|~B): ",R2)<<"\n";
}
