#include <iostream>
#include <memory>
#include "orange/OrangeInput.hh"
#include "orange/OrangeParams.hh"
#include "orange/OrangeData.hh"
#include "orange/OrangeTrackView.hh"
#include "orange/MatrixUtils.hh"
#include "corecel/data/CollectionStateStore.hh"
#include "orange/orangeinp/CsgObject.hh"
#include "orange/orangeinp/InputBuilder.hh"
#include "orange/orangeinp/Shape.hh"
#include "orange/orangeinp/Transformed.hh"
#include "orange/orangeinp/UnitProto.hh"
using namespace celeritas; using namespace celeritas::orangeinp;
using SP = std::shared_ptr<ObjectInterface const>;
template<class CR, class... A> SP shape(std::string l, A&&... a){ return std::make_shared<Shape<CR>>(std::move(l), CR{std::forward<A>(a)...}); }
int main(int argc, char** argv){
  double turn = argc>1 ? atof(argv[1]) : 0.25;
  // daughter: box 5x5x5 with an inner sphere
  UnitProto::Input din; din.label="daughter";
  din.boundary.interior = shape<orangeinp::Box>("dbox", Real3{5,5,5});
  { UnitProto::MaterialInput m; m.interior = shape<orangeinp::Sphere>("dsph", 1.0); m.fill=GeoMaterialId{0}; m.label=Label{"dsph"}; din.materials.push_back(m);}
  din.background.fill = GeoMaterialId{1};
  auto daughter = std::make_shared<UnitProto>(std::move(din));
  UnitProto::Input inp; inp.label="global";
  inp.boundary.interior = shape<orangeinp::Sphere>("world", 100.0); inp.boundary.zorder=ZOrder::media;
  UnitProto::DaughterInput d; d.fill = daughter; d.transform = Transformation{make_rotation(Axis::z, Turn{turn}), Real3{0,0,0}};
  inp.daughters.push_back(d);
  inp.background.fill = GeoMaterialId{2};
  UnitProto proto(std::move(inp));
  InputBuilder::Options o; o.tol = Tolerance<>::from_relative(1e-5);
  OrangeInput oi = InputBuilder{std::move(o)}(proto);
  OrangeParams params(std::move(oi));
  CollectionStateStore<OrangeStateData, MemSpace::host> state(params.host_ref(), 1);
  OrangeTrackView geo(params.host_ref(), state.ref(), TrackSlotId{0});
  std::cout<<std::unitbuf;
  auto name=[&]{ return geo.is_outside()? std::string("[OUTSIDE]") : params.volumes().at(geo.volume_id()).name; };
  // Case 1: inside daughter heading +x to exit through x=+5 (surface at parent level)
  geo = GeoTrackInitializer{Real3{3,0.3,0}, Real3{1,0,0}};
  std::cout<<"start vol "<<name()<<" level "<<geo.level().get()<<"\n";
  auto p = geo.find_next_step(); std::cout<<"next "<<p.distance<<" boundary "<<p.boundary<<"\n";
  geo.move_to_boundary(); std::cout<<"on boundary at x="<<geo.pos()[0]<<" vol "<<name()<<"\n";
  // scatter back inward but with +y component: true normal (1,0,0): dot<0 => reentrant expected
  Real3 nd{-0.2, 0.9797958971132712, 0};
  geo.set_dir(nd);
  geo.cross_boundary();
  std::cout<<"after set_dir(inward)+cross: vol "<<name()<<" (expected to remain inside daughter: global bg 'daughter' or its bg)\n";
  p = geo.find_next_step(); std::cout<<"next "<<p.distance<<" boundary "<<p.boundary<<"\n";
  if (p.boundary) { geo.move_to_boundary(); geo.cross_boundary(); std::cout<<"then vol "<<name()<<" at "<<geo.pos()[0]<<","<<geo.pos()[1]<<"\n"; }
}
