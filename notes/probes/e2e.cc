#include <iostream>
#include <memory>
#include "corecel/io/Logger.hh"
#include "orange/OrangeInput.hh"
#include "orange/OrangeParams.hh"
#include "orange/OrangeData.hh"
#include "orange/OrangeTrackView.hh"
#include "corecel/data/CollectionStateStore.hh"
#include "orange/orangeinp/CsgObject.hh"
#include "orange/orangeinp/InputBuilder.hh"
#include "orange/orangeinp/Shape.hh"
#include "orange/orangeinp/Transformed.hh"
#include "orange/orangeinp/UnitProto.hh"
using namespace celeritas; using namespace celeritas::orangeinp;
using SP = std::shared_ptr<ObjectInterface const>;
template<class CR, class... A> SP shape(std::string l, A&&... a){ return std::make_shared<Shape<CR>>(std::move(l), CR{std::forward<A>(a)...}); }
int main(){
  SP A = shape<orangeinp::Box>("A", Real3{10,10,10});
  SP B = shape<orangeinp::Sphere>("B", 2.0);
  SP D = shape<orangeinp::Box>("D", Real3{0.5,0.5,0.5});
  SP E = std::make_shared<Transformed>(shape<orangeinp::Box>("E", Real3{1,1,1}), Translation{Real3{20,0,0}});
  SP AornB = std::make_shared<AnyObjects>("AornB", std::vector<SP>{A, std::make_shared<NegatedObject>("nB", B)});
  SP R = std::make_shared<AllObjects>("R", std::vector<SP>{D, AornB});
  SP V = std::make_shared<AnyObjects>("V", std::vector<SP>{R, E});
  UnitProto::Input inp;
  inp.boundary.interior = shape<orangeinp::Sphere>("world", 100.0);
  inp.boundary.zorder = ZOrder::media;
  inp.label = "global";
  UnitProto::MaterialInput m; m.interior = V; m.fill = GeoMaterialId{0}; m.label = Label{"vol"};
  inp.materials.push_back(m);
  inp.background.fill = GeoMaterialId{1};
  UnitProto proto(std::move(inp));
  InputBuilder::Options o; o.tol = Tolerance<>::from_relative(1e-5); OrangeInput oi = InputBuilder{std::move(o)}(proto); std::cout<<std::unitbuf;
  auto& u = std::get<UnitInput>(oi.universes[0]);
  for (auto& v : u.volumes) { std::cout << v.label << " logic:"; for (auto l : v.logic) std::cout << ' ' << l; std::cout << " bbox: "; if (v.bbox) std::cout << v.bbox; else std::cout << "null"; std::cout << "\n"; }
  OrangeParams params(std::move(oi));
  CollectionStateStore<OrangeStateData, MemSpace::host> state(params.host_ref(), 1);
  OrangeTrackView geo(params.host_ref(), state.ref(), TrackSlotId{0});
  for (Real3 p : {Real3{0.1,0.2,0.3}, Real3{20.1,0.2,0.3}, Real3{5,5,5}}) {
    geo = GeoTrackInitializer{p, Real3{0,0,1}};
    std::cout << "pos " << p[0] << "," << p[1] << "," << p[2] << " -> " << (geo.failed() ? std::string("FAILED") : params.volumes().at(geo.volume_id()).name) << "\n";
  }
}
