import re,sys
src=open('/repo/src/celeritas/random/XorwowRngParams.cc').read()
rows=re.findall(r'\{0x([0-9a-f]{8})u, 0x([0-9a-f]{8})u, 0x([0-9a-f]{8})u, 0x([0-9a-f]{8})u, 0x([0-9a-f]{8})u\}',src)
assert len(rows)==64
polys=[sum(int(w,16)<<(32*i) for i,w in enumerate(r)) for r in rows]
jump,jsub=polys[:32],polys[32:]
M=(1<<32)-1
def nxt(s):
    s=list(s); t=(s[0]^(s[0]>>2))&M
    return (s[1],s[2],s[3],s[4],((s[4]^(s[4]<<4))^(t^(t<<1)))&M)
def pack(s): return sum(w<<(32*i) for i,w in enumerate(s))
def unpack(x): return tuple((x>>(32*i))&M for i in range(5))
# find char/min poly: Krylov from e0: find dependency among x, Tx, ..., T^160 x
x=unpack(1); vecs=[]
s=x
for k in range(161):
    vecs.append(pack(s)); s=nxt(s)
# gaussian elimination tracking combos
basis={}  # pivot -> (vec, combo)
p=None
for k,v in enumerate(vecs):
    c=1<<k
    while v:
        h=v.bit_length()-1
        if h in basis:
            bv,bc=basis[h]; v^=bv; c^=bc
        else:
            basis[h]=(v,c); break
    if v==0:
        p=c; print("dependency at k=",k); break
print("p degree",p.bit_length()-1, hex(p))
def clmul(a,b):
    r=0
    while a:
        if a&1: r^=b
        a>>=1; b<<=1
    return r
def pmod(a,p):
    dp=p.bit_length()-1
    while a.bit_length()-1>=dp:
        a^=p<<(a.bit_length()-1-dp)
    return a
def sq(a): return pmod(clmul(a,a),p)
ok=True
assert jump[0]==2
for i in range(31):
    if sq(sq(jump[i]))!=jump[i+1]: ok=False; print("jump mismatch",i)
g=jump[31]
for _ in range(5): g=sq(g)
print("jsub0 ok", g==jsub[0])
for i in range(31):
    if sq(sq(jsub[i]))!=jsub[i+1]: ok=False; print("jsub mismatch",i)
print("tables ok",ok)
# period: z^(2^160) == z
g=2
for _ in range(160): g=sq(g)
print("z^(2^160)==z", g==2)
N=(1<<160)-1
fac=[3,5,5,11,17,31,41,257,61681,65537,414721,4278255361,44479210368001]
import functools,operator
print("factor product ok", functools.reduce(operator.mul,fac)==N)
def ppow(b,e):
    r=1
    while e:
        if e&1: r=pmod(clmul(r,b),p)
        b=sq(b); e>>=1
    return r
for q in sorted(set(fac)):
    print(q, ppow(2,N//q)!=1)
