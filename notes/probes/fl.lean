def xs : List Float := [0.3, 1e-4, 123.456, 9.99999999999999, 1e8, 0.7071067811865476, 2.5e-10]
#eval xs.map fun x => (Float.log x).toBits
#eval xs.map fun x => (Float.exp (x / 1e3)).toBits
#eval xs.map fun x => (Float.sin x).toBits
#eval xs.map fun x => (Float.cos x).toBits
#eval xs.map fun x => (Float.cbrt x).toBits
#eval xs.map fun x => (Float.pow x 0.37).toBits
