class XorSpace (V : Type) where
  add : V → V → V
  zero : V
  T : V → V
  add_assoc : ∀ a b c, add (add a b) c = add a (add b c)
  add_comm : ∀ a b, add a b = add b a
  add_zero : ∀ a, add a zero = a
  add_self : ∀ a, add a a = zero
  T_add : ∀ a b, T (add a b) = add (T a) (T b)
  T_zero : T zero = zero
open XorSpace
variable {V : Type} [XorSpace V]
local infixl:65 " ⊞ " => XorSpace.add
instance : Std.Associative (α := V) XorSpace.add := ⟨add_assoc⟩
instance : Std.Commutative (α := V) XorSpace.add := ⟨add_comm⟩
theorem zero_add' (a : V) : zero ⊞ a = a := by rw [add_comm, add_zero]
theorem add_cancel_left (a b : V) : a ⊞ (a ⊞ b) = b := by rw [← add_assoc, add_self, zero_add']

def evAux : List Bool → V → V → V
  | [], _, acc => acc
  | b :: g, x, acc => evAux g (T x) (if b then acc ⊞ x else acc)
def ev (g : List Bool) (x : V) : V := evAux g x zero
def evS : List Bool → V → V
  | [], _ => zero
  | b :: g, x => (if b then x else zero) ⊞ evS g (T x)

theorem evAux_eq (g : List Bool) (x acc : V) : evAux g x acc = acc ⊞ evS g x := by
  induction g generalizing x acc with
  | nil => simp [evAux, evS, add_zero]
  | cons b g ih =>
    simp only [evAux, evS]; rw [ih]
    cases b <;> simp [zero_add', add_assoc]
theorem ev_eq (g : List Bool) (x : V) : ev g x = evS g x := by
  unfold ev; rw [evAux_eq, zero_add']

theorem evS_add (g : List Bool) (x y : V) : evS g (x ⊞ y) = evS g x ⊞ evS g y := by
  induction g generalizing x y with
  | nil => simp [evS, add_zero]
  | cons b g ih =>
    simp only [evS, T_add, ih]
    cases b <;> simp [zero_add'] <;> ac_rfl
theorem evS_zero (g : List Bool) : evS g (zero : V) = zero := by
  induction g with
  | nil => rfl
  | cons b g ih => simp only [evS, T_zero, ih]; cases b <;> simp [add_zero]
theorem evS_T (g : List Bool) (x : V) : evS g (T x) = T (evS g x) := by
  induction g generalizing x with
  | nil => simp [evS, T_zero]
  | cons b g ih => simp only [evS, T_add, ih]; cases b <;> simp [T_zero]

def padd : List Bool → List Bool → List Bool
  | [], g => g
  | f, [] => f
  | a :: f, b :: g => (a != b) :: padd f g
theorem evS_padd (f g : List Bool) (x : V) : evS (padd f g) x = evS f x ⊞ evS g x := by
  induction f generalizing g x with
  | nil => simp [padd, evS, zero_add']
  | cons a f ih =>
    cases g with
    | nil => simp [padd, evS, add_zero]
    | cons b g =>
      simp only [padd, evS, ih]
      cases a <;> cases b <;> simp [zero_add', add_zero]
      · ac_rfl
      · ac_rfl
      · have : x ⊞ evS f (T x) ⊞ (x ⊞ evS g (T x)) = x ⊞ (x ⊞ (evS f (T x) ⊞ evS g (T x))) := by ac_rfl
        rw [this, add_cancel_left]
def pmul : List Bool → List Bool → List Bool
  | [], _ => []
  | a :: f, g => padd (if a then g else []) (false :: pmul f g)
theorem evS_pmul (f g : List Bool) (x : V) : evS (pmul f g) x = evS f (evS g x) := by
  induction f generalizing x with
  | nil => simp [pmul, evS]
  | cons a f ih =>
    simp only [pmul, evS_padd, evS, ih, zero_add', evS_T]
    cases a <;> simp [evS, zero_add']
/-- iterate -/
def iter (n : Nat) (x : V) : V := match n with | 0 => x | n+1 => iter n (T x)
/-- z^1 = [false,true] evaluates to T -/
example (x : V) : evS [false, true] x = T x := by simp [evS, zero_add', add_zero]
#print axioms evS_pmul
