theorem two_pow_add_eq_xor {n r : Nat} (h : r < 2^n) : 2^n + r = 2^n ^^^ r := by
  have := Nat.two_pow_add_eq_or_of_lt h 1
  rw [Nat.mul_one] at this; rw [this]
  apply Nat.eq_of_testBit_eq; intro i
  simp only [Nat.testBit_or, Nat.testBit_xor, Nat.testBit_two_pow]
  by_cases hi : n = i
  · subst hi; simp [Nat.testBit_lt_two_pow h]
  · simp [hi]

variable {V : Type} (add : V → V → V) (zero : V)
theorem lift_bits (f : Nat → V)
    (hadd : ∀ a b, f (a ^^^ b) = add (f a) (f b)) (hz : add zero zero = zero)
    (n : Nat) (hb : ∀ i, i < n → f (2^i) = zero) (h0 : f 0 = zero) :
    ∀ w, w < 2^n → f w = zero := by
  induction n with
  | zero => intro w hw; have : w = 0 := by simpa using hw
            subst this; exact h0
  | succ n ih =>
    intro w hw
    have ih' := ih (fun i hi => hb i (Nat.lt_succ_of_lt hi))
    by_cases hlt : w < 2^n
    · exact ih' w hlt
    · have hge : 2^n ≤ w := Nat.le_of_not_lt hlt
      have hr : w - 2^n < 2^n := by
        have : 2^(n+1) = 2^n + 2^n := by rw [Nat.pow_succ]; omega
        omega
      have : w = 2^n ^^^ (w - 2^n) := by rw [← two_pow_add_eq_xor hr]; omega
      rw [this, hadd, hb n (Nat.lt_succ_self n), ih' _ hr, hz]
#print axioms lift_bits
