#include <cstdio>
#include <cmath>
#include "corecel/grid/UniformGrid.hh"
#include "corecel/grid/UniformGridData.hh"
using namespace celeritas;
int main(){
  long tested=0, bad=0; int shown=0;
  double emins[]={1e-7,1e-6,1e-5,1e-4,1e-3,1e-2,0.1,1.0,2.0};
  double emaxs[]={1.0,10.,100.,1e3,1e4,1e5,1e6,1e7,1e8,1e9,3.5, 20.0};
  for(double emin:emins) for(double emax:emaxs) { if(emin>=emax) continue;
    for(unsigned size=2; size<=1000; ++size){
      auto d=UniformGridData::from_bounds(std::log(emin),std::log(emax),size);
      UniformGrid g(d);
      double E=emax;
      for(int k=0;k<64;k++){ E=std::nextafter(E,0.0); double v=std::log(E);
        if(!(v<d.back)) continue; ++tested;
        unsigned bin=g.find(v);
        if(bin+1>=size){ ++bad; if(emax!=1.0 && shown<12){++shown; printf("emin=%g emax=%g size=%u k=%d E=%.17g v=%.17g back=%.17g bin=%u\n",emin,emax,size,k+1,E,v,d.back,bin);} }
      }
    }}
  printf("tested=%ld bad=%ld\n",tested,bad);
}
