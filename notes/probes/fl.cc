#include <cmath>
#include <cstdio>
#include <cstring>
#include <cstdint>
uint64_t b(double d){uint64_t u; memcpy(&u,&d,8); return u;}
int main(){ volatile double xs[]={0.3,1e-4,123.456,9.99999999999999,1e8,0.7071067811865476,2.5e-10};
 auto pr=[&](double(*f)(double)){ printf("["); for(int i=0;i<7;i++) printf("%s%lu", i?", ":"", (unsigned long)b(f(xs[i]))); printf("]\n"); };
 pr([](double x){return std::log(x);}); pr([](double x){return std::exp(x/1e3);}); pr([](double x){return std::sin(x);}); pr([](double x){return std::cos(x);}); pr([](double x){return std::cbrt(x);}); pr([](double x){return std::pow(x,0.37);}); }
