#include <cstdio>
#include <cmath>
#include <random>
#include "celeritas/random/distribution/PoissonDistribution.hh"
#include "celeritas/random/distribution/ExponentialDistribution.hh"
using namespace celeritas;
int main(){
  std::mt19937_64 rng(12345);
  unsigned long bad=0, n=0; unsigned int worst=0;
  for (double lam : {16.000001, 16.5, 20.0, 30.0}) {
    bad=0; worst=0;
    for (long i=0;i<40000000;i++){ PoissonDistribution<double> p(lam); unsigned int k=p(rng); if (k>1000000u){bad++; worst=k;} }
    printf("lambda=%g bad=%lu worst=%u\n", lam,bad,worst);
  }
}
