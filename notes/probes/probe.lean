def clmulAux : Nat → Nat → Nat → Nat → Nat
  | 0, _, _, acc => acc
  | fuel+1, a, b, acc =>
    if a = 0 then acc else
    clmulAux fuel (a >>> 1) (b <<< 1) (if a % 2 = 1 then acc ^^^ b else acc)
def clmul (a b : Nat) : Nat := clmulAux 400 a b 0

def pmodAux : Nat → Nat → Nat → Nat
  | 0, a, _ => a
  | fuel+1, a, p =>
    if a.log2 < p.log2 then a else pmodAux fuel (a ^^^ (p <<< (a.log2 - p.log2))) p
def pmod (a p : Nat) := pmodAux 400 a p

def P : Nat := 0x100000f0e0f3c0035000621210861003000060001
def sq (a : Nat) := pmod (clmul a a) P
def j4 : Nat := 0x063a0069536d5b3220be29eb7064f5bcbebd3534
def j5 : Nat := 0x2bf0ccef1640314fd81c59eeafc48684ed64ec08
theorem t45 : sq (sq j4) = j5 := by decide +kernel
#print axioms t45
-- state next on Nat 160 bits
