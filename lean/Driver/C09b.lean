import Driver.Loop
import CelerVerif.Model.SolidsDriver
/- C09 solid-emission half: surfaces / senses / bounding zones emitted by IntersectRegion::build -/
def main : IO UInt32 := CelerVerif.runDriver CelerVerif.Solids.driverStep ()
