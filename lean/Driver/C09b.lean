import Driver.Loop
/- stub: replaced by the solids (C09 emission half) driver -/
def main : IO UInt32 := CelerVerif.runDriver (fun (s : Unit) _ => (s, "bad-op")) ()
