import Driver.Loop
import CelerVerif.Model.DistDriver
def main : IO UInt32 := CelerVerif.runDriver CelerVerif.Dist.driverStep ()
