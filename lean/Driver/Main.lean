/- `celer_model <area>`: reads one operation per line on stdin, answers one line per op. -/
import CelerVerif.Model.XorwowDriver

open CelerVerif

partial def loop {σ : Type} (h : IO.FS.Stream) (out : IO.FS.Stream) (step : σ → String → σ × String)
    (s : σ) : IO Unit := do
  let line ← h.getLine
  if line.isEmpty then return ()
  let (s', o) := step s line
  out.putStrLn o
  loop h out step s'

def main (args : List String) : IO UInt32 := do
  let stdin ← IO.getStdin
  let stdout ← IO.getStdout
  match args with
  | ["xorwow"] =>
    loop stdin stdout Xorwow.driverStep (default : Xorwow.State); stdout.flush; return 0
  | _ =>
    IO.eprintln "usage: celer_model <xorwow>"; return 2
