import Driver.Loop
import CelerVerif.Model.TrackInitDriver
def main : IO UInt32 := CelerVerif.runDriver CelerVerif.TrackInit.driverStep CelerVerif.TrackInit.DState.init
