import Driver.Loop
import CelerVerif.Model.LedgerDriver
def main : IO UInt32 := CelerVerif.runDriver CelerVerif.Ledger.driverStep {}
