import Driver.Loop
import CelerVerif.Model.FieldPropDriver
def main : IO UInt32 := CelerVerif.runDriver CelerVerif.FieldProp.driverStep ()
