import Driver.Loop
import CelerVerif.Model.SurfDriver
def main : IO UInt32 := CelerVerif.runDriver CelerVerif.Surf.driverStep ()
