import Driver.Loop
import CelerVerif.Num.SelfDriver
def main : IO UInt32 := CelerVerif.runDriver CelerVerif.NumSelf.driverStep ()
