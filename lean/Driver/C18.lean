import Driver.Loop
import CelerVerif.Model.AlgoDriver
def main : IO UInt32 := CelerVerif.runDriver CelerVerif.Algo.driverStep ()
