import Driver.Loop
import CelerVerif.Model.GatherDriver
def main : IO UInt32 := CelerVerif.runDriver CelerVerif.Gather.driverStep default
