import Driver.Loop
import CelerVerif.Model.ReindexDriver
def main : IO UInt32 := CelerVerif.runDriver CelerVerif.Reindex.driverStep ()
