import Driver.Loop
import CelerVerif.Model.XorwowDriver
def main : IO UInt32 := CelerVerif.runDriver CelerVerif.Xorwow.driverStep default
