import Driver.Loop
import CelerVerif.Model.BZoneDriver
def main : IO UInt32 := CelerVerif.runDriver CelerVerif.BZone.driverStep ()
