import Driver.Loop
import CelerVerif.Model.InteractDriver
def main : IO UInt32 := CelerVerif.runDriver CelerVerif.Interact.driverStep ()
