import Driver.Loop
import CelerVerif.Model.NavDriver
def main : IO UInt32 := CelerVerif.runDriver CelerVerif.Nav.driverStep CelerVerif.Nav.DState.init
