import Driver.Loop
import CelerVerif.Model.CalcDriver
def main : IO UInt32 := CelerVerif.runDriver CelerVerif.Calc.driverStep CelerVerif.Calc.St.init
