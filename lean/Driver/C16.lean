import Driver.Loop
import CelerVerif.Model.StackDriver
def main : IO UInt32 := CelerVerif.runDriver CelerVerif.Stack.driverStep CelerVerif.Stack.DState.init
