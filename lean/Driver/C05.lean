import Driver.Loop
import CelerVerif.Model.StepDriver
def main : IO UInt32 := CelerVerif.runDriver CelerVerif.Step.driverStep ⟨0.1, 0.2, 0.0, 1e-8⟩
