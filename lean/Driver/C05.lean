import Driver.Loop
/- stub: no executable model for C05 yet -/
def main : IO UInt32 := CelerVerif.runDriver (fun (s : Unit) _ => (s, "bad-op")) ()
