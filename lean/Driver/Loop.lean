/- Generic one-line-in / one-line-out loop for the model drivers. -/
partial def CelerVerif.driverLoop {σ : Type} (h out : IO.FS.Stream)
    (step : σ → String → σ × String) (s : σ) : IO Unit := do
  let line ← h.getLine
  if line.isEmpty then return ()
  let (s', o) := step s line
  out.putStrLn o
  CelerVerif.driverLoop h out step s'

def CelerVerif.runDriver {σ : Type} (step : σ → String → σ × String) (init : σ) : IO UInt32 := do
  let stdin ← IO.getStdin
  let stdout ← IO.getStdout
  CelerVerif.driverLoop stdin stdout step init
  stdout.flush
  return 0
