import Driver.Loop
import CelerVerif.Model.OrangeIODriver
def main : IO UInt32 := CelerVerif.runDriver CelerVerif.OrangeIO.driverStep ()
