import Driver.Loop
import CelerVerif.Model.CsgDriver
def main : IO UInt32 := CelerVerif.runDriver CelerVerif.Csg.driverStep CelerVerif.Csg.Tree.empty
