import Driver.Loop
import CelerVerif.Model.OpticalDriver
def main : IO UInt32 := CelerVerif.runDriver CelerVerif.Optical.driverStep ()
