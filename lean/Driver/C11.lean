import Driver.Loop
import CelerVerif.Model.SafetyDriver
def main : IO UInt32 := CelerVerif.runDriver CelerVerif.Safety.driverStep ()
