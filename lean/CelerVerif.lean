import CelerVerif.Model.Util
import CelerVerif.Model.XorwowCore
import CelerVerif.Model.Xorwow
import CelerVerif.Model.XorwowDriver
import CelerVerif.Props.C13
