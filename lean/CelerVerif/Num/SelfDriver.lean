/- Line protocol for the numeric self-test: every primitive of `Num Float` on given bit patterns. -/
import CelerVerif.Num.F64
import CelerVerif.Model.Util

namespace CelerVerif.NumSelf
open CelerVerif.Util

def fl (s : String) : Option Float := (parseHex s).map fun n => Float.ofBits (UInt64.ofNat n)
def out (x : Float) : String := Float.toHexBits x
def outB (b : Bool) : String := if b then "1" else "0"

def un (f : Float → Float) (a : String) : String :=
  match fl a with | some x => out (f x) | none => "bad-op"
def bin (f : Float → Float → Float) (a b : String) : String :=
  match fl a, fl b with | some x, some y => out (f x y) | _, _ => "bad-op"
def cmp (f : Float → Float → Bool) (a b : String) : String :=
  match fl a, fl b with | some x, some y => outB (f x y) | _, _ => "bad-op"

def driverStep (s : Unit) (line : String) : Unit × String :=
  (s, match words line with
  | ["fma", a, b, c] =>
    (match fl a, fl b, fl c with
     | some x, some y, some z => out (Num.fma x y z) | _, _, _ => "bad-op")
  | ["add", a, b] => bin Num.add a b
  | ["sub", a, b] => bin Num.sub a b
  | ["mul", a, b] => bin Num.mul a b
  | ["div", a, b] => bin Num.div a b
  | ["neg", a] => un Num.neg a
  | ["abs", a] => un Num.abs a
  | ["sqrt", a] => un Num.sqrt a
  | ["exp", a] => un Num.exp a
  | ["log", a] => un Num.log a
  | ["sin", a] => un Num.sin a
  | ["cos", a] => un Num.cos a
  | ["lt", a, b] => cmp Num.lt a b
  | ["le", a, b] => cmp Num.le a b
  | ["eq", a, b] => cmp Num.eq a b
  | ["nat", n] => (match n.toNat? with | some k => out (Num.ofNat k : Float) | none => "bad-op")
  | ["sci", m, sgn, e] =>
    (match m.toNat?, e.toNat? with
     | some m, some e => out (Num.ofSci m (sgn == "-") e : Float) | _, _ => "bad-op")
  | ["inf"] => out (Num.inf : Float)
  | _ => "bad-op")

end CelerVerif.NumSelf
