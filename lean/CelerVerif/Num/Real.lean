/-
`instance : Num ℝ` (noncomputable): the exact-arithmetic reading of the numeric model code.
All property theorems about numeric models are stated at `α := ℝ`.
-/
import Mathlib.Data.Real.Basic
import Mathlib.Analysis.SpecialFunctions.Sqrt
import Mathlib.Analysis.SpecialFunctions.Log.Basic
import Mathlib.Analysis.SpecialFunctions.Trigonometric.Basic
import CelerVerif.Num.Basic

namespace CelerVerif
open Classical

/-- A formal `+∞` does not exist in ℝ; `Num.inf` is only ever *compared against* or
    *returned as "no intersection"* by the modelled code.  It is interpreted by an arbitrary
    fixed real (0); theorems that mention it treat "result = Num.inf" via the model's own
    `noIntersection`-style predicates, never via its numeric value. -/
noncomputable instance : Num ℝ where
  add := (· + ·)
  sub := (· - ·)
  mul := (· * ·)
  div := (· / ·)
  neg := (- ·)
  abs := fun a => |a|
  sqrt := Real.sqrt
  exp := Real.exp
  log := Real.log
  sin := Real.sin
  cos := Real.cos
  fma := fun a b c => a * b + c
  lt := fun a b => decide (a < b)
  le := fun a b => decide (a ≤ b)
  eq := fun a b => decide (a = b)
  ofNat := fun n => (n : ℝ)
  ofSci := fun m s e => (OfScientific.ofScientific m s e : ℝ)
  inf := 0

namespace NumR
@[simp] theorem add_real (a b : ℝ) : Num.add a b = a + b := rfl
@[simp] theorem sub_real (a b : ℝ) : Num.sub a b = a - b := rfl
@[simp] theorem mul_real (a b : ℝ) : Num.mul a b = a * b := rfl
@[simp] theorem div_real (a b : ℝ) : Num.div a b = a / b := rfl
@[simp] theorem neg_real (a : ℝ) : Num.neg a = -a := rfl
@[simp] theorem abs_real (a : ℝ) : Num.abs a = |a| := rfl
@[simp] theorem sqrt_real (a : ℝ) : Num.sqrt a = Real.sqrt a := rfl
@[simp] theorem exp_real (a : ℝ) : Num.exp a = Real.exp a := rfl
@[simp] theorem log_real (a : ℝ) : Num.log a = Real.log a := rfl
@[simp] theorem sin_real (a : ℝ) : Num.sin a = Real.sin a := rfl
@[simp] theorem cos_real (a : ℝ) : Num.cos a = Real.cos a := rfl
@[simp] theorem fma_real (a b c : ℝ) : Num.fma a b c = a * b + c := rfl
@[simp] theorem lt_real (a b : ℝ) : Num.lt a b = true ↔ a < b := by
  show decide (a < b) = true ↔ _; simp
@[simp] theorem le_real (a b : ℝ) : Num.le a b = true ↔ a ≤ b := by
  show decide (a ≤ b) = true ↔ _; simp
@[simp] theorem eq_real (a b : ℝ) : Num.eq a b = true ↔ a = b := by
  show decide (a = b) = true ↔ _; simp
@[simp] theorem lt_real_false (a b : ℝ) : Num.lt a b = false ↔ b ≤ a := by
  show decide (a < b) = false ↔ _; simp
@[simp] theorem le_real_false (a b : ℝ) : Num.le a b = false ↔ b < a := by
  show decide (a ≤ b) = false ↔ _; simp
@[simp] theorem eq_real_false (a b : ℝ) : Num.eq a b = false ↔ a ≠ b := by
  show decide (a = b) = false ↔ _; simp
@[simp] theorem ofNat_real (n : ℕ) : (Num.ofNat n : ℝ) = (n : ℝ) := rfl
@[simp] theorem ofNat_zero : (Num.ofNat 0 : ℝ) = 0 := by show ((0 : ℕ) : ℝ) = 0; simp
@[simp] theorem ofNat_one : (Num.ofNat 1 : ℝ) = 1 := by show ((1 : ℕ) : ℝ) = 1; simp
@[simp] theorem hadd_real (a b : ℝ) : @HAdd.hAdd ℝ ℝ ℝ (@instHAdd ℝ Num.instAdd) a b = a + b := rfl
@[simp] theorem hsub_real (a b : ℝ) : @HSub.hSub ℝ ℝ ℝ (@instHSub ℝ Num.instSub) a b = a - b := rfl
@[simp] theorem hmul_real (a b : ℝ) : @HMul.hMul ℝ ℝ ℝ (@instHMul ℝ Num.instMul) a b = a * b := rfl
@[simp] theorem hdiv_real (a b : ℝ) : @HDiv.hDiv ℝ ℝ ℝ (@instHDiv ℝ Num.instDiv) a b = a / b := rfl
@[simp] theorem hneg_real (a : ℝ) : @Neg.neg ℝ Num.instNeg a = -a := rfl
theorem ofNatLit_real (n : ℕ) : (@OfNat.ofNat ℝ n (Num.instOfNat n)) = (n : ℝ) := rfl
/-- numeric literals of model code, read at ℝ (one lemma per literal used; a generic
    `Nat.cast` form makes `simp` loop against Mathlib's own literal instance) -/
@[simp] theorem lit0 : (@OfNat.ofNat ℝ 0 (Num.instOfNat 0)) = (0 : ℝ) := by
  show ((0 : ℕ) : ℝ) = 0; simp
@[simp] theorem lit1 : (@OfNat.ofNat ℝ 1 (Num.instOfNat 1)) = (1 : ℝ) := by
  show ((1 : ℕ) : ℝ) = 1; simp
@[simp] theorem lit2 : (@OfNat.ofNat ℝ 2 (Num.instOfNat 2)) = (2 : ℝ) := by
  show ((2 : ℕ) : ℝ) = 2; exact_mod_cast rfl
@[simp] theorem lit3 : (@OfNat.ofNat ℝ 3 (Num.instOfNat 3)) = (3 : ℝ) := by
  show ((3 : ℕ) : ℝ) = 3; exact_mod_cast rfl
@[simp] theorem lit4 : (@OfNat.ofNat ℝ 4 (Num.instOfNat 4)) = (4 : ℝ) := by
  show ((4 : ℕ) : ℝ) = 4; exact_mod_cast rfl
@[simp] theorem gt_real (a b : ℝ) : Num.gt a b = true ↔ b < a := by simp [Num.gt]
@[simp] theorem ge_real (a b : ℝ) : Num.ge a b = true ↔ b ≤ a := by simp [Num.ge]
@[simp] theorem zero_real : (Num.zero : ℝ) = 0 := by show ((0 : ℕ) : ℝ) = 0; simp
@[simp] theorem one_real : (Num.one : ℝ) = 1 := by show ((1 : ℕ) : ℝ) = 1; simp
@[simp] theorem sq_real (a : ℝ) : Num.sq a = a * a := by simp [Num.sq]
theorem min_real (a b : ℝ) : Num.min a b = min a b := by
  unfold Num.min
  by_cases h : b < a
  · simp [h, min_eq_right (le_of_lt h)]
  · simp [h, min_eq_left (not_lt.mp h)]
theorem max_real (a b : ℝ) : Num.max a b = max a b := by
  unfold Num.max
  by_cases h : a < b
  · simp [h, max_eq_right (le_of_lt h)]
  · simp [h, max_eq_left (not_lt.mp h)]
end NumR

namespace Vec3R
@[simp] theorem dot_real (a b : Vec3 ℝ) : Vec3.dot a b = a.x * b.x + a.y * b.y + a.z * b.z := by
  simp [Vec3.dot]; ring
@[simp] theorem axpy_real (s : ℝ) (x y : Vec3 ℝ) :
    Vec3.axpy s x y = ⟨s * x.x + y.x, s * x.y + y.y, s * x.z + y.z⟩ := by
  simp [Vec3.axpy]
end Vec3R

end CelerVerif
