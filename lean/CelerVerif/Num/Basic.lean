/-
Law-free number class.  Numeric model code is written ONCE against `Num α`; it is *executed*
at `α := Float` (IEEE binary64, bit-for-bit what the C++ computes; `CelerVerif/Num/F64.lean`)
and *proved about* at `α := ℝ` (`CelerVerif/Num/Real.lean`, noncomputable).  The gap between
the two instances is exactly floating-point rounding.
No Mathlib import here: model files are linked into the driver executables.
-/
namespace CelerVerif

class Num (α : Type) where
  add : α → α → α
  sub : α → α → α
  mul : α → α → α
  div : α → α → α
  neg : α → α
  abs : α → α
  sqrt : α → α
  exp : α → α
  log : α → α
  sin : α → α
  cos : α → α
  /-- `std::fma(a, b, c)` = a*b + c with one rounding -/
  fma : α → α → α → α
  lt : α → α → Bool
  le : α → α → Bool
  /-- `==` on values (IEEE: NaN ≠ NaN, +0 == −0) -/
  eq : α → α → Bool
  ofNat : Nat → α
  /-- decimal literal m · 10^(∓e) as the compiler would read it -/
  ofSci : Nat → Bool → Nat → α
  /-- +∞ (`numeric_limits<real_type>::infinity()`) -/
  inf : α

namespace Num
variable {α : Type} [Num α]

instance : Add α := ⟨Num.add⟩
instance : Sub α := ⟨Num.sub⟩
instance : Mul α := ⟨Num.mul⟩
instance : Div α := ⟨Num.div⟩
instance : Neg α := ⟨Num.neg⟩

/-- numeric literals inside model code: `open scoped CelerVerif.Num` -/
scoped instance (n : Nat) : OfNat α n := ⟨Num.ofNat n⟩
scoped instance : OfScientific α := ⟨Num.ofSci⟩

def gt (a b : α) : Bool := Num.lt b a
def ge (a b : α) : Bool := Num.le b a
def ne (a b : α) : Bool := !Num.eq a b
def min (a b : α) : α := if Num.lt b a then b else a      -- std::min / celeritas::min
def max (a b : α) : α := if Num.lt a b then b else a      -- std::max / celeritas::max
def sq (a : α) : α := a * a                                -- ipow<2>
def zero : α := Num.ofNat 0
def one : α := Num.ofNat 1

end Num

/-- `Array<real_type,3>` -/
structure Vec3 (α : Type) where
  x : α
  y : α
  z : α
deriving Repr, Inhabited, BEq

namespace Vec3
variable {α : Type} [Num α]

def get (v : Vec3 α) : Nat → α
  | 0 => v.x | 1 => v.y | _ => v.z

def set (v : Vec3 α) (i : Nat) (a : α) : Vec3 α :=
  match i with
  | 0 => { v with x := a } | 1 => { v with y := a } | _ => { v with z := a }

/-- `dot_product(x, y)`: ArrayUtils.hh — `result = fma(x[i], y[i], result)` from 0 -/
def dot (a b : Vec3 α) : α :=
  Num.fma a.z b.z (Num.fma a.y b.y (Num.fma a.x b.x (Num.ofNat 0)))

/-- `axpy(a, x, &y)`: y[i] = fma(a, x[i], y[i]) -/
def axpy (a : α) (x y : Vec3 α) : Vec3 α :=
  ⟨Num.fma a x.x y.x, Num.fma a x.y y.y, Num.fma a x.z y.z⟩

def sub (a b : Vec3 α) : Vec3 α := ⟨a.x - b.x, a.y - b.y, a.z - b.z⟩
def add (a b : Vec3 α) : Vec3 α := ⟨a.x + b.x, a.y + b.y, a.z + b.z⟩
def scale (s : α) (a : Vec3 α) : Vec3 α := ⟨s * a.x, s * a.y, s * a.z⟩
def neg (a : Vec3 α) : Vec3 α := ⟨-a.x, -a.y, -a.z⟩
/-- `norm(x)` = sqrt(dot_product(x,x)) -/
def norm (a : Vec3 α) : α := Num.sqrt (dot a a)

end Vec3
end CelerVerif
