/-
`instance : Num Float` — IEEE binary64, the same arithmetic the C++ build performs.
`+ - * / sqrt` are the hardware operations; `exp log sin cos` call the same glibc libm as the
C++ code on this machine (re-checked by the harness self-test on every run); `fma` is computed
EXACTLY on bit patterns (decode → exact integer arithmetic → round-to-nearest-even → encode),
because the code calls `std::fma` (ArrayUtils `axpy`/`dot_product`) and the Lean runtime
has no fma primitive.  `roundToF64` is cross-checked against `std::fma` by harness/numself.cc.
-/
import CelerVerif.Num.Basic

namespace CelerVerif.F64

/-- finite decoded value (-1)^neg · m · 2^e, or a special -/
inductive Dec where
  | nan
  | inf (neg : Bool)
  | fin (neg : Bool) (m : Nat) (e : Int)
deriving Repr

def decode (b : UInt64) : Dec :=
  let n := b.toNat
  let neg := n >>> 63 == 1
  let ex := (n >>> 52) % 2048
  let fr := n % (2 ^ 52)
  if ex == 2047 then (if fr == 0 then .inf neg else .nan)
  else if ex == 0 then .fin neg fr (-1074)
  else .fin neg (2 ^ 52 + fr) (Int.ofNat ex - 1075)

def signBit (neg : Bool) : Nat := if neg then 2 ^ 63 else 0
def infBits (neg : Bool) : UInt64 := UInt64.ofNat (signBit neg + 2047 * 2 ^ 52)
def nanBits : UInt64 := UInt64.ofNat (2047 * 2 ^ 52 + 2 ^ 51)

/-- bit length -/
def blen (n : Nat) : Nat := if n = 0 then 0 else n.log2 + 1

/-- round (-1)^neg · n · 2^e (n > 0) to the nearest binary64, ties to even -/
def roundToF64 (neg : Bool) (n : Nat) (e : Int) : UInt64 :=
  if n = 0 then UInt64.ofNat (signBit neg)
  else
    let L : Int := Int.ofNat (blen n)
    let q0 : Int := e + L - 53
    let q : Int := if q0 < -1074 then -1074 else q0
    let mant : Nat :=
      if q ≤ e then n <<< (e - q).toNat
      else
        let sh := (q - e).toNat
        let m := n >>> sh
        let rem := n % (2 ^ sh)
        let half := 2 ^ (sh - 1)
        if rem > half ∨ (rem = half ∧ m % 2 = 1) then m + 1 else m
    -- encode
    if mant < 2 ^ 52 then UInt64.ofNat (signBit neg + mant)       -- subnormal (q = -1074)
    else
      let (mant, q) := if mant = 2 ^ 53 then (2 ^ 52, q + 1) else (mant, q)
      let ex : Int := q + 1075
      if ex ≥ 2047 then infBits neg
      else UInt64.ofNat (signBit neg + ex.toNat * 2 ^ 52 + (mant - 2 ^ 52))

/-- exact `fma(a,b,c)` on bit patterns -/
def fmaBits (a b c : UInt64) : UInt64 :=
  match decode a, decode b, decode c with
  | .nan, _, _ => nanBits
  | _, .nan, _ => nanBits
  | _, _, .nan => nanBits
  | .inf sa, .inf sb, dc =>
    match dc with
    | .inf sc => if (sa != sb) == sc then infBits sc else nanBits
    | _ => infBits (sa != sb)
  | .inf sa, .fin sb mb _, dc =>
    if mb = 0 then nanBits else
    match dc with
    | .inf sc => if (sa != sb) == sc then infBits sc else nanBits
    | _ => infBits (sa != sb)
  | .fin sa ma _, .inf sb, dc =>
    if ma = 0 then nanBits else
    match dc with
    | .inf sc => if (sa != sb) == sc then infBits sc else nanBits
    | _ => infBits (sa != sb)
  | .fin _ _ _, .fin _ _ _, .inf sc => infBits sc
  | .fin sa ma ea, .fin sb mb eb, .fin sc mc ec =>
    let sp := sa != sb
    let mp := ma * mb
    let ep := ea + eb
    if mp = 0 then
      if mc = 0 then UInt64.ofNat (signBit (sp && sc)) else c
    else if mc = 0 then roundToF64 sp mp ep
    else
      let em := if ep < ec then ep else ec
      let P : Int := Int.ofNat (mp <<< (ep - em).toNat)
      let C : Int := Int.ofNat (mc <<< (ec - em).toNat)
      let S : Int := (if sp then -P else P) + (if sc then -C else C)
      if S = 0 then UInt64.ofNat 0
      else roundToF64 (S < 0) S.natAbs em

def fma (a b c : Float) : Float := Float.ofBits (fmaBits a.toBits b.toBits c.toBits)

end CelerVerif.F64

namespace CelerVerif

instance : Num Float where
  add := Float.add
  sub := Float.sub
  mul := Float.mul
  div := Float.div
  neg := Float.neg
  abs := Float.abs
  sqrt := Float.sqrt
  exp := Float.exp
  log := Float.log
  sin := Float.sin
  cos := Float.cos
  fma := F64.fma
  lt a b := a < b
  le a b := a ≤ b
  eq a b := a == b
  ofNat n := Float.ofNat n
  ofSci m s e := OfScientific.ofScientific m s e
  inf := Float.ofBits 0x7ff0000000000000

/-- doubles cross the protocol as 16-hex-digit bit patterns -/
def Float.toHexBits (x : Float) : String :=
  let n := x.toBits.toNat
  String.ofList <| (List.range 16).reverse.map fun i =>
    let d := (n >>> (4 * i)) % 16
    if d < 10 then Char.ofNat (48 + d) else Char.ofNat (87 + d)

end CelerVerif
