/- Line protocol for the calculator model at `Float` (C++ side: harness/calc.cc).

State: 8 table slots (`XsGridData` + its own `reals`), 8 generic-grid slots.
Doubles are 16-hex-digit bit patterns, sizes / indices / slots are decimal.

  consts                                   -> min_step dtrl small_step_alpha sqrt_tol no_scaling
  xsgrid S front back prime n off w0 w1 …  -> ok <delta>      (prime: decimal or `none`;
                                              reals = all words, table = reals[off, off+n))
  ugat S i            -> grid[i]           ugfind S v  -> index | precond      log E -> std::log(E)    exp v -> std::exp(v)
  bitop add|sub|mul|div|lt|le|eq a b | bitop fma a b c | bitop lerp xl yl xr yr x   (bit-level B64 model)
  xs S E | xsat S i | range S E | invrange S r          -> value | oob | precond
  gengrid S n x0…x(n-1) y0…y(n-1)          -> ok
  gen S x | geninv S y                     -> value | oob | precond
  eloss L R limit E range step             -> value | oob | precond
  r2s rho alpha range                      -> value
  togeo R M emass E lambda range tstep O   -> step alpha | oob | precond   (O = expm1(-tstep/lambda))
  fromgeo true alpha range lambda gstep O  -> value                         (O = log1p(-gstep/lambda))
  xsbuild S emin eprime emax n xs0…        -> ok <delta> <prime_index>   (ValueGridXsBuilder + inserter)
  logbuild S emin emax n v0…               -> ok <delta> <prime_index>   (ValueGridLogBuilder)
  physbuild M L R limit rho alpha fixed    -> ok     (PhysicsParams from builder-made slots, fresh track state)
  pstep E mfp frac   -> step action dedx_range macro_xs loss    (calc_physics_step_limit, then
                        calc_mean_energy_loss over frac·step on the SAME track state)
-/
import CelerVerif.Model.Calc
import CelerVerif.Num.F64
import CelerVerif.Model.CalcBits
import CelerVerif.Model.Util

namespace CelerVerif.Calc
open CelerVerif.Util

def pf (s : String) : Option Float :=
  if s.length > 16 then none else (parseHex s).map fun n => Float.ofBits (UInt64.ofNat n)
def pfs (ws : List String) : Option (List Float) := ws.mapM pf
def hx (x : Float) : String := Float.toHexBits x
def hxo : Option Float → String
  | some x => hx x
  | none => "oob"

/-- `static_cast<size_type>(double)` for the in-range values the code produces -/
def toIdxF (x : Float) : Nat := x.toUInt64.toNat

/-- PhysicsParams (one process: macro xs, energy loss, range) + the persistent track state -/
structure Phys where
  mxs : XsGrid Float
  loss : XsGrid Float
  rng : XsGrid Float
  lim : Float
  rho : Float
  alpha : Float
  fixed : Float
  track : PhysTrack Float

structure St where
  xs : Array (Option (XsGrid Float))
  gen : Array (Option (GenGrid Float))
  built : Array Bool := Array.replicate 8 false     -- slot made by a real builder op
  phys : Option Phys := none

def St.init : St := ⟨Array.replicate 8 none, Array.replicate 8 none, Array.replicate 8 false, none⟩

def St.builtSlot (st : St) (s : String) : Option (XsGrid Float) :=
  match s.toNat? with
  | some k => if st.built.getD k false then (if h : k < st.xs.size then st.xs[k] else none) else none
  | none => none

def actionStr : StepAction → String
  | .discrete => "d" | .range => "r" | .fixed => "f"

def St.xsSlot (st : St) (s : String) : Option (XsGrid Float) :=
  match s.toNat? with
  | some k => if h : k < st.xs.size then st.xs[k] else none
  | none => none

def St.genSlot (st : St) (s : String) : Option (GenGrid Float) :=
  match s.toNat? with
  | some k => if h : k < st.gen.size then st.gen[k] else none
  | none => none

def isNaN (x : Float) : Bool := x != x

def driverStep (st : St) (line : String) : St × String :=
  match words line with
  | ["consts"] =>
    (st, s!"{hx (mscMinStep : Float)} {hx (mscDtrl : Float)} {hx (smallStepAlpha : Float)} {hx (sqrtTol : Float)} {noScaling}")
  | "xsgrid" :: s :: front :: back :: prime :: n :: off :: ws =>
    match s.toNat?, pf front, pf back, n.toNat?, off.toNat?, pfs ws with
    | some k, some f, some b, some n, some off, some ws =>
      let pr : Option Nat := if prime == "none" then some noScaling else prime.toNat?
      match pr with
      | some pr =>
        if k < 8 ∧ n ≥ 2 ∧ off + n ≤ ws.length then
          let g := UGrid.fromBounds f b n
          let d : XsGrid Float := ⟨g, pr, off, n, ws.toArray⟩
          ({ st with xs := st.xs.setIfInBounds k (some d), built := st.built.setIfInBounds k false },
            s!"ok {hx g.delta}")
        else (st, "bad-op")
      | none => (st, "bad-op")
    | _, _, _, _, _, _ => (st, "bad-op")
  | ["log", e] =>
    (st, match pf e with
      | some e => hx (Num.log e)
      | none => "bad-op")
  | "bitop" :: op :: args =>
    -- the kernel-evaluable bit-level arithmetic of Model/CalcBits.lean (checked against the
    -- hardware operations of the C++ side)
    (st, match (args.mapM fun a => if a.length > 16 then none else
                (parseHex a).map fun n => (⟨UInt64.ofNat n⟩ : B64)) with
      | some [a, b] =>
        let h (x : B64) : String := toHex 16 x.bits.toNat
        let hb (x : Bool) : String := if x then "1" else "0"
        if op == "add" then h (Num.add a b) else if op == "sub" then h (Num.sub a b)
        else if op == "mul" then h (Num.mul a b) else if op == "div" then h (Num.div a b)
        else if op == "lt" then hb (Num.lt a b) else if op == "le" then hb (Num.le a b)
        else if op == "eq" then hb (Num.eq a b)
        else if op == "lerp2" then "bad-op" else "bad-op"
      | some [a, b, c] =>
        if op == "fma" then toHex 16 (Num.fma a b c).bits.toNat else "bad-op"
      | some [xl, yl, xr, yr, x] =>
        if op == "lerp" then toHex 16 (lerp xl yl xr yr x).bits.toNat else "bad-op"
      | _ => "bad-op")
  | ["exp", e] =>
    (st, match pf e with
      | some e => hx (Num.exp e)
      | none => "bad-op")
  | ["ugat", s, i] =>
    (st, match st.xsSlot s, i.toNat? with
      | some d, some i => hx (d.grid.at i)
      | _, _ => "bad-op")
  | ["ugfind", s, v] =>
    (st, match st.xsSlot s, pf v with
      | some d, some v =>
        if v >= d.grid.front && v < d.grid.back then toString (d.grid.find toIdxF v) else "precond"
      | _, _ => "bad-op")
  | ["xs", s, e] =>
    (st, match st.xsSlot s, pf e with
      | some d, some e => if e > 0.0 then hxo (d.calc toIdxF e) else "precond"
      | _, _ => "bad-op")
  | ["xsat", s, i] =>
    (st, match st.xsSlot s, i.toNat? with
      | some d, some i => if i < d.size then hxo (d.atIndex i) else "precond"
      | _, _ => "bad-op")
  | ["range", s, e] =>
    (st, match st.xsSlot s, pf e with
      | some d, some e => if e > 0.0 then hxo (d.range toIdxF e) else "precond"
      | _, _ => "bad-op")
  | ["invrange", s, r] =>
    (st, match st.xsSlot s, pf r with
      | some d, some r => if isNaN r then "precond" else hxo (d.invRange r)
      | _, _ => "bad-op")
  | "gengrid" :: s :: n :: ws =>
    match s.toNat?, n.toNat?, pfs ws with
    | some k, some n, some ws =>
      if k < 8 ∧ n ≥ 2 ∧ ws.length = 2 * n then
        let d : GenGrid Float := ⟨0, n, n, ws.toArray⟩
        ({ st with gen := st.gen.setIfInBounds k (some d) }, "ok")
      else (st, "bad-op")
    | _, _, _ => (st, "bad-op")
  | ["gen", s, x] =>
    (st, match st.genSlot s, pf x with
      | some d, some x => if isNaN x then "precond" else hxo (d.calc x)
      | _, _ => "bad-op")
  | ["geninv", s, x] =>
    (st, match st.genSlot s, pf x with
      | some d, some x => if isNaN x then "precond" else hxo (d.inverse.calc x)
      | _, _ => "bad-op")
  | ["eloss", l, r, lim, e, rng, step] =>
    (st, match st.xsSlot l, st.xsSlot r, pfs [lim, e, rng, step] with
      | some dl, some dr, some [lim, e, rng, step] =>
        if e > 0.0 && step > 0.0 && !isNaN rng && !isNaN lim then
          hxo (meanEnergyLoss toIdxF dl dr lim e rng step)
        else "precond"
      | _, _, _ => "bad-op")
  | ["r2s", rho, alpha, range] =>
    (st, match pfs [rho, alpha, range] with
      | some [rho, alpha, range] => hx (rangeToStep rho alpha range)
      | _ => "bad-op")
  | ["togeo", r, m, emass, e, lam, rng, t, o] =>
    (st, match st.xsSlot r, st.xsSlot m, pfs [emass, e, lam, rng, t, o] with
      | some dr, some dm, some [emass, e, lam, rng, t, o] =>
        if e > 0.0 && lam > 0.0 && rng > 0.0 && t >= 0.0 && t <= rng && !isNaN emass then
          -- `UrbanMscHelper`'s constructor evaluates `calc_msc_mfp(particle.energy())`
          match mscMfp toIdxF dm e with
          | none => "oob"
          | some _ =>
            match mscStepToGeo toIdxF (fun _ => o) dr dm emass e lam rng t with
            | some res => s!"{hx res.step} {hx res.alpha}"
            | none => "oob"
        else "precond"
      | _, _, _ => "bad-op")
  | ["fromgeo", tr, alpha, rng, lam, g, o] =>
    (st, match pfs [tr, alpha, rng, lam, g, o] with
      | some [tr, alpha, rng, lam, g, o] => hx (mscStepFromGeo (fun _ => o) tr alpha rng lam g)
      | _ => "bad-op")
  | "xsbuild" :: s :: emin :: eprime :: emax :: n :: ws =>
    match s.toNat?, pfs [emin, eprime, emax], n.toNat?, pfs ws with
    | some k, some [emin, eprime, emax], some n, some ws =>
      if k < 8 ∧ n ≥ 2 ∧ ws.length = n ∧ emin > 0.0 ∧ eprime >= emin ∧ emax > eprime then
        let d := (XsBuilder.mk' emin eprime emax ws.toArray).build toIdxF #[]
        ({ st with xs := st.xs.setIfInBounds k (some d), built := st.built.setIfInBounds k true },
          s!"ok {hx d.grid.delta} {d.prime}")
      else (st, "bad-op")
    | _, _, _, _ => (st, "bad-op")
  | "logbuild" :: s :: emin :: emax :: n :: ws =>
    match s.toNat?, pfs [emin, emax], n.toNat?, pfs ws with
    | some k, some [emin, emax], some n, some ws =>
      if k < 8 ∧ n ≥ 2 ∧ ws.length = n ∧ emin > 0.0 ∧ emax > emin then
        let d := logBuild emin emax ws.toArray #[]
        ({ st with xs := st.xs.setIfInBounds k (some d), built := st.built.setIfInBounds k true },
          s!"ok {hx d.grid.delta} {d.prime}")
      else (st, "bad-op")
    | _, _, _, _ => (st, "bad-op")
  | ["physbuild", m, l, r, lim, rho, alpha, fixed] =>
    match st.builtSlot m, st.builtSlot l, st.builtSlot r, pfs [lim, rho, alpha, fixed] with
    | some dm, some dl, some dr, some [lim, rho, alpha, fixed] =>
      if dm.grid.front.toBits == dl.grid.front.toBits && dl.grid.front.toBits == dr.grid.front.toBits
          && dm.grid.back.toBits == dl.grid.back.toBits && dl.grid.back.toBits == dr.grid.back.toBits
          && lim > 0.0 && lim <= 1.0 && rho > 0.0 && alpha > 0.0 && fixed >= 0.0
          && dl.prime == noScaling && dr.prime == noScaling then
        ({ st with phys := some ⟨dm, dl, dr, lim, rho, alpha, fixed, ⟨0.0, 0.0⟩⟩ }, "ok")
      else (st, "bad-op")
    | _, _, _, _ => (st, "bad-op")
  | ["pstep", e, mfp, frac] =>
    match st.phys, pfs [e, mfp, frac] with
    | some ph, some [e, mfp, frac] =>
      if e > 0.0 && mfp > 0.0 && frac > 0.0 && frac <= 1.0 then
        match physicsStepLimit toIdxF ph.mxs ph.rng ph.rho ph.alpha ph.fixed ph.track e mfp with
        | none => (st, "oob")
        | some (lim, tr) =>
          let st' := { st with phys := some { ph with track := tr } }
          let s := frac * lim.step
          let head := s!"{hx lim.step} {actionStr lim.action} {hx tr.dedxRange} {hx tr.macroXs}"
          if s > 0.0 then
            (st', s!"{head} {hxo (meanEnergyLoss toIdxF ph.loss ph.rng ph.lim e tr.dedxRange s)}")
          else (st', s!"{head} nostep")
      else (st, "precond")
    | _, _ => (st, "bad-op")
  | _ => (st, "bad-op")

end CelerVerif.Calc
