/- Line protocol for the calculator model at `Float` (C++ side: harness/calc.cc).

State: 8 table slots (`XsGridData` + its own `reals`), 8 generic-grid slots.
Doubles are 16-hex-digit bit patterns, sizes / indices / slots are decimal.

  consts                                   -> min_step dtrl small_step_alpha sqrt_tol no_scaling
  xsgrid S front back prime n off w0 w1 …  -> ok <delta>      (prime: decimal or `none`;
                                              reals = all words, table = reals[off, off+n))
  ugat S i            -> grid[i]           ugfind S v  -> index | precond      log E -> std::log(E)
  xs S E | xsat S i | range S E | invrange S r          -> value | oob | precond
  gengrid S n x0…x(n-1) y0…y(n-1)          -> ok
  gen S x | geninv S y                     -> value | oob | precond
  eloss L R limit E range step             -> value | oob | precond
  r2s rho alpha range                      -> value
  togeo R M emass E lambda range tstep O   -> step alpha | oob | precond   (O = expm1(-tstep/lambda))
  fromgeo true alpha range lambda gstep O  -> value                         (O = log1p(-gstep/lambda))
-/
import CelerVerif.Model.Calc
import CelerVerif.Num.F64
import CelerVerif.Model.Util

namespace CelerVerif.Calc
open CelerVerif.Util

def pf (s : String) : Option Float :=
  if s.length > 16 then none else (parseHex s).map fun n => Float.ofBits (UInt64.ofNat n)
def pfs (ws : List String) : Option (List Float) := ws.mapM pf
def hx (x : Float) : String := Float.toHexBits x
def hxo : Option Float → String
  | some x => hx x
  | none => "oob"

/-- `static_cast<size_type>(double)` for the in-range values the code produces -/
def toIdxF (x : Float) : Nat := x.toUInt64.toNat

structure St where
  xs : Array (Option (XsGrid Float))
  gen : Array (Option (GenGrid Float))

def St.init : St := ⟨Array.replicate 8 none, Array.replicate 8 none⟩

def St.xsSlot (st : St) (s : String) : Option (XsGrid Float) :=
  match s.toNat? with
  | some k => if h : k < st.xs.size then st.xs[k] else none
  | none => none

def St.genSlot (st : St) (s : String) : Option (GenGrid Float) :=
  match s.toNat? with
  | some k => if h : k < st.gen.size then st.gen[k] else none
  | none => none

def isNaN (x : Float) : Bool := x != x

def driverStep (st : St) (line : String) : St × String :=
  match words line with
  | ["consts"] =>
    (st, s!"{hx (mscMinStep : Float)} {hx (mscDtrl : Float)} {hx (smallStepAlpha : Float)} {hx (sqrtTol : Float)} {noScaling}")
  | "xsgrid" :: s :: front :: back :: prime :: n :: off :: ws =>
    match s.toNat?, pf front, pf back, n.toNat?, off.toNat?, pfs ws with
    | some k, some f, some b, some n, some off, some ws =>
      let pr : Option Nat := if prime == "none" then some noScaling else prime.toNat?
      match pr with
      | some pr =>
        if k < 8 ∧ n ≥ 2 ∧ off + n ≤ ws.length then
          let g := UGrid.fromBounds f b n
          let d : XsGrid Float := ⟨g, pr, off, n, ws.toArray⟩
          ({ st with xs := st.xs.setIfInBounds k (some d) }, s!"ok {hx g.delta}")
        else (st, "bad-op")
      | none => (st, "bad-op")
    | _, _, _, _, _, _ => (st, "bad-op")
  | ["log", e] =>
    (st, match pf e with
      | some e => hx (Num.log e)
      | none => "bad-op")
  | ["ugat", s, i] =>
    (st, match st.xsSlot s, i.toNat? with
      | some d, some i => hx (d.grid.at i)
      | _, _ => "bad-op")
  | ["ugfind", s, v] =>
    (st, match st.xsSlot s, pf v with
      | some d, some v =>
        if v >= d.grid.front && v < d.grid.back then toString (d.grid.find toIdxF v) else "precond"
      | _, _ => "bad-op")
  | ["xs", s, e] =>
    (st, match st.xsSlot s, pf e with
      | some d, some e => if e > 0.0 then hxo (d.calc toIdxF e) else "precond"
      | _, _ => "bad-op")
  | ["xsat", s, i] =>
    (st, match st.xsSlot s, i.toNat? with
      | some d, some i => if i < d.size then hxo (d.atIndex i) else "precond"
      | _, _ => "bad-op")
  | ["range", s, e] =>
    (st, match st.xsSlot s, pf e with
      | some d, some e => if e > 0.0 then hxo (d.range toIdxF e) else "precond"
      | _, _ => "bad-op")
  | ["invrange", s, r] =>
    (st, match st.xsSlot s, pf r with
      | some d, some r => if isNaN r then "precond" else hxo (d.invRange r)
      | _, _ => "bad-op")
  | "gengrid" :: s :: n :: ws =>
    match s.toNat?, n.toNat?, pfs ws with
    | some k, some n, some ws =>
      if k < 8 ∧ n ≥ 2 ∧ ws.length = 2 * n then
        let d : GenGrid Float := ⟨0, n, n, ws.toArray⟩
        ({ st with gen := st.gen.setIfInBounds k (some d) }, "ok")
      else (st, "bad-op")
    | _, _, _ => (st, "bad-op")
  | ["gen", s, x] =>
    (st, match st.genSlot s, pf x with
      | some d, some x => if isNaN x then "precond" else hxo (d.calc x)
      | _, _ => "bad-op")
  | ["geninv", s, x] =>
    (st, match st.genSlot s, pf x with
      | some d, some x => if isNaN x then "precond" else hxo (d.inverse.calc x)
      | _, _ => "bad-op")
  | ["eloss", l, r, lim, e, rng, step] =>
    (st, match st.xsSlot l, st.xsSlot r, pfs [lim, e, rng, step] with
      | some dl, some dr, some [lim, e, rng, step] =>
        if e > 0.0 && step > 0.0 && !isNaN rng && !isNaN lim then
          hxo (meanEnergyLoss toIdxF dl dr lim e rng step)
        else "precond"
      | _, _, _ => "bad-op")
  | ["r2s", rho, alpha, range] =>
    (st, match pfs [rho, alpha, range] with
      | some [rho, alpha, range] => hx (rangeToStep rho alpha range)
      | _ => "bad-op")
  | ["togeo", r, m, emass, e, lam, rng, t, o] =>
    (st, match st.xsSlot r, st.xsSlot m, pfs [emass, e, lam, rng, t, o] with
      | some dr, some dm, some [emass, e, lam, rng, t, o] =>
        if e > 0.0 && lam > 0.0 && rng > 0.0 && t >= 0.0 && t <= rng && !isNaN emass then
          -- `UrbanMscHelper`'s constructor evaluates `calc_msc_mfp(particle.energy())`
          match mscMfp toIdxF dm e with
          | none => "oob"
          | some _ =>
            match mscStepToGeo toIdxF (fun _ => o) dr dm emass e lam rng t with
            | some res => s!"{hx res.step} {hx res.alpha}"
            | none => "oob"
        else "precond"
      | _, _, _ => "bad-op")
  | ["fromgeo", tr, alpha, rng, lam, g, o] =>
    (st, match pfs [tr, alpha, rng, lam, g, o] with
      | some [tr, alpha, rng, lam, g, o] => hx (mscStepFromGeo (fun _ => o) tr alpha rng lam g)
      | _ => "bad-op")
  | _ => (st, "bad-op")

end CelerVerif.Calc
