/- Line protocol for the CSG model (C10); the C++ side is harness/csg.cc. -/
import CelerVerif.Model.Csg
import CelerVerif.Model.CsgLogic
import CelerVerif.Model.CsgDeMorgan
import CelerVerif.Model.CsgInfix
import CelerVerif.Model.CsgRuntime
import CelerVerif.Model.Util

namespace CelerVerif.Csg
open CelerVerif.Util
open CelerVerif.Generated.Csg

def joinWith (sep : String) (xs : List String) : String := sep.intercalate xs

def showNode : Node → String
  | .tru => "T"
  | .fls => "F"
  | .aliased n => s!">{n}"
  | .negated n => s!"~{n}"
  | .surface s => s!"S{s}"
  | .joined op ns =>
    (if op = .and then "&(" else "|(") ++ joinWith "," (ns.map toString) ++ ")"

def enumFrom {α : Type} : Nat → List α → List (Nat × α)
  | _, [] => []
  | i, x :: xs => (i, x) :: enumFrom (i + 1) xs

def dump (t : Tree) : String :=
  "nodes " ++ joinWith " " ((enumFrom 0 t.nodes).map fun (i, n) => s!"{i}:{showNode n}")
    ++ " vols" ++ String.join (t.volumes.map fun v => s!" {v}")

def withDump (res : String) (t : Tree) : String := res ++ " # " ++ dump t

/-- surfaces the harness can evaluate (it owns 64 planes) -/
def maxSurface : Nat := 64

/-- decimal number: 1–9 digits, nothing else -/
def parseDec (w : String) : Option Nat :=
  let cs := w.toList
  if cs.isEmpty ∨ cs.length > 9 ∨ !cs.all Char.isDigit then none
  else some (cs.foldl (fun a c => a * 10 + (c.toNat - '0'.toNat)) 0)

def parseNats : List String → Option (List Nat)
  | [] => some []
  | w :: ws =>
    match parseDec w, parseNats ws with
    | some n, some ns => some (n :: ns)
    | _, _ => none

/-- node specification: `true | false | surface k | negated n | aliased n | join and|or n…`;
    children must be `< bound` -/
def parseNode (bound : Nat) : List String → Option Node
  | ["true"] => some .tru
  | ["false"] => some .fls
  | ["surface", k] =>
    match parseDec k with
    | some k => if k < maxSurface then some (.surface k) else none
    | none => none
  | ["negated", n] =>
    match parseDec n with
    | some n => if n < bound then some (.negated n) else none
    | none => none
  | ["aliased", n] =>
    match parseDec n with
    | some n => if n < bound then some (.aliased n) else none
    | none => none
  | "join" :: op :: rest =>
    let op? : Option Op := if op = "and" then some .and else if op = "or" then some .or else none
    match op?, parseNats rest with
    | some op, some ns => if ns.all (· < bound) then some (.joined op ns) else none
    | _, _ => none
  | _ => none

def showTok (v : Nat) : String :=
  if v = ltrue then "*" else if v = lor then "|" else if v = land then "&"
  else if v = lnot then "~" else if v = lopen then "(" else if v = lclose then ")"
  else toString v

def parseTok (w : String) : Option Nat :=
  if w = "*" then some ltrue else if w = "|" then some lor else if w = "&" then some land
  else if w = "~" then some lnot
  else match parseDec w with
    | some n => if n < maxSurface then some n else none
    | none => none

/-- tokens of the explicit infix notation: the postfix tokens plus `(` and `)` -/
def parseInfixTok (w : String) : Option Nat :=
  if w = "(" then some lopen else if w = ")" then some lclose else parseTok w

def parseInfixToks : List String → Option (List Nat)
  | [] => some []
  | w :: ws =>
    match parseInfixTok w, parseInfixToks ws with
    | some n, some ns => some (n :: ns)
    | _, _ => none

def parseToks : List String → Option (List Nat)
  | [] => some []
  | w :: ws =>
    match parseTok w, parseToks ws with
    | some n, some ns => some (n :: ns)
    | _, _ => none

def sigmaOf (bits : Nat) : Nat → Bool := fun s => bits.testBit s

/-- evaluation used by the driver: budget `size+1` (equals `denote` on sorted trees, and the
    real recursive evaluators on any acyclic tree) -/
def evalTree (t : Tree) (σ : Nat → Bool) (n : Nat) : Bool := denoteFuel t.nodes σ (t.size + 1) n

/-- evaluate the postfix logic of node `n` with the 32-bit stack, senses through the faces -/
def evalPostfix (t : Tree) (n : Nat) (σ : Nat → Bool) : Option Bool :=
  match postfixOf t none n with
  | none => none
  | some (faces, lgc) => some (evalBits lgc (fun f => σ (faces.getD f 0)))

def hexOfBits (bs : List Bool) : String :=
  let rec go : List Bool → List Char
    | [] => []
    | b0 :: b1 :: b2 :: b3 :: rest =>
      hexChar (b0.toNat + 2 * b1.toNat + 4 * b2.toNat + 8 * b3.toNat) :: go rest
    | bs => [hexChar (((enumFrom 0 bs).map fun (i, b) => b.toNat <<< i).foldl (· + ·) 0)]
  String.ofList (go bs)

def truthTable (k : Nat) (f : (Nat → Bool) → Bool) : String :=
  hexOfBits ((List.range (2 ^ k)).map fun a => f (sigmaOf a))

def tf (b : Bool) : String := if b then "T" else "F"

def splitAtSemi (ws : List String) : List String × List String :=
  (ws.takeWhile (· ≠ ";"), (ws.dropWhile (· ≠ ";")).drop 1)

def driverStep (t : Tree) (line : String) : Tree × String :=
  match words line with
  | ["reset"] => (Tree.empty, withDump "ok" Tree.empty)
  | ["dump"] => (t, withDump "ok" t)
  | "insert" :: spec =>
    match parseNode t.size spec with
    | some n =>
      let (t', id, ins) := insert t n
      (t', withDump s!"id {id} {if ins then 1 else 0}" t')
    | none => (t, "bad-op")
  | "exchange" :: id :: spec =>
    match parseDec id with
    | some id =>
      if 2 ≤ id ∧ id < t.size then
        match parseNode id spec with
        | some n =>
          let (t', old) := exchange t id n
          (t', withDump s!"old {showNode old}" t')
        | none => (t, "bad-op")
      else (t, "bad-op")
    | none => (t, "bad-op")
  | ["volume", n] =>
    match parseDec n with
    | some n => if n < t.size then let t' := t.insertVolume n; (t', withDump "ok" t') else (t, "bad-op")
    | none => (t, "bad-op")
  | ["simplify", n] =>
    match parseDec n with
    | some n =>
      if n < t.size then
        let (t', r) := simplifyAt t n
        (t', withDump (match r with | some old => s!"changed {showNode old}" | none => "same") t')
      else (t, "bad-op")
    | none => (t, "bad-op")
  | ["simplifyup", s] =>
    match parseDec s with
    | some s =>
      if s < t.size then
        let (t', r) := simplifyUp t s
        (t', withDump (if r = invalid then "first none" else s!"first {r}") t')
      else (t, "bad-op")
    | none => (t, "bad-op")
  | ["simplifyall", s] =>
    match parseDec s with
    | some s =>
      if 2 ≤ s ∧ s < t.size then
        match simplifyAll t s with
        | some t' => (t', withDump "ok" t')
        | none => (t, withDump "out-of-fuel" t)
      else (t, "bad-op")
    | none => (t, "bad-op")
  | ["replace", key, v] =>
    match parseDec key, (if v = "T" then some true else if v = "F" then some false else none) with
    | some key, some v =>
      if key < t.size then
        match replaceAndSimplify t key v with
        | .ok t' unk => (t', withDump ("unknown" ++ String.join (unk.map fun u => s!" {u}")) t')
        | .contradiction t' => (t', withDump "validate-error" t')
        | .outOfFuel t' => (t', withDump "out-of-fuel" t')
      else (t, "bad-op")
    | _, _ => (t, "bad-op")
  | ["rtflags", a, b, c, d] =>
    -- runtime flags of UnitInserter: input flags, all-faces-simple, exceeds-limits, has-daughter
    match parseDec a, parseDec b, parseDec c, parseDec d with
    | some inF, some ss, some ex, some dau =>
      if inF < 16 ∧ ss ≤ 1 ∧ ex ≤ 1 ∧ dau ≤ 1 then
        let f := runtimeFlags inF (ss = 1) (ex = 1) (dau = 1)
        (t, s!"out {f} internal {if runtimeInternalSurfaces f then 1 else 0}")
      else (t, "bad-op")
    | _, _, _, _ => (t, "bad-op")
  | ["protoflags", a, b] =>
    match parseDec a, parseDec b with
    | some fl, some ext =>
      if fl ≤ 1 ∧ ext ≤ 1 then (t, s!"flags {protoVolumeFlags (fl = 1) (ext = 1)}")
      else (t, "bad-op")
    | _, _ => (t, "bad-op")
  | ["demorganx"] =>
    -- `transform_negated_joins` without the documented precondition; `error assert` = a
    -- compiled-out assertion failed and a null id reached `insert` (the real code crashes)
    match transformNegatedJoins t with
    | .ok t' => (t', withDump "ok" t')
    | .error e => (t, withDump s!"error {if e = "assert" then "crash" else e}" t)
  | ["demorgan"] =>
    if !demorganPrecondition t then (t, "precondition")
    else
      match transformNegatedJoins t with
      | .ok t' => (t', withDump "ok" t')
      | .error e => (t, withDump s!"error {e}" t)
  | [op, n] =>
    match parseDec n with
    | none => (t, "bad-op")
    | some n =>
      if n < t.size then
        if op = "postfix" ∨ op = "postfixm" then
          match postfixOf t (if op = "postfixm" then some (calcSurfaces t) else none) n with
          | some (faces, lgc) =>
            (t, "faces" ++ String.join (faces.map fun f => s!" {f}") ++ " logic"
              ++ String.join (lgc.map fun v => " " ++ showTok v) ++ s!" depth {calcMaxDepth lgc}")
          | none => (t, "undefined")
        else if op = "flag" then
          (t, match flag t n with
              | some true => "internal" | some false => "simple" | none => "undefined")
        else if op = "infix" then
          (t, match infixString t n with | some s => "str " ++ s | none => "undefined")
        else if op = "infixof" then
          (t, match infixOf t (t.size + 1) n with
              | some lgc => "infix" ++ String.join (lgc.map fun v => " " ++ showTok v)
              | none => "undefined")
        else (t, "bad-op")
      else (t, "bad-op")
  | [op, n, x] =>
    match parseDec n with
    | none => (t, "bad-op")
    | some n =>
      if n < t.size then
        if op = "eval" ∨ op = "evalpost" then
          match parseHex x with
          | some bits =>
            if bits < 2 ^ 64 then
              if op = "eval" then (t, tf (evalTree t (sigmaOf bits) n))
              else (t, match evalPostfix t n (sigmaOf bits) with
                       | some b => tf b | none => "undefined")
            else (t, "bad-op")
          | none => (t, "bad-op")
        else if op = "ttinfix" then
          match parseDec x with
          | some k =>
            if k ≤ 12 then
              match infixOf t (t.size + 1) n with
              | some lgc =>
                if infixWellFormed lgc maxSurface then
                  (t, "tt " ++ truthTable k (fun σ => infixEval lgc σ))
                else (t, "undefined")
              | none => (t, "undefined")
            else (t, "bad-op")
          | none => (t, "bad-op")
        else if op = "tt" ∨ op = "ttpost" then
          match parseDec x with
          | some k =>
            if k ≤ 12 then
              if op = "tt" then (t, "tt " ++ truthTable k (fun σ => evalTree t σ n))
              else
                match postfixOf t none n with
                | some (faces, lgc) =>
                  (t, "tt " ++ truthTable k (fun σ => evalBits lgc (fun f => σ (faces.getD f 0))))
                | none => (t, "undefined")
            else (t, "bad-op")
          | none => (t, "bad-op")
        else (t, "bad-op")
      else (t, "bad-op")
  | "infixlogic" :: rest =>
    let (toks, tail) := splitAtSemi rest
    match parseInfixToks toks, tail with
    | some lgc, [x] =>
      match parseHex x with
      | some bits =>
        if infixWellFormed lgc maxSurface ∧ bits < 2 ^ 64 then
          (t, s!"val {tf (infixEval lgc (sigmaOf bits))}")
        else (t, "bad-op")
      | none => (t, "bad-op")
    | _, _ => (t, "bad-op")
  | "logic" :: rest =>
    let (toks, tail) := splitAtSemi rest
    match parseToks toks, tail with
    | some lgc, [x] =>
      match parseHex x with
      | some bits =>
        if lgc ≠ [] ∧ bits < 2 ^ 64 then
          (t, s!"depth {calcMaxDepth lgc} val {tf (evalBits lgc (sigmaOf bits))}")
        else (t, "bad-op")
      | none => (t, "bad-op")
    | _, _ => (t, "bad-op")
  | _ => (t, "bad-op")

end CelerVerif.Csg
