/-
Line protocol of the step model at `Float` (driven by tools/checks/c05.py from the step log of
harness/stepping.cc; doubles are 16-hex-digit bit patterns, +∞ is `7ff0000000000000`).
  sc <min_range> <max_step_over_range> <fixed_step_limiter> <sqrt_tol>          → ok
  limit <stopped> <hasEloss> <noProc> <mfp> <xs> <range>                        → <step> <act>
  prop <step> <act> <distance> <boundary 0|1>                                   → <step> <act>
  time <status> <t> <step> <E> <mass>                                           → <t'>
  tupd <status> <act> <mfp> <step> <xs> <nsteps>                                → <mfp'> <n'>
  move <x y z> <u v w> <dist>                                                   → <x' y' z'>
  status <s0> <errAlong> <killedEloss> <act> <bFailed> <bOutside> <bNoMat> <absorbed> → s0..s4
  mscs <plus> <onb> <phys> <range> <mfp> <safety> <ri0> <rf0> <lm0> <limMinNew> <rfac> <lambda>
       <sfac> <fix> <z>                     → <true path> <ri1> <rf1> <lm1>     (safety / safety_plus)
  mscm <onb> <phys> <range> <mfp> <ri0> <rf0> <lm0> <rfac> <fix> <z>  → same      (minimal)
acts: n d r f b p t x j s m<k>; statuses: - i a e k
-/
import CelerVerif.Model.Step
import CelerVerif.Model.StepMsc
import CelerVerif.Num.F64
import CelerVerif.Model.Util

namespace CelerVerif.Step
open CelerVerif.Util
open CelerVerif.Ledger (Status)

def infBits : String := "7ff0000000000000"
def pf (s : String) : Option Float := (parseHex s).map fun n => Float.ofBits (UInt64.ofNat n)
def pfo (s : String) : Option (Option Float) :=
  if s == infBits then some none else (pf s).map some
def hx (x : Float) : String := Float.toHexBits x
def hxo : Option Float → String
  | some x => hx x
  | none => infBits
def pb (s : String) : Option Bool := if s == "1" then some true else if s == "0" then some false else none

def parseAct (s : String) : Option Act :=
  match s.toList with
  | ['n'] => some .none | ['d'] => some .discrete | ['r'] => some .range | ['f'] => some .fixed
  | ['b'] => some .boundary | ['p'] => some .propLimit | ['t'] => some .trackingCut
  | ['x'] => some .failure | ['j'] => some .rejection | ['s'] => some .msc
  | 'm' :: rest => (String.ofList rest).toNat?.map .model
  | _ => none

def showAct : Act → String
  | .none => "n" | .discrete => "d" | .range => "r" | .fixed => "f" | .boundary => "b"
  | .propLimit => "p" | .trackingCut => "t" | .failure => "x" | .rejection => "j" | .msc => "s"
  | .model k => s!"m{k}"

def parseStatus (s : String) : Option Status :=
  match s with
  | "-" => some .inactive | "i" => some .initializing | "a" => some .alive
  | "e" => some .errored | "k" => some .killed | _ => none
def showStatus : Status → String
  | .inactive => "-" | .initializing => "i" | .alive => "a" | .errored => "e" | .killed => "k"

def showLimit (l : StepLimit Float) : String := s!"{hxo l.step} {showAct l.action}"

def driverStep (sc : Scalars Float) (line : String) : Scalars Float × String :=
  match words line with
  | ["sc", a, b, c, d] =>
    (match pf a, pf b, pf c, pf d with
     | some a', some b', some c', some d' => (⟨a', b', c', d'⟩, "ok")
     | _, _, _, _ => (sc, "bad-op"))
  | ["limit", st, el, np, mfp, xs, rg] =>
    (sc, match pb st, pb el, pb np, pf mfp, pf xs, pf rg with
     | some st', some el', some np', some mfp', some xs', some rg' =>
       showLimit (calcPhysicsStepLimit sc st' el' np' mfp' xs' rg')
     | _, _, _, _, _, _ => "bad-op")
  | ["prop", s, a, d, b] =>
    (sc, match pfo s, parseAct a, pf d, pb b with
     | some s', some a', some d', some b' =>
       showLimit (propagationApplier ⟨s', a'⟩ false false ⟨d', b', false⟩)
     | _, _, _, _ => "bad-op")
  | ["time", st, t, s, e, m] =>
    (sc, match parseStatus st, pf t, pf s, pf e, pf m with
     | some st', some t', some s', some e', some m' => hx (timeUpdater st' t' s' e' m')
     | _, _, _, _, _ => "bad-op")
  | ["tupd", st, a, mfp, s, xs, n] =>
    (sc, match parseStatus st, parseAct a, pf mfp, pf s, pf xs, n.toNat? with
     | some st', some a', some mfp', some s', some xs', some n' =>
       let r := trackUpdater st' a' mfp' s' xs' n'
       s!"{hx r.1} {r.2}"
     | _, _, _, _, _, _ => "bad-op")
  | ["move", x, y, z, u, v, w, d] =>
    (sc, match pf x, pf y, pf z, pf u, pf v, pf w, pf d with
     | some x', some y', some z', some u', some v', some w', some d' =>
       let r := move ⟨x', y', z'⟩ ⟨u', v', w'⟩ d'
       s!"{hx r.x} {hx r.y} {hx r.z}"
     | _, _, _, _, _, _, _ => "bad-op")
  | ["status", s0, ea, ke, a, bf, bo, bn, ab] =>
    (sc, match parseStatus s0, pb ea, pb ke, parseAct a, pb bf, pb bo, pb bn, pb ab with
     | some s0', some ea', some ke', some a', some bf', some bo', some bn', some ab' =>
       String.intercalate " " ((stepStatuses s0' ea' ke' a' bf' bo' bn' ab').map showStatus)
     | _, _, _, _, _, _, _, _ => "bad-op")
  | ["mscs", plus, onb, phys, range, mfp, safety, ri0, rf0, lm0, lmn, rfac, lam, sfac, fix, z] =>
    (sc, match pb plus, pb onb, pf phys, pf range, pf mfp, pf safety, pfo ri0, pf rf0, pf lm0 with
     | some plus', some onb', some phys', some range', some mfp', some safety', some ri0',
         some rf0', some lm0' =>
       (match pf lmn, pf rfac, pf lam, pf sfac, pf fix, pf z with
        | some lmn', some rfac', some lam', some sfac', some fix', some z' =>
          let r := mscSafetyStepLimit ⟨rfac', lam', sfac', fix'⟩ plus' onb' phys' range' mfp' safety'
            ⟨ri0', rf0', lm0'⟩ lmn' z'
          s!"{hx r.1} {hxo r.2.rangeInit} {hx r.2.rangeFactor} {hx r.2.limitMin}"
        | _, _, _, _, _, _ => "bad-op")
     | _, _, _, _, _, _, _, _, _ => "bad-op")
  | ["mscm", onb, phys, range, mfp, ri0, rf0, lm0, rfac, fix, z] =>
    (sc, match pb onb, pf phys, pf range, pf mfp, pfo ri0, pf rf0, pf lm0, pf rfac, pf fix, pf z with
     | some onb', some phys', some range', some mfp', some ri0', some rf0', some lm0',
         some rfac', some fix', some z' =>
       let r := mscMinimalStepLimit ⟨rfac', rfac', rfac', fix'⟩ onb' phys' range' mfp'
         ⟨ri0', rf0', lm0'⟩ z'
       s!"{hx r.1} {hxo r.2.rangeInit} {hx r.2.rangeFactor} {hx r.2.limitMin}"
     | _, _, _, _, _, _, _, _, _, _ => "bad-op")
  | _ => (sc, "bad-op")

end CelerVerif.Step
