/-
Executable model of ORANGE bounding boxes / bounding zones:
  src/geocel/BoundingBox.hh, src/orange/BoundingBoxUtils.hh (encloses, calc_union,
  calc_intersection, calc_volume), src/orange/orangeinp/detail/BoundingZone.{hh,cc}
  (calc_difference / calc_union with BoxOp, zone calc_intersection / calc_union / negate /
  get_exterior_bbox).
Coordinates are generic (`BCoord κ`: comparison, min, max, ±∞ and the volume comparison used
to pick the larger box), so the same definitions run on `Float` and are proved for every
bounded linear order.  No Mathlib import.
-/
namespace CelerVerif.BZone

class BCoord (κ : Type) where
  le : κ → κ → Bool
  lt : κ → κ → Bool
  top : κ
  bot : κ
  /-- `calc_volume(a) > calc_volume(b)` on (lower, upper) triples -/
  volGt : (κ × κ × κ) × (κ × κ × κ) → (κ × κ × κ) × (κ × κ × κ) → Bool

variable {κ : Type} [BCoord κ]

/-- `celeritas::min(a, b)` = (b < a) ? b : a -/
def cmin (a b : κ) : κ := if BCoord.lt b a then b else a
/-- `celeritas::max(a, b)` = (a < b) ? b : a -/
def cmax (a b : κ) : κ := if BCoord.lt a b then b else a

structure P3 (κ : Type) where
  x : κ
  y : κ
  z : κ
deriving Repr, Inhabited, DecidableEq

/-- `BoundingBox<>`: lower and upper points -/
structure Box (κ : Type) where
  lo : P3 κ
  hi : P3 κ
deriving Repr, Inhabited, DecidableEq

/-- default-constructed (null) box: lower = +∞, upper = −∞ -/
def Box.null : Box κ := ⟨⟨BCoord.top, BCoord.top, BCoord.top⟩, ⟨BCoord.bot, BCoord.bot, BCoord.bot⟩⟩
/-- `BBox::from_infinite()` -/
def Box.infinite : Box κ := ⟨⟨BCoord.bot, BCoord.bot, BCoord.bot⟩, ⟨BCoord.top, BCoord.top, BCoord.top⟩⟩

/-- `operator bool` -/
def Box.nonNull (b : Box κ) : Bool :=
  BCoord.le b.lo.x b.hi.x && BCoord.le b.lo.y b.hi.y && BCoord.le b.lo.z b.hi.z

/-- `is_inside(bbox, point)` -/
def Box.contains (b : Box κ) (p : P3 κ) : Bool :=
  BCoord.le b.lo.x p.x && BCoord.le p.x b.hi.x && BCoord.le b.lo.y p.y && BCoord.le p.y b.hi.y
    && BCoord.le b.lo.z p.z && BCoord.le p.z b.hi.z

/-- `encloses(big, small)` -/
def encloses (big small : Box κ) : Bool :=
  (BCoord.le big.lo.x small.lo.x && BCoord.le small.hi.x big.hi.x)
    && (BCoord.le big.lo.y small.lo.y && BCoord.le small.hi.y big.hi.y)
    && (BCoord.le big.lo.z small.lo.z && BCoord.le small.hi.z big.hi.z)

/-- bbox `calc_union(a, b)` -/
def boxUnion (a b : Box κ) : Box κ :=
  ⟨⟨cmin a.lo.x b.lo.x, cmin a.lo.y b.lo.y, cmin a.lo.z b.lo.z⟩,
   ⟨cmax a.hi.x b.hi.x, cmax a.hi.y b.hi.y, cmax a.hi.z b.hi.z⟩⟩

/-- bbox `calc_intersection(a, b)` -/
def boxInter (a b : Box κ) : Box κ :=
  ⟨⟨cmax a.lo.x b.lo.x, cmax a.lo.y b.lo.y, cmax a.lo.z b.lo.z⟩,
   ⟨cmin a.hi.x b.hi.x, cmin a.hi.y b.hi.y, cmin a.hi.z b.hi.z⟩⟩

inductive BoxOp | shrink | grow
deriving DecidableEq, Repr

def Box.pts (b : Box κ) : (κ × κ × κ) × (κ × κ × κ) :=
  ((b.lo.x, b.lo.y, b.lo.z), (b.hi.x, b.hi.y, b.hi.z))

/-- `calc_difference(a, b, op)` in BoundingZone.cc -/
def calcDifference (a b : Box κ) (op : BoxOp) : Box κ :=
  if !b.nonNull then a
  else if encloses a b then (match op with | .shrink => Box.null | .grow => a)
  else if encloses b a then Box.null
  else (match op with | .shrink => Box.null | .grow => Box.infinite)

/-- `calc_union(a, b, op)` in BoundingZone.cc -/
def calcUnionOp (a b : Box κ) (op : BoxOp) : Box κ :=
  match op with
  | .grow => boxUnion a b
  | .shrink =>
    if !a.nonNull then b
    else if !b.nonNull then a
    else if BCoord.volGt a.pts b.pts then a else b

/-- `BoundingZone` -/
structure Zone (κ : Type) where
  interior : Box κ
  exterior : Box κ
  negated : Bool
deriving Repr, Inhabited, DecidableEq

def Zone.negate (z : Zone κ) : Zone κ := { z with negated := !z.negated }

/-- zone `calc_intersection(a, b)` -/
def zoneInter (a b : Zone κ) : Zone κ :=
  if !a.negated && !b.negated then
    ⟨boxInter a.interior b.interior, boxInter a.exterior b.exterior, false⟩
  else if !a.negated && b.negated then
    ⟨calcDifference a.interior b.exterior .shrink, calcDifference a.exterior b.interior .grow, false⟩
  else if !b.negated && a.negated then
    ⟨calcDifference b.interior a.exterior .shrink, calcDifference b.exterior a.interior .grow, false⟩
  else
    ⟨calcUnionOp a.interior b.interior .shrink, calcUnionOp a.exterior b.exterior .grow, true⟩

/-- zone `calc_union(a, b)` — the two mixed-negation branches AS WRITTEN in the code -/
def zoneUnion (a b : Zone κ) : Zone κ :=
  if !a.negated && !b.negated then
    ⟨calcUnionOp a.interior b.interior .shrink, calcUnionOp a.exterior b.exterior .grow, false⟩
  else if !a.negated && b.negated then
    ⟨calcDifference a.interior b.exterior .shrink, calcDifference a.exterior b.interior .grow, true⟩
  else if !b.negated && a.negated then
    ⟨calcDifference b.interior a.exterior .shrink, calcDifference b.exterior a.interior .grow, true⟩
  else
    ⟨boxInter a.interior b.interior, boxInter a.exterior b.exterior, true⟩

/-- `get_exterior_bbox(bz)` -/
def exteriorBBox (z : Zone κ) : Box κ := if z.negated then Box.infinite else z.exterior

end CelerVerif.BZone
