/-
Executable model of the CSG tree of `orange/orangeinp` (C10): `CsgTypes.hh`, `CsgTree.{hh,cc}`,
`detail/NodeSimplifier.cc`, `CsgTreeUtils.cc` (`simplify_up`, `simplify`,
`replace_and_simplify`), `detail/NodeReplacer.hh`, and the boolean meaning of a node
(`detail/SenseEvaluator.cc` without the "on surface" state).

The model follows the code AS WRITTEN in the release build (`CELER_EXPECT/ASSERT` compiled out):
node ids are `Nat`, the null id `NodeId{}` is the sentinel `invalid = 2^32-1`
(`static_cast<size_type>(-1)`), `std::sort`+`std::unique` on node ids are modelled by their
specification (`sortU`), `std::unordered_map<Node,NodeId>` by an association list that is only
ever searched by key (the code never iterates over it).  No Mathlib import.
-/
import CelerVerif.Generated.CsgConsts

namespace CelerVerif.Csg

/-- `op_and` / `op_or` (`logic::land` / `logic::lor`) -/
inductive Op
  | and | or
  deriving DecidableEq, Repr, Inhabited

/-- `std::variant<True, False, Aliased, Negated, Surface, Joined>` -/
inductive Node
  | tru
  | fls
  | aliased (n : Nat)
  | negated (n : Nat)
  | surface (s : Nat)
  | joined (op : Op) (ns : List Nat)
  deriving DecidableEq, Repr, Inhabited

/-- `NodeId{}`: `OpaqueId::invalid_value() = static_cast<size_type>(-1)` -/
def invalid : Nat := 0xFFFFFFFF

/-- `CsgTree`: node vector, dedup map (searched by key only), volumes -/
structure Tree where
  nodes : List Node
  ids : List (Node × Nat)
  volumes : List Nat
  deriving Repr, Inhabited

namespace Tree

/-- `CsgTree::CsgTree()` -/
def empty : Tree :=
  { nodes := [.tru, .negated 0]
    ids := [(.tru, 0), (.fls, 1), (.negated 0, 1), (.negated 1, 0)]
    volumes := [] }

def size (t : Tree) : Nat := t.nodes.length

/-- `tree[n]`; out of range is UB in the release build (`True` here; every theorem carries the
    in-range hypotheses) -/
def get (t : Tree) (n : Nat) : Node := t.nodes.getD n .tru

/-- `ids_.find(key)` -/
def lookup (t : Tree) (k : Node) : Option Nat :=
  match t.ids.find? (fun e => e.1 = k) with
  | some e => some e.2
  | none => none

def setNode (t : Tree) (i : Nat) (n : Node) : Tree := { t with nodes := t.nodes.set i n }

/-- `iter->second = v` for the entry with key `k` -/
def setId (t : Tree) (k : Node) (v : Nat) : Tree :=
  { t with ids := t.ids.map (fun e => if e.1 = k then (e.1, v) else e) }

def addId (t : Tree) (k : Node) (v : Nat) : Tree := { t with ids := (k, v) :: t.ids }

/-- `insert_volume` -/
def insertVolume (t : Tree) (n : Nat) : Tree := { t with volumes := t.volumes ++ [n] }

end Tree

/-! ### meaning of a node -/

/-- children ids of a node -/
def Node.children : Node → List Nat
  | .aliased n => [n]
  | .negated n => [n]
  | .joined _ ns => ns
  | _ => []

/-- one level of evaluation, given the values of the other nodes -/
def evalNode (σ : Nat → Bool) (val : Nat → Bool) : Node → Bool
  | .tru => true
  | .fls => false
  | .aliased n => val n
  | .negated n => !val n
  | .surface s => σ s
  | .joined .and ns => ns.all val
  | .joined .or ns => ns.any val

/-- evaluation with a recursion budget -/
def denoteFuel (nodes : List Node) (σ : Nat → Bool) : Nat → Nat → Bool
  | 0, _ => false
  | f + 1, n => evalNode σ (fun c => denoteFuel nodes σ f c) (nodes.getD n .tru)

/-- boolean meaning of node `n` under the sense assignment `σ` (`σ s` = "outside surface s",
    i.e. `SenseEvaluator` = inside).  Fuel `n+1` suffices for topologically sorted trees. -/
def denote (t : Tree) (σ : Nat → Bool) (n : Nat) : Bool := denoteFuel t.nodes σ (n + 1) n

/-! ### `std::sort` + `std::unique` by specification -/

def insertU (x : Nat) : List Nat → List Nat
  | [] => [x]
  | y :: ys => if x < y then x :: y :: ys else if x = y then y :: ys else y :: insertU x ys

/-- strictly increasing list of the distinct elements of `l` -/
def sortU (l : List Nat) : List Nat := l.foldr insertU []

/-- `if (!j.nodes.empty() && !j.nodes.back()) j.nodes.pop_back();` -/
def popInvalid (l : List Nat) : List Nat :=
  if l.getLast? = some invalid then l.dropLast else l

/-! ### NodeSimplifier -/

/-- `NodeSimplifier::no_simplification()` -/
def noSimp : Node := .aliased invalid

/-- `visit_node_(AliasSimplifier{}, d)`: target of an alias, else the null id -/
def aliasTarget (t : Tree) (d : Nat) : Nat :=
  match t.get d with
  | .aliased a => a
  | _ => invalid

/-- `if (auto repl = visit_node_(AliasSimplifier{}, d)) d = repl;` -/
def replAlias (t : Tree) (d : Nat) : Nat :=
  let r := aliasTarget t d
  if r ≠ invalid then r else d

/-- `constant_node`: short-circuits the join -/
def constantId : Op → Nat
  | .and => 1
  | .or => 0

/-- `ignore_node`: neutral element of the join -/
def ignoreId : Op → Nat
  | .and => 0
  | .or => 1

/-- operands after alias replacement, with the neutral element replaced by the null id, sorted,
    uniquified, and the (single, last) null id popped -/
def cleanOperands (t : Tree) (op : Op) (ns : List Nat) : List Nat :=
  popInvalid (sortU ((ns.map (replAlias t)).map fun d => if d = ignoreId op then invalid else d))

/-- `NodeSimplifier::operator()(Joined&)` -/
def simplifyJoined (t : Tree) (op : Op) (ns : List Nat) : Node :=
  if (ns.map (replAlias t)).contains (constantId op) then .aliased (constantId op)
  else
    match cleanOperands t op ns with
    | [] => .aliased (ignoreId op)
    | [x] => .aliased x
    | ds => .joined op ds

/-- `visit_node_(NegationSimplifier{}, n.node)` -/
def simplifyNegated (t : Tree) (n : Nat) : Node :=
  match t.get n with
  | .tru => .fls
  | .fls => .tru
  | .aliased a => .negated a
  | .negated m => .aliased m
  | _ => noSimp

/-- `std::visit(detail::NodeSimplifier{tree}, n)` -/
def simplifyNode (t : Tree) : Node → Node
  | .aliased a => .aliased (aliasTarget t a)
  | .negated n => simplifyNegated t n
  | .joined op ns => simplifyJoined t op ns
  | _ => noSimp

/-- the node after `if (repl != no_simplification) n = std::move(repl);` -/
def simplified (t : Tree) (n : Node) : Node :=
  let repl := simplifyNode t n
  if repl ≠ noSimp then repl else n

/-! ### CsgTree::insert / exchange / simplify -/

/-- `CsgTree::insert(Node&&)`: new tree, id, inserted -/
def insert (t : Tree) (n : Node) : Tree × Nat × Bool :=
  let repl := simplifyNode t n
  let aliasOut : Option Nat :=
    if repl ≠ noSimp then (match repl with | .aliased a => some a | _ => none) else none
  match aliasOut with
  | some a => (t, a, false)
  | none =>
    let n' := if repl ≠ noSimp then repl else n
    match t.lookup n' with
    | some id => (t, id, false)
    | none =>
      let id := t.size
      ({ t with nodes := t.nodes ++ [n'], ids := (n', id) :: t.ids }, id, true)

/-- `CsgTree::exchange(node_id, Node&&)`: new tree and the returned (previous) node -/
def exchange (t : Tree) (nodeId : Nat) (n : Node) : Tree × Node :=
  let n' := simplified t n
  match n' with
  | .aliased a => (t.setNode nodeId (.aliased a), t.get nodeId)
  | _ =>
    match t.lookup n' with
    | none =>
      -- representation does not exist elsewhere
      ((t.addId n' nodeId).setNode nodeId n', t.get nodeId)
    | some other =>
      if other = nodeId then (t, t.get nodeId)
      else if other > nodeId then
        -- a higher node is equivalent: swap definitions, the higher aliases the lower
        let hi := t.get other
        let lo := t.get nodeId
        let t1 := (t.setNode other lo).setNode nodeId hi
        let t2 := t1.setId n' nodeId
        (t2.setNode other (.aliased nodeId), lo)
      else
        (t.setNode nodeId (.aliased other), t.get nodeId)

/-- `CsgTree::simplify(NodeId)`: new tree and `some old` iff the node changed -/
def simplifyAt (t : Tree) (nodeId : Nat) : Tree × Option Node :=
  let (t', repl) := exchange t nodeId (t.get nodeId)
  if repl = t'.get nodeId then (t', none) else (t', some repl)

/-! ### CsgTreeUtils: simplify_up / simplify -/

/-- body of `simplify_up`: nodes `start, start+1, …` (`cnt` of them); `result` = lowest
    simplified id so far (`invalid` = none) -/
def simplifyUpLoop (t : Tree) : Nat → Nat → Nat → Tree × Nat
  | 0, _, result => (t, result)
  | cnt + 1, node, result =>
    let (t', s) := simplifyAt t node
    let result' := if s.isSome ∧ result = invalid then node else result
    simplifyUpLoop t' cnt (node + 1) result'

/-- `simplify_up(tree, start)` -/
def simplifyUp (t : Tree) (start : Nat) : Tree × Nat :=
  simplifyUpLoop t (t.size - start) start invalid

/-- `simplify(tree, start)`: `while (start) start = simplify_up(tree, start)`.
    `none` = the sweep budget ran out (the C++ loop would still be running). -/
def simplifyAllFuel : Nat → Tree → Nat → Option Tree
  | 0, _, _ => none
  | f + 1, t, start =>
    if start = invalid then some t
    else
      let (t', next) := simplifyUp t start
      simplifyAllFuel f t' next

def sweepBudget (t : Tree) : Nat := 4 * t.size + 16

def simplifyAll (t : Tree) (start : Nat) : Option Tree :=
  simplifyAllFuel (sweepBudget t) t start

/-! ### NodeReplacer and replace_and_simplify -/

open CelerVerif.Generated.Csg in
/-- `NodeReplacer::update`: `none` = `CELER_VALIDATE` contradiction; else new state, updated -/
def replUpdate (st : List Nat) (n : Nat) (repl : Nat) : Option (List Nat × Bool) :=
  let dest := st.getD n replUnvisited
  if (dest = replKnownTrue ∧ repl = replKnownFalse) ∨ (dest = replKnownFalse ∧ repl = replKnownTrue)
  then none
  else if dest < repl then some (st.set n repl, true)
  else some (st, false)

def replUpdateList (st : List Nat) (repl : Nat) : List Nat → Bool → Option (List Nat × Bool)
  | [], upd => some (st, upd)
  | d :: ds, upd =>
    match replUpdate st d repl with
    | none => none
    | some (st', u) => replUpdateList st' repl ds (upd || u)

open CelerVerif.Generated.Csg in
/-- `std::visit(NodeReplacer{&state, n}, tree[n])` -/
def replVisit (st : List Nat) (n : Nat) (node : Node) : Option (List Nat × Bool) :=
  let repl := st.getD n replUnvisited
  match node with
  | .tru => some (st, false)
  | .fls => some (st, false)
  | .surface _ => some (st, false)
  | .aliased a => replUpdate st a repl
  | .negated a =>
    let r := if repl = replKnownFalse then replKnownTrue
             else if repl = replKnownTrue then replKnownFalse else repl
    replUpdate st a r
  | .joined op ns =>
    let r := if (repl = replKnownTrue ∧ op = .or) ∨ (repl = replKnownFalse ∧ op = .and)
             then replUnknown else repl
    replUpdateList st r ns false

/-- backward sweep `for (n = max_node; n > false_node_id(); --n)`; `cnt = max_node - 1` nodes -/
def replBackward (t : Tree) : Nat → List Nat → Bool → Option (List Nat × Bool)
  | 0, st, upd => some (st, upd)
  | cnt + 1, st, upd =>
    let n := cnt + 2
    match replVisit st n (t.get n) with
    | none => none
    | some (st', u) => replBackward t cnt st' (upd || u)

/-- `std::holds_alternative<Surface>` -/
def isSurface : Node → Bool
  | .surface _ => true
  | _ => false

open CelerVerif.Generated.Csg in
/-- forward loop "replace literals and simplify" over nodes `node, node+1, …` -/
def replForward (st : List Nat) : Nat → Nat → Tree → Nat → Bool → Tree × Nat × Bool
  | 0, _, t, maxNode, simp => (t, maxNode, simp)
  | cnt + 1, n, t, maxNode, simp =>
    if (st.getD n replUnvisited = replKnownTrue ∨ st.getD n replUnvisited = replKnownFalse)
        ∧ isSurface (t.get n) = true then
      replForward st cnt (n + 1)
        (exchange t n (if st.getD n replUnvisited = replKnownTrue then .tru else .fls)).1
        (max maxNode n) simp
    else if (simplifyAt t n).2.isSome = true then
      replForward st cnt (n + 1) (simplifyAt t n).1 (max maxNode n) true
    else replForward st cnt (n + 1) (simplifyAt t n).1 maxNode simp

/-- result of the `do … while (simplifying)` loop -/
inductive ReplLoop
  | done (t : Tree) (st : List Nat)
  | contradiction (t : Tree)
  | outOfFuel (t : Tree)

def replLoop : Nat → Tree → List Nat → Nat → ReplLoop
  | 0, t, _, _ => .outOfFuel t
  | f + 1, t, st, maxNode =>
    match replBackward t (maxNode - 1) st false with
    | none => .contradiction t
    | some (st', upd) =>
      let (t', maxNode', simp) := replForward st' (t.size - 2) 2 t maxNode upd
      if simp then replLoop f t' st' maxNode' else .done t' st'

open CelerVerif.Generated.Csg in
/-- final loop "replace nonliterals"; collects the unknown surface nodes -/
def replFinal (st : List Nat) : Nat → Nat → Tree → List Nat → Tree × List Nat
  | 0, _, t, unk => (t, unk)
  | cnt + 1, n, t, unk =>
    if isSurface (t.get n) = true then
      replFinal st cnt (n + 1) t (if st.getD n replUnvisited = replUnknown then unk ++ [n] else unk)
    else if st.getD n replUnvisited = replKnownTrue then
      replFinal st cnt (n + 1) (exchange t n .tru).1 unk
    else if st.getD n replUnvisited = replKnownFalse then
      replFinal st cnt (n + 1) (exchange t n .fls).1 unk
    else replFinal st cnt (n + 1) (simplifyAt t n).1 unk

inductive ReplResult
  | ok (t : Tree) (unknown : List Nat)
  | contradiction (t : Tree)
  | outOfFuel (t : Tree)

open CelerVerif.Generated.Csg in
/-- initial `state` vector of `replace_and_simplify` -/
def replInit (t : Tree) (key : Nat) (value : Bool) : List Nat :=
  (((List.replicate t.size replUnvisited).set 0 replKnownTrue).set 1 replKnownFalse).set key
    (if value then replKnownTrue else replKnownFalse)

/-- `replace_and_simplify(tree, key, True{}/False{})` -/
def replaceAndSimplify (t : Tree) (key : Nat) (value : Bool) : ReplResult :=
  match replLoop (sweepBudget t) t (replInit t key value) key with
  | .contradiction t' => .contradiction t'
  | .outOfFuel t' => .outOfFuel t'
  | .done t' st =>
    let (t'', unk) := replFinal st (t'.size - 2) 2 t' []
    .ok t'' unk

/-- `calc_surfaces(tree)` -/
def calcSurfaces (t : Tree) : List Nat :=
  sortU (t.nodes.filterMap (fun n => match n with | .surface s => some s | _ => none))

end CelerVerif.Csg
