/-
Executable model (generic in `Num α`) of the energy-loss fluctuation models, AS WRITTEN:
  src/celeritas/em/params/FluctuationParams.cc        (Urban material parameters)
  src/celeritas/em/distribution/EnergyLossHelper.hh   (kinematics, Bohr variance, model selection)
  src/celeritas/em/distribution/EnergyLossUrbanDistribution.hh
      (constructor with all branches, sample_excitation_loss, sample_ionization_loss,
       sample_fast_urban, operator())
  src/celeritas/em/distribution/EnergyLossDeltaDistribution.hh, EnergyLossTraits.hh and the
  dispatch of global/alongstep/detail/FluctELoss.hh (`sample_energy_loss<model>`)
  phys/ParticleTrackView.hh (`beta_sq`, `lorentz_factor`).
Material / particle data are inputs (the harness checks that they are the real ones).
Random numbers: explicit script, as in Model/Dist.lean.
-/
import CelerVerif.Model.Dist

namespace CelerVerif.Dist
open CelerVerif
open scoped CelerVerif.Num

variable {α : Type} [Num α] [NumX α]

/-! ### FluctuationParams: `UrbanFluctuationParameters` of a material -/
structure UrbanParams (α : Type) where
  f1 : α        -- oscillator_strength[0]
  f2 : α        -- oscillator_strength[1]
  e1 : α        -- binding_energy[0]
  e2 : α        -- binding_energy[1]
  logE1 : α
  logE2 : α
deriving Repr, Inhabited

def urbanParams (elDens numDens meanExc : α) : UrbanParams α :=
  let avgZ := elDens / numDens
  let f2 := if Num.gt avgZ (2 : α) then (2 : α) / avgZ else (0 : α)
  let f1 := (1 : α) - f2
  let e2 := (1e-5 : α) * (avgZ * avgZ)
  let e1 := NumX.pow (meanExc / NumX.pow e2 f2) ((1 : α) / f1)
  ⟨f1, f2, e1, e2, Num.log e1, Num.log e2⟩

/-! ### EnergyLossHelper -/
/-- `EnergyLossFluctuationModel` -/
inductive FluctModel | none | gamma | gaussian | urban
deriving DecidableEq, Repr, Inhabited

def FluctModel.toNat : FluctModel → Nat
  | .none => 0 | .gamma => 1 | .gaussian => 2 | .urban => 3

structure HelperIn (α : Type) where
  elDens : α        -- material.electron_density()
  eMass : α         -- shared.electron_mass
  pMass : α         -- particle.mass()
  charge : α        -- particle.charge()
  isElectron : Bool -- particle.particle_id() == shared.electron_id
  rElectron : α     -- constants::r_electron
  energy : α        -- particle.energy()
  cutoff : α        -- cutoffs.energy(electron_id)
  meanLoss : α
  step : α
deriving Repr, Inhabited

structure Helper (α : Type) where
  model : FluctModel
  meanLoss : α
  betaSq : α
  maxEnergy : α
  twoMebsgs : α
  bohrVar : α
deriving Repr, Inhabited

/-- `ionization_energy()` = `min_energy()` = 1e-5 MeV -/
def ionizationEnergy : α := 1e-5

def Helper.mk' (i : HelperIn α) : Helper α :=
  if Num.lt i.meanLoss (ionizationEnergy : α) then
    ⟨.none, i.meanLoss, (0 : α), (0 : α), (0 : α), (0 : α)⟩
  else
    let half : α := 0.5
    let gamma := (1 : α) + i.energy / i.pMass                       -- lorentz_factor()
    let invGamma := i.pMass / (i.energy + i.pMass)
    let betaSq := (1 : α) - invGamma * invGamma                     -- beta_sq()
    let twoMebsgs := (2 : α) * i.eMass * betaSq * (gamma * gamma)
    let massRatio := if i.isElectron then (1 : α) else i.eMass / i.pMass
    let maxTransfer :=
      if i.isElectron then half * i.energy
      else twoMebsgs / ((1 : α) + massRatio * ((2 : α) * gamma + massRatio))
    let maxEnergy := Num.min i.cutoff maxTransfer
    if Num.le maxEnergy (ionizationEnergy : α) then
      ⟨.none, i.meanLoss, betaSq, maxEnergy, twoMebsgs, (0 : α)⟩
    else
      let bohrVar := (2 : α) * (pi : α) * (i.rElectron * i.rElectron) * i.eMass * i.elDens
                      * (i.charge * i.charge) * maxEnergy * i.step * ((1 : α) / betaSq - half)
      let model :=
        if Num.ge massRatio (1 : α) || Num.lt i.meanLoss ((10 : α) * maxEnergy)
            || Num.gt maxTransfer ((2 : α) * maxEnergy) then FluctModel.urban
        else if Num.ge (i.meanLoss * i.meanLoss) ((4 : α) * bohrVar) then FluctModel.gaussian
        else FluctModel.gamma
      ⟨model, i.meanLoss, betaSq, maxEnergy, twoMebsgs, bohrVar⟩

/-! ### EnergyLossUrbanDistribution -/
structure UrbanMat (α : Type) where
  meanExc : α       -- mat.mean_excitation_energy()
  logMeanExc : α    -- mat.log_mean_excitation_energy()
  p : UrbanParams α
deriving Repr, Inhabited

structure Urban (α : Type) where
  maxEnergy : α
  lossScaling : α
  be1 : α           -- binding_energy_[0]
  be2 : α           -- binding_energy_[1]
  xs1 : α           -- xs_exc_[0]
  xs2 : α           -- xs_exc_[1]
  xsIon : α
deriving Repr, Inhabited

/-- `rate()` -/
def urbanRate : α := 0.56
/-- `max_collisions()` (size_type 8, promoted to real) -/
def maxCollisions : α := 8
/-- `exc_thresh()` -/
def excThresh : α := 42
/-- `fwhm_min_energy()` -/
def fwhmMinEnergy : α := 1e-3

/-- excitation cross sections before the width correction (the three constructor branches) -/
def urbanExcXs (m : UrbanMat α) (meanLoss maxEnergy twoMebsgs betaSq : α) : Option (α × α) :=
  if Num.gt maxEnergy m.meanExc then
    let w := Num.log twoMebsgs - betaSq
    let w0 := m.logMeanExc
    if Num.gt w w0 then
      if Num.gt w m.p.logE2 then
        let c := meanLoss * ((1 : α) - (urbanRate : α)) / (w - w0)
        some (c * m.p.f1 * (w - m.p.logE1) / m.p.e1, c * m.p.f2 * (w - m.p.logE2) / m.p.e2)
      else
        some (meanLoss * ((1 : α) - (urbanRate : α)) / m.p.e1, (0 : α))
    else none
  else none

/-- the width-correction factor applied to level 1 -/
def urbanScaling (xs1 : α) : α :=
  if Num.lt xs1 (excThresh : α) then
    (0.5 : α) + ((4 : α) - (0.5 : α)) * Num.sqrt (xs1 / (excThresh : α))
  else (4 : α)

/-- the constructor -/
def Urban.mk' (m : UrbanMat α) (unscaledMeanLoss maxEnergy twoMebsgs betaSq : α) : Urban α :=
  let lossScaling := (0.5 : α) * Num.min ((fwhmMinEnergy : α) / maxEnergy) (1 : α) + (1 : α)
  let meanLoss := unscaledMeanLoss / lossScaling
  let (be1, xs1, xs2) :=
    match urbanExcXs m meanLoss maxEnergy twoMebsgs betaSq with
    | some (x1, x2) =>
      let scaling := urbanScaling x1
      (m.p.e1 * scaling, x1 / scaling, x2)
    | none => (m.p.e1, (0 : α), (0 : α))
  let e0 : α := ionizationEnergy
  let xsIon0 := meanLoss * (maxEnergy - e0) / (maxEnergy * e0 * Num.log (maxEnergy / e0))
  let xsIon := if Num.gt (xs1 + xs2) (0 : α) then xsIon0 * (urbanRate : α) else xsIon0
  ⟨maxEnergy, lossScaling, be1, m.p.e2, xs1, xs2, xsIon⟩

/-- `sample_fast_urban(mean, stddev, rng)` -/
def sampleFastUrban (mean stddev : α) (fuel : Nat) : Rng α α :=
  if Num.le stddev ((4 : α) * mean) then elossGauss mean stddev fuel
  else (UniformReal.mk' (0 : α) ((2 : α) * mean)).sample

/-- one level of the loop in `sample_excitation_loss`: state (result, mean, variance) -/
def excLevel (xs be : α) (st : α × α × α) (s : List α) : Option ((α × α × α) × List α) :=
  let (result, mean, variance) := st
  if Num.gt xs (maxCollisions : α) then
    some ((result, mean + xs * be, variance + xs * (be * be)), s)
  else if Num.gt xs (0 : α) then
    match (Poisson.mk' xs).sample s with
    | none => none
    | some (n, _, s') =>
      if n > 0 then
        -- UniformRealDistribution(n - 1, n + 1) on unsigned n
        match (UniformReal.mk' (Num.ofNat (n - 1) : α) (Num.ofNat (n + 1) : α)).sample s' with
        | none => none
        | some (x, s'') => some ((result + x * be, mean, variance), s'')
      else some ((result, mean, variance), s')
  else some ((result, mean, variance), s)

def sampleExcitationLoss (u : Urban α) (fuel : Nat) : Rng α α := fun s =>
  match excLevel u.xs1 u.be1 ((0 : α), (0 : α), (0 : α)) s with
  | none => none
  | some (st1, s1) =>
    match excLevel u.xs2 u.be2 st1 s1 with
    | none => none
    | some ((result, mean, variance), s2) =>
      if Num.gt variance (0 : α) then
        match sampleFastUrban mean (Num.sqrt variance) fuel s2 with
        | none => none
        | some (x, s3) => some (result + x, s3)
      else some (result, s2)

/-- `for (auto n = ...; n > 0; --n) result += alpha * e_0 / sample_fraction(rng);` -/
def ioniLoop (alphaE0 : α) (frac : UniformReal α) : Nat → α → Rng α α
  | 0, result, s => some (result, s)
  | n + 1, result, s =>
    match frac.sample s with
    | none => none
    | some (x, s') => ioniLoop alphaE0 frac n (result + alphaE0 / x) s'

/-- parameters of the fast (Gaussian) part of the ionisation loss: (alpha, mean_num_coll,
    mean, stddev) for `xs_ion_ > max_collisions()` -/
def ioniFast (xsIon energyRatio : α) : α × α × α × α :=
  let e0 : α := ionizationEnergy
  let alpha := (xsIon + (maxCollisions : α)) * energyRatio
                / ((maxCollisions : α) * energyRatio + xsIon)
  let meanLossColl := alpha * Num.log alpha / (alpha - (1 : α))
  let meanNumColl := xsIon * energyRatio * (alpha - (1 : α)) / ((energyRatio - (1 : α)) * alpha)
  let mean := meanNumColl * meanLossColl * e0
  let stddev := e0 * Num.sqrt (xsIon * (alpha - meanLossColl * meanLossColl))
  (alpha, meanNumColl, mean, stddev)

def sampleIonizationLoss (u : Urban α) (fuel : Nat) : Rng α α := fun s =>
  let e0 : α := ionizationEnergy
  let energyRatio := u.maxEnergy / e0
  let fast := Num.gt u.xsIon (maxCollisions : α)
  let (alpha, meanNumColl, mean, stddev) :=
    if fast then ioniFast u.xsIon energyRatio else ((1 : α), (0 : α), (0 : α), (0 : α))
  let r1 : Option (α × List α) :=
    if fast then sampleFastUrban mean stddev fuel s else some ((0 : α), s)
  match r1 with
  | none => none
  | some (result, s1) =>
    if Num.gt u.xsIon (0 : α) && Num.gt energyRatio alpha then
      match (Poisson.mk' (u.xsIon - meanNumColl)).sample s1 with
      | none => none
      | some (n, _, s2) =>
        ioniLoop (alpha * e0) (UniformReal.mk' (alpha / energyRatio) (1 : α)) n result s2
    else some (result, s1)

/-- `operator()`: excitation first, then ionisation (order fixed by the compiled code; checked
    by the correspondence run); `loss_scaling_ * result` -/
def Urban.sample (u : Urban α) (fuel : Nat) : Rng α α := fun s =>
  match sampleExcitationLoss u fuel s with
  | none => none
  | some (a, s1) =>
    match sampleIonizationLoss u fuel s1 with
    | none => none
    | some (b, s2) => some (u.lossScaling * (a + b), s2)

/-- the helper-selected sampler (`FluctELoss::sample_energy_loss<model>`) -/
def sampleEnergyLoss (h : Helper α) (m : UrbanMat α) (fuel : Nat) : Rng α α := fun s =>
  match h.model with
  | .none => some (h.meanLoss, s)                                   -- EnergyLossDeltaDistribution
  | .gamma =>
    ((elossGamma h.meanLoss h.bohrVar).sample fuel s).map fun (x, _, r) => (x, r)
  | .gaussian => elossGauss h.meanLoss (Num.sqrt h.bohrVar) fuel s
  | .urban => (Urban.mk' m h.meanLoss h.maxEnergy h.twoMebsgs h.betaSq).sample fuel s

end CelerVerif.Dist
