/-
C19 — executable model of the ORANGE geometry input JSON I/O, as written:
  src/orange/OrangeInputIO.json.cc            to_json/from_json of VolumeInput, UnitInput,
                                              RectArrayInput, Tolerance, OrangeInput
  src/orange/detail/OrangeInputIOImpl.json.cc import/export_transform, zipped surfaces,
                                              string_to_logic / logic_to_string
  src/geocel/BoundingBoxIO.json.cc            inf <-> max mapping, null boxes
  src/corecel/io/LabelIO.json.hh, Label.cc    to_string / from_separator('@') (rfind)
  src/corecel/cont/ArrayIO.json.hh            fixed-size arrays
Doubles are opaque 64-bit patterns (`F64 = UInt64`).  `encode` takes the function `num`
that produces the JSON value of a double: `Json.dbl` for the in-memory nlohmann object,
`numText` for what comes back after `dump()` + `parse()` (non-finite doubles are written
as `null` by nlohmann; finite ones survive exactly — trusted, checked by correspondence).
Failure modes are an enum (`Err`): nlohmann exception, CELER_VALIDATE, DebugError, and
`ub` where the release build (CELER_ASSERT compiled out) reads out of bounds / reaches
`__builtin_unreachable`.  No Mathlib.
-/
import CelerVerif.Model.Json
import CelerVerif.Generated.OrangeIOKeys

namespace CelerVerif.OrangeIO
open CelerVerif.Json


/-! ### data structures (mirror OrangeInput.hh) -/

structure V3 where
  x : F64
  y : F64
  z : F64
  deriving DecidableEq, Repr, Inhabited

structure Label where
  name : String
  ext : String
  deriving DecidableEq, Repr, Inhabited

structure BBox where
  lo : V3
  hi : V3
  deriving DecidableEq, Repr, Inhabited

/-- `BBox{}`: the canonical null box -/
def BBox.null : BBox := ⟨⟨posInf, posInf, posInf⟩, ⟨negInf, negInf, negInf⟩⟩
/-- `BBox::from_infinite()` -/
def BBox.infinite : BBox := ⟨⟨negInf, negInf, negInf⟩, ⟨posInf, posInf, posInf⟩⟩
/-- `explicit operator bool`: lower <= upper on every axis (false with any NaN) -/
def BBox.valid (b : BBox) : Bool :=
  f64le b.lo.x b.hi.x && f64le b.lo.y b.hi.y && f64le b.lo.z b.hi.z
/-- `bbox == BBox::from_infinite()` (double `==` against ±inf is bit equality) -/
def BBox.isInfinite (b : BBox) : Bool := decide (b = BBox.infinite)

/-- VariantTransform -/
inductive Transform where
  | none
  | translation (t : V3)
  | transformation (r0 r1 r2 t : V3)
  deriving DecidableEq, Repr, Inhabited

/-- a surface: index into `SurfaceType` + its `data()` -/
structure Surface where
  ty : Nat
  data : List F64
  deriving DecidableEq, Repr, Inhabited

structure OBZ where
  inner : BBox
  outer : BBox
  transformId : UInt64
  deriving DecidableEq, Repr, Inhabited

def OBZ.default : OBZ := ⟨BBox.null, BBox.null, 0xFFFFFFFFFFFFFFFF⟩

structure Volume where
  label : Label
  faces : List UInt64
  logic : List UInt64
  bbox : BBox
  obz : OBZ
  flags : UInt64
  zorder : UInt64
  deriving DecidableEq, Repr, Inhabited

structure Daughter where
  univ : UInt64
  transform : Transform
  deriving DecidableEq, Repr, Inhabited

/-- default-constructed DaughterInput (invalid universe id, NoTransformation) -/
def Daughter.default : Daughter := ⟨0xFFFFFFFFFFFFFFFF, .none⟩

structure UnitInput where
  label : Label
  surfaces : List Surface
  volumes : List Volume
  bbox : BBox
  /-- `std::map<LocalVolumeId, DaughterInput>`: strictly increasing keys -/
  daughters : List (UInt64 × Daughter)
  surfaceLabels : List Label
  deriving DecidableEq, Repr, Inhabited

structure RectArray where
  label : Label
  gx : List F64
  gy : List F64
  gz : List F64
  daughters : List Daughter
  deriving DecidableEq, Repr, Inhabited

inductive Universe where
  | unit (u : UnitInput)
  | rect (r : RectArray)
  deriving DecidableEq, Repr, Inhabited

structure Tol where
  rel : F64
  abs : F64
  deriving DecidableEq, Repr, Inhabited

structure OrangeInput where
  universes : List Universe
  tol : Tol
  deriving DecidableEq, Repr, Inhabited

/-! ### small helpers -/

def u64 (n : UInt64) : Json := .int (Int.ofNat n.toNat)

/-- JSON value of a double after `dump()` + `parse()`: nlohmann prints non-finite as `null` -/
def numText (b : F64) : Json := if isFinite b then .dbl b else .null

def bindR {α β : Type} (x : R α) (f : α → R β) : R β :=
  match x with
  | .error e => .error e
  | .ok a => f a

def validate (c : Bool) : R Unit := if c then .ok () else .error .validate

/-! ### Label: `to_string` / `Label::from_separator(s, '@')` -/

def labelToString (l : Label) : String :=
  if l.ext = "" then l.name else l.name ++ String.singleton Generated.OrangeIO.labelSep ++ l.ext

/-- split at the LAST occurrence of `sep` (std::string::rfind) -/
def splitLast (sep : Char) : List Char → Option (List Char × List Char)
  | [] => none
  | c :: cs => match splitLast sep cs with
    | some (a, b) => some (c :: a, b)
    | none => if c = sep then some ([], cs) else none

def labelFromString (s : String) : Label :=
  match splitLast Generated.OrangeIO.labelSep s.toList with
  | none => ⟨s, ""⟩
  | some (a, b) => ⟨String.ofList a, String.ofList b⟩

def encodeLabel (l : Label) : Json := .str (labelToString l)
def decodeLabel (j : Json) : R Label := bindR j.getStr fun s => .ok (labelFromString s)

/-! ### BoundingBox -/

def V3.map (f : F64 → F64) (v : V3) : V3 := ⟨f v.x, f v.y, f v.z⟩

/-- `from_json(json, Array<double,3>&)` -/
def getArray3 (j : Json) : R V3 :=
  if j.size ≠ 3 then .error .validate
  else match j with
    | .arr [a, b, c] =>
      bindR a.getReal fun x => bindR b.getReal fun y => bindR c.getReal fun z => .ok ⟨x, y, z⟩
    | _ => .error .json

section
variable (num : F64 → Json)

def encodeV3 (v : V3) : Json := .arr [num v.x, num v.y, num v.z]

def encodeBBox (b : BBox) : Json :=
  if !b.valid then .null
  else .arr [encodeV3 num (b.lo.map infToMax), encodeV3 num (b.hi.map infToMax)]

end

def decodeBBox (j : Json) : R BBox :=
  match j with
  | .null => .ok BBox.null
  | .arr [l, u] =>
    bindR (getArray3 l) fun lo => bindR (getArray3 u) fun hi =>
      .ok ⟨lo.map maxToInf, hi.map maxToInf⟩
  | _ => .error .validate

/-- `get_bbox(j)`: infinite if the key is absent -/
def getBBox (j : Json) : R BBox :=
  match j.find? "bbox" with
  | some v => decodeBBox v
  | none => .ok BBox.infinite

/-! ### logic strings -/

def lbeginW : UInt64 := UInt64.ofNat Generated.OrangeIO.lbegin

/-- decimal digits of a natural number, most significant first -/
def decDigits (n : Nat) : List Char :=
  if h : n < 10 then [Char.ofNat (48 + n)]
  else decDigits (n / 10) ++ [Char.ofNat (48 + n % 10)]
decreasing_by omega

/-- `logic_to_stream`: operator tokens as one char of "()*|&~" (the token `lend` indexes the
    literal's terminating NUL), everything else as a decimal face id -/
def tokenChars (v : UInt64) : List Char :=
  if lbeginW ≤ v then [(Generated.OrangeIO.tokenChars ++ ['\x00']).getD (v.toNat - Generated.OrangeIO.lbegin) '\x00']
  else decDigits v.toNat

def joinSp : List (List Char) → List Char
  | [] => []
  | [a] => a
  | a :: b :: rest => a ++ ' ' :: joinSp (b :: rest)

def logicToChars (l : List UInt64) : List Char := joinSp (l.map tokenChars)
def logicToString (l : List UInt64) : String := String.ofList (logicToChars l)

def isDigitC (c : Char) : Bool := decide ('0' ≤ c ∧ c ≤ '9')
def digitVal (c : Char) : UInt64 := UInt64.ofNat (c.toNat - 48)

def tokenOfChar (c : Char) : Option UInt64 :=
  (Generated.OrangeIO.parsedTokens.lookup c).map UInt64.ofNat

/-- `string_to_logic`, one char at a time; `surf`/`reading` are the loop's two locals.
    Face ids are accumulated in size_type (64-bit) unsigned arithmetic (wraps). -/
def parseLogic : List Char → UInt64 → Bool → R (List UInt64)
  | [], surf, reading => .ok (if reading then [surf] else [])
  | c :: cs, surf, reading =>
    if isDigitC c then
      parseLogic cs (10 * (if reading then surf else 0) + digitVal c) true
    else
      let pre := if reading then [surf] else []
      match tokenOfChar c with
      | some t => bindR (parseLogic cs surf false) fun rest => .ok (pre ++ t :: rest)
      | none =>
        if c = ' ' then bindR (parseLogic cs surf false) fun rest => .ok (pre ++ rest)
        else .error .validate

def stringToLogic (s : String) : R (List UInt64) := parseLogic s.toList 0 false

/-! ### ZOrder -/

def zorderToChar (z : UInt64) : Char :=
  (Generated.OrangeIO.zorderToChar.lookup z.toNat).getD Generated.OrangeIO.zorderDefaultChar
def zorderOfChar (c : Char) : UInt64 :=
  UInt64.ofNat ((Generated.OrangeIO.zorderOfChar.lookup c).getD Generated.OrangeIO.zorderOfCharDefault)

def zInvalid : UInt64 := UInt64.ofNat Generated.OrangeIO.zorder_invalid
def zBackground : UInt64 := UInt64.ofNat Generated.OrangeIO.zorder_background
def zMedia : UInt64 := UInt64.ofNat Generated.OrangeIO.zorder_media
def ltrueW : UInt64 := UInt64.ofNat Generated.OrangeIO.ltrue
def lnotW : UInt64 := UInt64.ofNat Generated.OrangeIO.lnot

/-! ### transforms -/

def V3.toList (v : V3) : List F64 := [v.x, v.y, v.z]

def Transform.data : Transform → List F64
  | .none => []
  | .translation t => t.toList
  | .transformation r0 r1 r2 t => r0.toList ++ r1.toList ++ r2.toList ++ t.toList

/-- `import_transform` after the vector<double> has been read -/
def transformOfData : List F64 → R Transform
  | [] => .ok .none
  | [a, b, c] => .ok (.translation ⟨a, b, c⟩)
  | [a, b, c, d, e, f, g, h, i, j, k, l] =>
    .ok (.transformation ⟨a, b, c⟩ ⟨d, e, f⟩ ⟨g, h, i⟩ ⟨j, k, l⟩)
  | _ => .error .validate

def importTransform (j : Json) : R Transform := bindR j.getRealList transformOfData

/-- `make_transform(Real3)`: a translation comparing equal to (0,0,0) is NoTransformation -/
def makeTransform (v : V3) : Transform :=
  if isZero v.x && isZero v.y && isZero v.z then .none else .translation v

/-- consecutive triples (`slice<3>(translations, i)`) -/
def chunks3 : List F64 → List V3
  | a :: b :: c :: rest => ⟨a, b, c⟩ :: chunks3 rest
  | _ => []

/-! ### surfaces -/

def surfName (ty : Nat) : String := Generated.OrangeIO.surfaceNames.getD ty ""
def surfSize (ty : Nat) : Nat := Generated.OrangeIO.surfaceSizes.getD ty 0
def numSurfTypes : Nat := Generated.OrangeIO.surfaceNames.length

/-- `to_surface_type` (StringEnumMapper: unknown strings are a RuntimeError) -/
def surfTypeOfName (s : String) : R Nat :=
  let i := Generated.OrangeIO.surfaceNames.idxOf s
  if i < numSurfTypes then .ok i else .error .validate

/-- the loop of `import_zipped_surfaces`; `data` is what remains from `data_idx` on.
    `visit_surface_type` has no case for `inv` (assert-unreachable = UB in release). -/
def importSurf : List String → List UInt64 → List F64 → R (List Surface)
  | [], _, _ => .ok []
  | _ :: _, [], _ => .error .ub
  | t :: ts, s :: ss, data =>
    bindR (surfTypeOfName t) fun ty =>
      if !(Generated.OrangeIO.surfaceReadable.getD ty false) then .error .ub
      else if data.length < surfSize ty then .error .ub
      else bindR (importSurf ts ss (data.drop s.toNat)) fun rest =>
        .ok (⟨ty, data.take (surfSize ty)⟩ :: rest)

def decodeSurfaces (j : Json) : R (List Surface) :=
  bindR (bindR (j.atKey "types") Json.getStrList) fun types =>
  bindR (bindR (j.atKey "data") Json.getRealList) fun data =>
  bindR (bindR (j.atKey "sizes") Json.getU64List) fun sizes =>
  importSurf types sizes data

/-! ### VolumeInput -/

def decodeZorder (j : Json) : R UInt64 :=
  match j.find? "zorder" with
  | none => .ok zMedia
  | some (.str s) =>
    if s.utf8ByteSize = 1 then .ok (zorderOfChar (s.toList.headD ' ')) else .error .validate
  | some v =>
    bindR v.getU64 fun z =>
      let z := match Generated.OrangeIO.zorderLegacy.lookup z.toNat with
        | some z' => UInt64.ofNat z'
        | none => z
      if zorderOfChar (zorderToChar z) ≠ zInvalid then .ok z else .error .validate

/-- optional "flags" (0 if absent) -/
def decodeFlags (j : Json) : R UInt64 :=
  match j.find? "flags" with
  | some v => v.getU64
  | none => .ok 0

def decodeVolume (j : Json) : R Volume :=
  bindR (bindR (j.atKey "faces") Json.getU64List) fun faces =>
  bindR (decodeFlags j) fun flags =>
  bindR (decodeZorder j) fun zorder =>
  if zorder = zBackground then
    .ok ⟨⟨"", ""⟩, faces, [ltrueW, lnotW], BBox.null, OBZ.default, flags, zorder⟩
  else
    bindR (bindR (bindR (j.atKey "logic") Json.getStr) stringToLogic) fun logic =>
    bindR (getBBox j) fun bbox =>
    .ok ⟨⟨"", ""⟩, faces, logic, bbox, OBZ.default, flags, zorder⟩

def optKey (c : Bool) (k : String) (v : Json) : List (String × Json) :=
  if c then [(k, v)] else []

section
variable (num : F64 → Json)

def encodeVolume (v : Volume) : Json :=
  .obj ([("faces", .arr (v.faces.map u64))]
    ++ optKey (!v.logic.isEmpty) "logic" (.str (logicToString v.logic))
    ++ optKey (!v.bbox.isInfinite) "bbox" (encodeBBox num v.bbox)
    ++ optKey (v.flags != 0) "flags" (u64 v.flags)
    ++ optKey (v.zorder != zMedia) "zorder" (.str (String.singleton (zorderToChar v.zorder))))

def encodeSurfaces (ss : List Surface) : Json :=
  .obj [("types", .arr (ss.map fun s => .str (surfName s.ty))),
        ("data", .arr ((ss.flatMap (·.data)).map num)),
        ("sizes", .arr (ss.map fun s => .int (Int.ofNat (surfSize s.ty))))]

def exportTransform (t : Transform) : Json := .arr (t.data.map num)

/-! ### UnitInput -/

def encodeUnit (u : UnitInput) : Json :=
  .obj ([("_type", .str "unit"),
         ("md", .obj [("name", encodeLabel u.label)]),
         ("surfaces", encodeSurfaces num u.surfaces),
         ("volumes", .arr (u.volumes.map (encodeVolume num))),
         ("surface_labels", .arr (u.surfaceLabels.map encodeLabel)),
         ("volume_labels", .arr (u.volumes.map fun v => encodeLabel v.label))]
    ++ optKey (u.bbox.valid && !u.bbox.isInfinite) "bbox" (encodeBBox num u.bbox)
    ++ (if u.daughters.isEmpty then [] else
        [("parent_cells", .arr (u.daughters.map fun d => u64 d.1)),
         ("daughters", .arr (u.daughters.map fun d => u64 d.2.univ)),
         ("transforms", .arr (u.daughters.map fun d => exportTransform num d.2.transform))]))

end

/-- first of the given keys that is present -/
def findFirst (j : Json) : List String → Option Json
  | [] => none
  | k :: ks => match j.find? k with
    | some v => some v
    | none => findFirst j ks

def decodeLabels (j : Json) : R (List Label) := bindR j.getArr (mapE decodeLabel)

/-- `value.volumes[i].label = labels[i]` for i < labels.size() (sizes already validated) -/
def assignLabels : List Volume → List Label → List Volume
  | v :: vs, l :: ls => { v with label := l } :: assignLabels vs ls
  | vs, _ => vs

/-- `std::map::emplace`: keeps the map sorted, does nothing when the key exists -/
def mapEmplace (k : UInt64) (d : Daughter) : List (UInt64 × Daughter) → List (UInt64 × Daughter)
  | [] => [(k, d)]
  | (k', d') :: rest =>
    if k < k' then (k, d) :: (k', d') :: rest
    else if k = k' then (k', d') :: rest
    else (k', d') :: mapEmplace k d rest

/-- the emplace loop over `range(parent_vols.size())`; `transforms[i]` out of range is UB -/
def emplaceAll : List UInt64 → List UInt64 → List Transform → List (UInt64 × Daughter) →
    R (List (UInt64 × Daughter))
  | [], _, _, m => .ok m
  | p :: ps, d :: ds, t :: ts, m => emplaceAll ps ds ts (mapEmplace p ⟨d, t⟩ m)
  | _ :: _, _, _, _ => .error .ub

def readUnitTransforms (j : Json) (nParents : Nat) : R (List Transform) :=
  match j.find? "transforms" with
  | some t => mapE importTransform t.iterValues
  | none => match j.find? "translations" with
    | some t =>
      bindR t.getRealList fun tr =>
      bindR (validate (decide (3 * nParents = tr.length))) fun _ =>
      .ok ((chunks3 tr).map makeTransform)
    | none => .error .validate

/-- one pass of `for key in {"parent_volumes", "parent_cells"}` -/
def decodeDaughtersKey (j : Json) (key : String) (m : List (UInt64 × Daughter)) :
    R (List (UInt64 × Daughter)) :=
  match j.find? key with
  | none => .ok m
  | some pv =>
    bindR pv.getU64List fun parents =>
    bindR (bindR (j.atKey "daughters") Json.getU64List) fun daughters =>
    bindR (validate (decide (parents.length = daughters.length))) fun _ =>
    bindR (readUnitTransforms j parents.length) fun transforms =>
    emplaceAll parents daughters transforms m

/-- "volumes" (legacy "cells"); a unit without either has no volumes -/
def decodeVolumesKey (j : Json) : R (List Volume) :=
  match findFirst j ["volumes", "cells"] with
  | some v => bindR v.getArr (mapE decodeVolume)
  | none => .ok []

/-- optional label arrays: first present key of the list -/
def decodeLabelsKey (j : Json) (keys : List String) : R (List Label) :=
  match findFirst j keys with
  | some v => decodeLabels v
  | none => .ok []

def decodeUnit (j : Json) : R UnitInput :=
  bindR (bindR (bindR (j.atKey "md") (·.atKey "name")) decodeLabel) fun label =>
  bindR (bindR (j.atKey "surfaces") decodeSurfaces) fun surfaces =>
  bindR (decodeVolumesKey j) fun volumes =>
  bindR (decodeLabelsKey j ["volume_labels", "cell_names"]) fun labels =>
  bindR (validate (decide (labels.length = volumes.length) || labels.isEmpty)) fun _ =>
  let volumes := assignLabels volumes labels
  bindR (decodeLabelsKey j ["surface_labels", "surface_names"]) fun surfaceLabels =>
  bindR (validate (decide (surfaceLabels.length = surfaces.length) || surfaceLabels.isEmpty))
    fun _ =>
  bindR (getBBox j) fun bbox =>
  bindR (decodeDaughtersKey j "parent_volumes" []) fun m1 =>
  bindR (decodeDaughtersKey j "parent_cells" m1) fun m2 =>
  .ok ⟨label, surfaces, volumes, bbox, m2, surfaceLabels⟩

/-! ### RectArrayInput -/

/-- translations of the daughters; a `Transformation` is CELER_NOT_IMPLEMENTED (a RuntimeError) -/
def rectTranslations : List Daughter → R (List F64)
  | [] => .ok []
  | d :: ds =>
    match d.transform with
    | .translation t => bindR (rectTranslations ds) fun rest => .ok (t.toList ++ rest)
    | .none => bindR (rectTranslations ds) fun rest => .ok ([0, 0, 0] ++ rest)
    | .transformation .. => .error .validate

section
variable (num : F64 → Json)

def encodeRect (r : RectArray) : R Json :=
  bindR (rectTranslations r.daughters) fun tr =>
  .ok (.obj [("_type", .str "rectarray"),
             ("md", .obj [("name", encodeLabel r.label)]),
             ("x", .arr (r.gx.map num)), ("y", .arr (r.gy.map num)), ("z", .arr (r.gz.map num)),
             ("daughters", .arr (r.daughters.map fun d => u64 d.univ)),
             ("translations", .arr (tr.map num))])

end

def decodeGrid (j : Json) (ax : String) : R (List F64) :=
  bindR (bindR (j.atKey ax) Json.getRealList) fun g =>
  bindR (validate (decide (g.length ≥ 2))) fun _ => .ok g

/-- `value.daughters[parent] = daughter` with `parent = parents.empty() ? i : parents[i]` -/
def placeDaughters : List UInt64 → List Daughter → List Daughter → R (List Daughter)
  | _, [], acc => .ok acc
  | [], _ :: _, _ => .error .ub
  | p :: ps, d :: ds, acc =>
    if p.toNat < acc.length then placeDaughters ps ds (acc.set p.toNat d) else .error .ub

/-- optional "parent_cells" of a rect array -/
def decodeRectParents (j : Json) : R (List UInt64) :=
  match j.find? "parent_cells" with
  | some v => v.getU64List
  | none => .ok []

def decodeRect (j : Json) : R RectArray :=
  bindR (bindR (bindR (j.atKey "md") (·.atKey "name")) decodeLabel) fun label =>
  bindR (decodeGrid j "x") fun gx =>
  bindR (decodeGrid j "y") fun gy =>
  bindR (decodeGrid j "z") fun gz =>
  if (j.find? "transforms").isSome then .error .validate
  else
  bindR (decodeRectParents j) fun parents =>
  bindR (bindR (j.atKey "daughters") Json.getU64List) fun daughters =>
  bindR (bindR (j.atKey "translations") Json.getRealList) fun tr =>
  bindR (validate (decide (3 * daughters.length = tr.length))) fun _ =>
  let ds := List.zipWith (fun u t => (⟨u, makeTransform t⟩ : Daughter)) daughters (chunks3 tr)
  if parents.isEmpty then .ok ⟨label, gx, gy, gz, ds⟩
  else
    bindR (placeDaughters parents ds (List.replicate ds.length Daughter.default)) fun placed =>
    .ok ⟨label, gx, gy, gz, placed⟩

/-! ### Tolerance -/

def zeroBits : F64 := 0

def Tol.valid (t : Tol) : Bool :=
  f64lt zeroBits t.rel && f64lt t.rel oneBits && f64lt zeroBits t.abs

/-- `Tolerance<>::from_default()`: rel = abs = 1.5e-8 -/
def Tol.default : Tol := ⟨0x3e501b2b29a4692b, 0x3e501b2b29a4692b⟩

def encodeTol (num : F64 → Json) (t : Tol) : Json :=
  .obj [("rel", num t.rel), ("abs", num t.abs)]

def decodeTol (j : Json) : R Tol :=
  bindR (bindR (j.atKey "rel") Json.getReal) fun rel =>
  bindR (validate (f64lt zeroBits rel && f64lt rel oneBits)) fun _ =>
  bindR (bindR (j.atKey "abs") Json.getReal) fun abs =>
  bindR (validate (f64lt zeroBits abs)) fun _ =>
  .ok ⟨rel, abs⟩

/-! ### OrangeInput -/

/-- `to_cstring(UnitSystem::native)` of the build under test (CELERITAS_UNITS = CGS) -/
def nativeUnits : String := "cgs"

def encodeUniverse (num : F64 → Json) : Universe → R Json
  | .unit u => .ok (encodeUnit num u)
  | .rect r => encodeRect num r

def encode (num : F64 → Json) (x : OrangeInput) : R Json :=
  bindR (mapE (encodeUniverse num) x.universes) fun us =>
  .ok (.obj ([("_format", .str Generated.OrangeIO.formatWritten), ("_version", .int 0),
              ("universes", .arr us)]
    ++ optKey x.tol.valid "tol" (encodeTol num x.tol)
    ++ [("_units", .str nativeUnits)]))

def decodeUniverse (j : Json) : R Universe :=
  bindR (bindR (j.atKey "_type") Json.getStr) fun ty =>
  if ty = "unit" ∨ ty = "simple unit" then bindR (decodeUnit j) fun u => .ok (.unit u)
  else if ty = "rectarray" ∨ ty = "rectangular array" then
    bindR (decodeRect j) fun r => .ok (.rect r)
  else .error .validate

/-- optional "_version": `get<int>()` only for the log message -/
def decodeVersion (j : Json) : R Unit :=
  match j.find? "_version" with
  | some v => v.checkInt
  | none => .ok ()

/-- `check_units`: an "_units" entry must name the native unit system -/
def checkUnits (j : Json) : R Unit :=
  match j.find? "_units" with
  | some v => bindR v.getStr fun s =>
      validate (decide (s ∈ Generated.OrangeIO.unitSystems) && decide (s = nativeUnits))
  | none => .ok ()

/-- optional "tol": default tolerance if absent -/
def decodeTolKey (j : Json) : R Tol :=
  match j.find? "tol" with
  | some v => decodeTol v
  | none => .ok Tol.default

def decode (j : Json) : R OrangeInput :=
  bindR (validate (j.find? "_format").isSome) fun _ =>
  bindR (bindR (j.atKey "_format") Json.getStr) fun fmt =>
  bindR (validate (decide (fmt ∈ Generated.OrangeIO.formatsRead))) fun _ =>
  bindR (decodeVersion j) fun _ =>
  bindR (checkUnits j) fun _ =>
  bindR (j.atKey "universes") fun us =>
  bindR (mapE decodeUniverse us.iterValues) fun universes =>
  bindR (decodeTolKey j) fun tol =>
  .ok ⟨universes, tol⟩

/-! ### key inventory of this model (compared with the regenerated one in Props/C19) -/

def modelKeysWritten : List (String × List String) := [
  ("VolumeInput", ["faces", "logic", "bbox", "flags", "zorder"]),
  ("UnitInput", ["_type", "md", "surfaces", "volumes", "surface_labels", "volume_labels",
                 "bbox", "parent_cells", "daughters", "transforms", "name"]),
  ("RectArrayInput", ["_type", "md", "daughters", "translations", "name", "x", "y", "z"]),
  ("Tolerance", ["rel", "abs"]),
  ("OrangeInput", ["tol", "_format", "_version", "universes", "_units"]),
  ("Surfaces", ["types", "data", "sizes"])]

def modelKeysRead : List (String × List String) := [
  ("VolumeInput", ["faces", "logic", "flags", "zorder", "bbox"]),
  ("UnitInput", ["md", "name", "surfaces", "daughters", "transforms", "translations", "volumes",
                 "cells", "volume_labels", "cell_names", "surface_labels", "surface_names",
                 "parent_volumes", "parent_cells", "bbox"]),
  ("RectArrayInput", ["md", "name", "daughters", "translations", "parent_cells", "transforms",
                      "x", "y", "z"]),
  ("Tolerance", ["rel", "abs"]),
  ("OrangeInput", ["_format", "universes", "_type", "_version", "tol", "_units"]),
  ("Surfaces", ["types", "data", "sizes"])]

end CelerVerif.OrangeIO
