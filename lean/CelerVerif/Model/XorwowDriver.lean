/- Line protocol for the xorwow model (see harness/xorwow.cc for the C++ side). -/
import CelerVerif.Model.Xorwow
import CelerVerif.Model.Util

namespace CelerVerif.Xorwow
open CelerVerif.Util

def showState (s : State) : String :=
  s!"st {toHex 8 s.xs.s0.toNat} {toHex 8 s.xs.s1.toNat} {toHex 8 s.xs.s2.toNat} " ++
  s!"{toHex 8 s.xs.s3.toNat} {toHex 8 s.xs.s4.toNat} {toHex 8 s.weyl.toNat}"

def w32 (n : Nat) : W := BitVec.ofNat 32 n

/-- one protocol line -> (new state, output line). Unknown or malformed ops answer `bad-op`. -/
def driverStep (s : State) (line : String) : State × String :=
  match words line with
  | ["set", a, b, c, d, e, w] =>
    match parseHex a, parseHex b, parseHex c, parseHex d, parseHex e, parseHex w with
    | some a, some b, some c, some d, some e, some w =>
      let s' : State := ⟨⟨w32 a, w32 b, w32 c, w32 d, w32 e⟩, w32 w⟩
      (s', showState s')
    | _, _, _, _, _, _ => (s, "bad-op")
  | ["draw"] =>
    let (v, s') := draw s
    (s', s!"val {toHex 8 v.toNat} " ++ showState s')
  | ["discard", n] =>
    match parseHex n with
    | some n => if n < 2 ^ 64 then let s' := discard n s; (s', showState s') else (s, "bad-op")
    | none => (s, "bad-op")
  | ["init", seed, sub, off] =>
    match parseHex seed, parseHex sub, parseHex off with
    | some seed, some sub, some off =>
      if seed < 2 ^ 32 ∧ sub < 2 ^ 64 ∧ off < 2 ^ 64 then
        let s' := init seed sub off; (s', showState s')
      else (s, "bad-op")
    | _, _, _ => (s, "bad-op")
  | ["reseed", seed, ev, size, slot] =>
    -- state of slot `slot` after reseed_rng(event ev) on a state with `size` slots
    match parseHex seed, parseHex ev, parseHex size, parseHex slot with
    | some seed, some ev, some size, some slot =>
      if seed < 2 ^ 32 ∧ ev < 2 ^ 64 ∧ slot < size ∧ size < 2 ^ 32 then
        let s' := init seed (reseedIndex ev size slot) 0; (s', showState s')
      else (s, "bad-op")
    | _, _, _, _ => (s, "bad-op")
  | ["canon"] =>
    let (n, s') := canonical s
    (s', s!"canon {toHex 16 n.toNat} " ++ showState s')
  | _ => (s, "bad-op")

end CelerVerif.Xorwow
