/-
Line protocol for the optical model at `Float` (C++ side: harness/optical.cc).
The three functions the model takes as parameters are instantiated here:
  * `expm1F`     : glibc `expm1` (the same symbol `std::expm1` resolves to), bound with `extern`
                   exactly as Lean's own `Float.exp`/`Float.log` are;
  * `sincospiF`  : celeritas' polynomial `detail::sincospi_impl(double, …)` (Sincospi.hh)
                   transcribed at `Float` with the exact `fma`;
  * `castU32`    : x86-64 `double → unsigned int` (cvttsd2si to 64 bit, low 32 bits).
All three are compared bit-for-bit with the C++ functions by the `expm1` / `sincospi` / `cast`
self-test ops on every run of the check.
-/
import CelerVerif.Model.Optical
import CelerVerif.Num.F64
import CelerVerif.Model.Util

namespace CelerVerif.Optical
open CelerVerif CelerVerif.Util

@[extern "expm1"] opaque expm1F : Float → Float

/-- `std::nearbyint` in round-to-nearest-even mode -/
def nearbyintF (x : Float) : Float :=
  let f := x.floor
  let d := x - f
  if d < 0.5 then f
  else if d > 0.5 then f + 1.0
  else if (f / 2.0).floor * 2.0 == f then f else f + 1.0

/-- `celeritas::detail::sincospi_impl(double a, double* s, double* c)` → (s, c) -/
def sincospiF (a0 : Float) : Float × Float :=
  let az := a0 * 0.0
  let a := if a0.abs < 9.0071992547409920e+15 then a0 else az
  let r0 := nearbyintF (a + a)
  let i : Int := r0.toInt64.toInt
  let t := F64.fma (-0.5) r0 a
  let s := t * t
  let r := -1.0369917389758117e-4
  let r := F64.fma r s 1.9294935641298806e-3
  let r := F64.fma r s (-2.5806887942825395e-2)
  let r := F64.fma r s 2.3533063028328211e-1
  let r := F64.fma r s (-1.3352627688538006e+0)
  let r := F64.fma r s 4.0587121264167623e+0
  let r := F64.fma r s (-4.9348022005446790e+0)
  let c := F64.fma r s 1.0000000000000000e+0
  let r := 4.6151442520157035e-4
  let r := F64.fma r s (-7.3700183130883555e-3)
  let r := F64.fma r s 8.2145868949323936e-2
  let r := F64.fma r s (-5.9926452893214921e-1)
  let r := F64.fma r s 2.5501640398732688e+0
  let r := F64.fma r s (-5.1677127800499516e+0)
  let s := s * t
  let r := r * s
  let s := F64.fma t 3.1415926535897931e+0 r
  let (s, c) := if (i / 2) % 2 != 0 then (0.0 - s, 0.0 - c) else (s, c)
  let (s, c) := if i % 2 != 0 then (c, 0.0 - s) else (s, c)
  let s := if a == a.floor then az else s
  (s, c)

/-- x86-64 `static_cast<unsigned int>(double)`: cvttsd2si r64 (NaN / out of range give
    0x8000000000000000), then the low 32 bits -/
def castU32 (x : Float) : Nat :=
  if x.isNaN || x >= 9223372036854775808.0 || x < -9223372036854775808.0 then 0
  else (x.toInt64.toInt % 4294967296).toNat

def pf (s : String) : Option Float := (parseHex s).map fun n => Float.ofBits (UInt64.ofNat n)
def pfs (ws : List String) : Option (List Float) := ws.mapM pf
def hx (x : Float) : String := Float.toHexBits x
def hv (v : Vec3 Float) : String := s!"{hx v.x} {hx v.y} {hx v.z}"

/-- split at every `|` -/
def splitBars (ws : List String) : List (List String) :=
  let rec go : List String → List String → List (List String)
    | [], cur => [cur.reverse]
    | w :: rest, cur => if w == "|" then cur.reverse :: go rest [] else go rest (w :: cur)
  go ws []

def K : Consts Float := Consts.cgs

def showPhoton (p : Photon Float) (draws : Nat) : String :=
  s!"{hx p.energy} {hv p.position} {hv p.direction} {hv p.polarization} {hx p.time} {draws}"

def parseDist (n : Nat) : List Float → Option (Dist Float)
  | [q, t, sl, v0, x0, y0, z0, v1, x1, y1, z1] =>
    some ⟨n, t, sl, q, v0, ⟨x0, y0, z0⟩, v1, ⟨x1, y1, z1⟩⟩
  | _ => none

def parseComps : List Float → Option (List (ScintComp Float))
  | [] => some []
  | yf :: mu :: sg :: ri :: fa :: rest => (parseComps rest).map (⟨yf, mu, sg, ri, fa⟩ :: ·)
  | _ => none

def parseScintInput (hdr comps : List Float) : Option (ScintInput Float) :=
  match hdr, parseComps comps with
  | [ype, rs], some cs => if cs.isEmpty then none else some ⟨ype, rs, cs⟩
  | _, _ => none

def joinOut (acc : List String) (tail : Option String) : String :=
  let all := acc.reverse ++ (match tail with | some t => [t] | none => [])
  if all.isEmpty then "none" else " ; ".intercalate all

/-- run `n` photons of a stateful generator over one script -/
def runScint (d : Dist Float) (m : ScintInput Float) (n : Nat) (script : List Float) : String :=
  let total := script.length
  let rec go : Nat → Option Float → List Float → List String → String
    | 0, _, _, acc => joinOut acc none
    | k + 1, spare, s, acc =>
      match scintPhoton K sincospiF expm1F d m spare s with
      | none => joinOut acc (some "exhausted")
      | some ((p, spare'), rest) => go k spare' rest (showPhoton p (total - rest.length) :: acc)
  go n none script []

def runCer (g : CerGen Float) (n : Nat) (script : List Float) : String :=
  let total := script.length
  let rec go : Nat → List Float → List String → String
    | 0, _, acc => joinOut acc none
    | k + 1, s, acc =>
      match g.photon K s with
      | none => joinOut acc (some "exhausted")
      | some (p, rest) => go k rest (showPhoton p (total - rest.length) :: acc)
  go n script []

/-- material of a Cerenkov op: mode `P` (through the Params classes: validation + computed
    integral) or `R` (raw tables, integral given) -/
def parseCerMat (mode : String) (secs : List (List Float)) :
    Option (Except String (CerMat Float) × List (List Float)) :=
  match mode, secs with
  | "P", es :: ns :: rest =>
    if es.length != ns.length || es.length < 2 then none
    else if !refractiveValid es ns then some (.error "validate-error", rest)
    else some (.ok (CerMat.ofLists es ns (angleIntegral es ns)), rest)
  | "R", es :: ns :: ints :: rest =>
    if es.length != ns.length || es.length != ints.length || es.length < 2 then none
    else some (.ok (CerMat.ofLists es ns ints), rest)
  | _, _ => none

def showDist (d : Dist Float) (draws : Nat) : String :=
  if d.numPhotons == 0 then s!"0 {draws}"
  else s!"{d.numPhotons} {hx d.time} {hx d.stepLength} {hx d.charge} {hx d.preSpeed} {hv d.prePos} {hx d.postSpeed} {hv d.postPos} {draws}"

def driverStep (st : Unit) (line : String) : Unit × String :=
  (st, match words line with
  | ["consts"] =>
    s!"{hx K.twoPi} {hx K.twoPiNormal} {hx K.cLight} {hx K.hc} {hx K.mev} {hx K.dndxK}"
  | "sph" :: rest =>
    (match pfs rest with
     | some [c, p] => hv (fromSpherical c p)
     | _ => "bad-op")
  | "rot" :: rest =>
    (match pfs rest with
     | some [a, b, c, d, e, f] => hv (rotate ⟨a, b, c⟩ ⟨d, e, f⟩)
     | _ => "bad-op")
  | "unit" :: rest =>
    (match pfs rest with
     | some [a, b, c] => hv (makeUnitVector ⟨a, b, c⟩)
     | _ => "bad-op")
  | "sincospi" :: rest =>
    (match pfs rest with
     | some [x] => let r := sincospiF x; s!"{hx r.1} {hx r.2}"
     | _ => "bad-op")
  | "expm1" :: rest =>
    (match pfs rest with
     | some [x] => hx (expm1F x)
     | _ => "bad-op")
  | "cast" :: rest =>
    (match pfs rest with
     | some [x] => toString (castU32 x)
     | _ => "bad-op")
  | "speed" :: rest =>
    (match pfs rest with
     | some [e, m] => hx (particleSpeed e m)
     | _ => "bad-op")
  | "integral" :: rest =>
    (match (splitBars rest).mapM pfs with
     | some [es, ns] =>
       if es.length != ns.length || es.length < 2 then "bad-op"
       else if !refractiveValid es ns then "validate-error"
       else " ".intercalate ((angleIntegral es ns).map hx)
     | _ => "bad-op")
  | "scint" :: nstr :: "|" :: rest =>
    (match nstr.toNat?, (splitBars rest).mapM pfs with
     | some n, some [dd, hdr, comps, script] =>
       (match parseDist n dd, parseScintInput hdr comps with
        | some d, some m =>
          if !m.valid then "validate-error" else runScint d m n script
        | _, _ => "bad-op")
     | _, _ => "bad-op")
  | "cer" :: mode :: nstr :: "|" :: rest =>
    (match nstr.toNat?, (splitBars rest).mapM pfs with
     | some n, some (dd :: secs) =>
       (match parseDist n dd, parseCerMat mode secs with
        | some d, some (.ok m, [script]) => runCer (CerGen.mk' K m d) n script
        | some _, some (.error e, [_]) => e
        | _, _ => "bad-op")
     | _, _ => "bad-op")
  | "dndx" :: mode :: "|" :: rest =>
    (match (splitBars rest).mapM pfs with
     | some ([z, beta] :: secs) =>
       (match parseCerMat mode secs with
        | some (.ok m, []) => hx (dndx K m z beta)
        | some (.error e, []) => e
        | _ => "bad-op")
     | _ => "bad-op")
  | "ceroff" :: mode :: "|" :: rest =>
    (match (splitBars rest).mapM pfs with
     | some ([q, mass, en, sl, v0, x0, y0, z0, t0, x1, y1, z1] :: secs) =>
       (match parseCerMat mode secs with
        | some (.ok m, [script]) =>
          let stp : Step Float := ⟨q, sl, v0, ⟨x0, y0, z0⟩, t0, particleSpeed en mass, ⟨x1, y1, z1⟩⟩
          (match cerenkovOffload K castU32 m stp script with
           | none => "exhausted"
           | some (d, r) => showDist d (script.length - r.length))
        | some (.error e, [_]) => e
        | _ => "bad-op")
     | _ => "bad-op")
  | "scoff" :: "|" :: rest =>
    (match (splitBars rest).mapM pfs with
     | some [[q, mass, en, sl, v0, x0, y0, z0, t0, x1, y1, z1, edep], hdr, comps, script] =>
       (match parseScintInput hdr comps with
        | some m =>
          if !m.valid then "validate-error"
          else
            let stp : Step Float := ⟨q, sl, v0, ⟨x0, y0, z0⟩, t0, particleSpeed en mass, ⟨x1, y1, z1⟩⟩
            (match scintOffload K castU32 m stp edep script with
             | none => "exhausted"
             | some (d, r) => showDist d (script.length - r.length))
        | none => "bad-op")
     | _ => "bad-op")
  | _ => "bad-op")

end CelerVerif.Optical
