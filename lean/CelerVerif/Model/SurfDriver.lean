/- Line protocol for the surface model at `Float` (C++ side: harness/surf.cc). -/
import CelerVerif.Model.Surf
import CelerVerif.Num.F64
import CelerVerif.Model.Util

namespace CelerVerif.Surf
open CelerVerif.Util

def pf (s : String) : Option Float := (parseHex s).map fun n => Float.ofBits (UInt64.ofNat n)
def pfs (ws : List String) : Option (List Float) := ws.mapM pf
def hx (x : Float) : String := Float.toHexBits x
def hxo : Option Float → String
  | some x => hx x
  | none => "7ff0000000000000"
def hv (v : Vec3 Float) : String := s!"{hx v.x} {hx v.y} {hx v.z}"

def axisOf : Char → Option Axis
  | 'x' => some .x | 'y' => some .y | 'z' => some .z | _ => none

/-- surface from type tag + storage data (same order as each class's `data()`) -/
def parseSurface (tag : String) (d : List Float) : Option (Surface Float) :=
  match tag.toList, d with
  | ['p', c], [p] => (axisOf c).map fun t => .planeAligned t p
  | ['p'], [nx, ny, nz, dd] => some (.plane ⟨nx, ny, nz⟩ dd)
  | ['c', c, 'c'], [r2] => (axisOf c).map fun t => .cylCentered t r2
  | ['c', c], [ou, ov, r2] => (axisOf c).map fun t => .cylAligned t ou ov r2
  | ['s', 'c'], [r2] => some (.sphereCentered r2)
  | ['s'], [ox, oy, oz, r2] => some (.sphere ⟨ox, oy, oz⟩ r2)
  | ['k', c], [ox, oy, oz, t2] => (axisOf c).map fun t => .coneAligned t ⟨ox, oy, oz⟩ t2
  | ['s', 'q'], [a, b, c, d, e, f, g] => some (.simpleQuadric a b c d e f g)
  | ['g', 'q'], [a, b, c, d, e, f, g, h, i, j] => some (.generalQuadric a b c d e f g h i j)
  | _, _ => none

def axisChar : Axis → String | .x => "x" | .y => "y" | .z => "z"

def showSurface : Surface Float → String
  | .planeAligned t p => s!"p{axisChar t} {hx p}"
  | .plane n d => s!"p {hv n} {hx d}"
  | .cylCentered t r2 => s!"c{axisChar t}c {hx r2}"
  | .cylAligned t ou ov r2 => s!"c{axisChar t} {hx ou} {hx ov} {hx r2}"
  | .sphereCentered r2 => s!"sc {hx r2}"
  | .sphere o r2 => s!"s {hv o} {hx r2}"
  | .coneAligned t o t2 => s!"k{axisChar t} {hv o} {hx t2}"
  | .simpleQuadric a b c d e f g => s!"sq {hx a} {hx b} {hx c} {hx d} {hx e} {hx f} {hx g}"
  | .generalQuadric a b c d e f g h i j =>
    s!"gq {hx a} {hx b} {hx c} {hx d} {hx e} {hx f} {hx g} {hx h} {hx i} {hx j}"

def senseStr : SignedSense → String
  | .inside => "-1" | .on => "0" | .outside => "1"

/-- split `a b c | d e f` at the bar -/
def splitBar (ws : List String) : List String × List String :=
  (ws.takeWhile (· ≠ "|"), (ws.dropWhile (· ≠ "|")).drop 1)

def withSurface (ws : List String) (k : Surface Float → List Float → String) : String :=
  let (l, r) := splitBar ws
  match l with
  | tag :: ds =>
    match pfs ds, pfs r with
    | some d, some args =>
      match parseSurface tag d with
      | some s => k s args
      | none => "bad-op"
    | _, _ => "bad-op"
  | [] => "bad-op"

def driverStep (st : Unit) (line : String) : Unit × String :=
  (st, match words line with
  | "sense" :: rest => withSurface rest fun s a =>
      match a with
      | [x, y, z] => senseStr (s.calcSense ⟨x, y, z⟩)
      | _ => "bad-op"
  | "isect" :: rest => withSurface rest fun s a =>
      match a with
      | [x, y, z, u, v, w, on] =>
        let r := s.calcIntersections ⟨x, y, z⟩ ⟨u, v, w⟩ (on != 0.0)
        s!"{hxo r.1} {hxo r.2}"
      | _ => "bad-op"
  | "normal" :: rest => withSurface rest fun s a =>
      match a with
      | [x, y, z] => hv (s.calcNormal ⟨x, y, z⟩)
      | _ => "bad-op"
  | "translate" :: rest => withSurface rest fun s a =>
      match a with
      | [x, y, z] => showSurface (s.translate ⟨x, y, z⟩)
      | _ => "bad-op"
  | "tup" :: rest =>
      (match pfs rest with
       | some [tx, ty, tz, x, y, z] => hv (translateUp ⟨tx, ty, tz⟩ ⟨x, y, z⟩)
       | _ => "bad-op")
  | "tdown" :: rest =>
      (match pfs rest with
       | some [tx, ty, tz, x, y, z] => hv (translateDown ⟨tx, ty, tz⟩ ⟨x, y, z⟩)
       | _ => "bad-op")
  | op :: rest =>
      if op == "xup" || op == "xdown" || op == "rup" || op == "rdown" then
        match pfs rest with
        | some [a, b, c, d, e, f, g, h, i, tx, ty, tz, x, y, z] =>
          let t : Transformation Float := ⟨⟨⟨a, b, c⟩, ⟨d, e, f⟩, ⟨g, h, i⟩⟩, ⟨tx, ty, tz⟩⟩
          let v : Vec3 Float := ⟨x, y, z⟩
          hv (if op == "xup" then t.up v else if op == "xdown" then t.down v
              else if op == "rup" then t.rotUp v else t.rotDown v)
        | _ => "bad-op"
      else "bad-op"
  | _ => "bad-op")

end CelerVerif.Surf
