/- Small parsing / printing helpers shared by the line-protocol drivers. No Mathlib. -/
namespace CelerVerif.Util

def hexDigit (c : Char) : Option Nat :=
  if '0' ≤ c ∧ c ≤ '9' then some (c.toNat - '0'.toNat)
  else if 'a' ≤ c ∧ c ≤ 'f' then some (c.toNat - 'a'.toNat + 10)
  else if 'A' ≤ c ∧ c ≤ 'F' then some (c.toNat - 'A'.toNat + 10)
  else none

/-- parse a hexadecimal natural number (no prefix) -/
def parseHex (s : String) : Option Nat :=
  if s.isEmpty then none
  else s.toList.foldl (fun acc c => match acc, hexDigit c with
    | some a, some d => some (a * 16 + d)
    | _, _ => none) (some 0)

def hexChar (d : Nat) : Char :=
  if d < 10 then Char.ofNat ('0'.toNat + d) else Char.ofNat ('a'.toNat + d - 10)

/-- fixed-width lower-case hex -/
def toHex (width : Nat) (n : Nat) : String :=
  String.ofList <| (List.range width).reverse.map fun i => hexChar ((n >>> (4 * i)) % 16)

def words (line : String) : List String :=
  (line.trimAscii.toString.splitOn " ").filter (· ≠ "")

end CelerVerif.Util
