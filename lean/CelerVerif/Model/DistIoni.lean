/-
Executable model (generic in `Num α`) of the closed-form ionisation secondary-energy samplers,
AS WRITTEN:
  src/celeritas/em/distribution/MollerEnergyDistribution.hh
  src/celeritas/em/distribution/BhabhaEnergyDistribution.hh
  src/celeritas/em/distribution/BetheBlochEnergyDistribution.hh
  src/celeritas/em/distribution/BraggICRU73QOEnergyDistribution.hh
  src/celeritas/em/distribution/MuBBEnergyDistribution.hh
  src/celeritas/em/distribution/detail/Utils.hh (`calc_max_secondary_energy`)
  phys/ParticleTrackView.hh (`beta_sq`, `total_energy`).
Every rejection iteration consumes exactly two uniforms (proposal, test), so the loops recurse
structurally on the script; `none` = script exhausted.
-/
import CelerVerif.Model.Dist

namespace CelerVerif.Dist
open CelerVerif
open scoped CelerVerif.Num

variable {α : Type} [Num α] [NumX α]

/-! ### Møller -/
structure Moller (α : Type) where
  minFrac : α       -- min_energy_fraction_
  gamma : α
deriving Repr, Inhabited

/-- constructor `(electron_mass, min_valid_energy, inc_energy)` -/
def Moller.mk' (eMass minEnergy incEnergy : α) : Moller α :=
  ⟨minEnergy / incEnergy, (1 : α) + incEnergy / eMass⟩

/-- `calc_g_fraction(epsilon)` -/
def Moller.g (d : Moller α) (eps : α) : α :=
  let t := ((2 : α) * d.gamma - (1 : α)) / (d.gamma * d.gamma)
  let c := (1 : α) - eps
  (1 : α) - t * eps + (eps * eps) * ((1 : α) - t + ((1 : α) - t * c) / (c * c))

/-- `max_energy_fraction()` -/
def mollerMaxFrac : α := 0.5

/-- rejection loop: `epsilon = 1 / sample_inverse_epsilon(rng)` until accepted -/
def ioniInvLoop (g : α → α) (gDen : α) (prop : UniformReal α) : Rng α α
  | u1 :: u2 :: rest =>
    let eps := (1 : α) / Num.fma prop.delta u1 prop.a
    if Num.lt (g eps) (gDen * u2) then ioniInvLoop g gDen prop rest else some (eps, rest)
  | _ => none

def Moller.sample (d : Moller α) : Rng α α :=
  ioniInvLoop d.g (d.g (mollerMaxFrac : α))
    (UniformReal.mk' ((1 : α) / (mollerMaxFrac : α)) ((1 : α) / d.minFrac))

/-! ### Bhabha -/
structure Bhabha (α : Type) where
  minFrac : α
  gamma : α
deriving Repr, Inhabited

def Bhabha.mk' (eMass minEnergy incEnergy : α) : Bhabha α :=
  ⟨minEnergy / incEnergy, (1 : α) + incEnergy / eMass⟩

/-- `calc_g_fraction(epsilon_min, epsilon_max)` -/
def Bhabha.g (d : Bhabha α) (epsMin epsMax : α) : α :=
  let y := (1 : α) / ((1 : α) + d.gamma)
  let ySq := y * y
  let omy := (1 : α) - (2 : α) * y
  let b1 := (2 : α) - ySq
  let b2 := omy * ((3 : α) + ySq)
  let b4 := ipow3 omy
  let b3 := omy * omy + b4
  let betaSq := (1 : α) - ((1 : α) / (d.gamma * d.gamma))
  (1 : α) + (ipow4 epsMax * b4 - ipow3 epsMin * b3 + (epsMax * epsMax) * b2 - epsMin * b1) * betaSq

def Bhabha.sample (d : Bhabha α) : Rng α α :=
  ioniInvLoop (fun e => d.g e e) (d.g d.minFrac (1 : α))
    (UniformReal.mk' ((1 : α) / (1 : α)) ((1 : α) / d.minFrac))

/-! ### heavy charged particles: kinematics -/
structure IoniIn (α : Type) where
  pMass : α         -- particle.mass()
  charge : α        -- particle.charge()
  energy : α        -- particle.energy()
  eMass : α         -- electron_mass
  cutoff : α        -- electron_cutoff
deriving Repr, Inhabited

/-- `ParticleTrackView::beta_sq()` -/
def ioniBetaSq (i : IoniIn α) : α :=
  let invGamma := i.pMass / (i.energy + i.pMass)
  (1 : α) - invGamma * invGamma

/-- `detail::calc_max_secondary_energy` -/
def maxSecondaryEnergy (i : IoniIn α) : α :=
  let ratio := i.eMass / i.pMass
  let tau := i.energy / i.pMass
  (2 : α) * i.eMass * tau * (tau + (2 : α))
    / ((1 : α) + (2 : α) * (tau + (1 : α)) * ratio + ratio * ratio)

/-- `InverseSquareDistribution(min, max)` proposal + `RejectionSampler(target(T), envelope)` -/
def ioniSqLoop (target : α → α) (envelope : α) (lo hi : α) : Rng α α
  | u1 :: u2 :: rest =>
    let energy := (lo * hi) / Num.fma (hi - lo) u1 lo
    if Num.lt (target energy) (envelope * u2) then ioniSqLoop target envelope lo hi rest
    else some (energy, rest)
  | _ => none

/-! ### BetheBloch / BraggICRU73QO -/
structure HeavyIoni (α : Type) where
  betaSq : α
  minEnergy : α
  maxEnergy : α
deriving Repr, Inhabited

def BetheBloch.mk' (i : IoniIn α) : HeavyIoni α :=
  ⟨ioniBetaSq i, i.cutoff, maxSecondaryEnergy i⟩

/-- `bragg_lowest_kin_energy()` / `icru73qo_lowest_kin_energy()` -/
def braggLowest : α := 2.5e-4
def icruLowest : α := 5e-3

/-- `protonMass` = `native_value_to<Mass>(constants::proton_mass)` (input) -/
def Bragg.mk' (i : IoniIn α) (protonMass : α) : HeavyIoni α :=
  let low := if Num.lt i.charge (0 : α) then (icruLowest : α) else (braggLowest : α)
  ⟨ioniBetaSq i, Num.min i.cutoff (low * i.pMass / protonMass), maxSecondaryEnergy i⟩

/-- rejection function `1 - (beta_sq / max_energy) * energy` -/
def HeavyIoni.target (d : HeavyIoni α) (energy : α) : α :=
  (1 : α) - (d.betaSq / d.maxEnergy) * energy

def HeavyIoni.sample (d : HeavyIoni α) : Rng α α :=
  ioniSqLoop d.target (1 : α) d.minEnergy d.maxEnergy

/-! ### MuBB -/
structure MuBB (α : Type) where
  pMass : α
  totalEnergy : α
  betaSq : α
  eMass : α
  minEnergy : α
  maxEnergy : α
  useRad : Bool
  envelope : α
deriving Repr, Inhabited

/-- `alpha_fine_structure / (2 * constants::pi)` -/
def alphaOverTwoPi : α := (7.2973525693e-3 : α) / ((2 : α) * (pi : α))
/-- `rad_correction_limit()`, `kin_energy_limit()` -/
def radCorrectionLimit : α := 250
def kinEnergyLimit : α := 0.1

def MuBB.mk' (i : IoniIn α) : MuBB α :=
  let total := i.energy + i.pMass
  let maxE := maxSecondaryEnergy i
  let useRad := Num.gt i.energy (radCorrectionLimit : α) && Num.gt maxE (kinEnergyLimit : α)
  let env :=
    if useRad then
      let l := Num.log ((2 : α) * total / i.pMass)
      (1 : α) + (alphaOverTwoPi : α) * (l * l)
    else (1 : α)
  ⟨i.pMass, total, ioniBetaSq i, i.eMass, i.cutoff, maxE, useRad, env⟩

def MuBB.target (d : MuBB α) (energy : α) : α :=
  let r := energy / d.totalEnergy
  let t0 := (1 : α) - (d.betaSq / d.maxEnergy) * energy + (0.5 : α) * (r * r)
  if d.useRad && Num.gt energy (kinEnergyLimit : α) then
    let a1 := Num.log ((1 : α) + (2 : α) * energy / d.eMass)
    let a3 := Num.log ((4 : α) * d.totalEnergy * (d.totalEnergy - energy) / (d.pMass * d.pMass))
    t0 * ((1 : α) + (alphaOverTwoPi : α) * a1 * (a3 - a1))
  else t0

def MuBB.sample (d : MuBB α) : Rng α α :=
  ioniSqLoop d.target d.envelope d.minEnergy d.maxEnergy

end CelerVerif.Dist
