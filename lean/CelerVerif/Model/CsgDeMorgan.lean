/-
Executable model (C10) of `orange/orangeinp/detail/DeMorganSimplifier.{hh,cc}`
(`transform_negated_joins`), transliterated statement by statement: first pass
(`find_join_negations`, `add_negation_for_operands`), second pass (`build_simplified_tree`,
`process_negated_joined_nodes`, `build_negated_node`, `should_insert_join`).

Release-build behaviour: the `CELER_ASSERT`s are compiled out.  Where a failed assertion would
let a null `NodeId` flow into `CsgTree::insert` (undefined behaviour: out-of-bounds read in
`NodeSimplifier`), the model stops with `.error "assert"`; `std::get<Joined>` on a non-join
(`add_negation_for_operands` does not de-alias) is `.error "bad-variant"`.
No Mathlib import.
-/
import CelerVerif.Model.Csg

namespace CelerVerif.Csg

/-- `DeMorganSimplifier::MatchingNodes` -/
structure Matching where
  unmodified : Nat := invalid
  simplifiedTo : Nat := invalid
  oppositeJoin : Nat := invalid
  newNegation : Nat := invalid
  deriving Repr, Inhabited

/-- `MatchingNodes::equivalent_node()` -/
def Matching.equivalent (m : Matching) : Nat :=
  if m.simplifiedTo ≠ invalid then m.simplifiedTo
  else if m.unmodified ≠ invalid then m.unmodified
  else invalid

/-- first-pass result -/
structure DMFlags where
  newNeg : Array Bool
  negJoin : Array Bool
  /-- `parents_[{child, parent}]`, row-major `child * size + parent` -/
  parents : Array Bool
  size : Nat
  deriving Inhabited

def DMFlags.parent (f : DMFlags) (child par : Nat) : Bool := f.parents.getD (child * f.size + par) false
def DMFlags.setParent (f : DMFlags) (child par : Nat) : DMFlags :=
  { f with parents := f.parents.setIfInBounds (child * f.size + par) true }

/-- `DeMorganSimplifier::dealias` (budget: a cyclic alias chain would loop forever) -/
def dealias (t : Tree) : Nat → Nat → Nat
  | 0, n => n
  | f + 1, n =>
    match t.get n with
    | .aliased a => dealias t f a
    | _ => n

def dealiased (t : Tree) (n : Nat) : Node := t.get (dealias t (t.size + 1) n)

def isJoined : Node → Bool
  | .joined _ _ => true
  | _ => false

def isNegated : Node → Bool
  | .negated _ => true
  | _ => false

/-- `add_negation_for_operands(node_id)` -/
def addNegationForOperands (t : Tree) : Nat → Nat → DMFlags → Except String DMFlags
  | 0, _, _ => .error "fuel"
  | fuel + 1, nodeId, fl =>
    match t.get nodeId with          -- `std::get<Joined>(tree_[node_id])`: not de-aliased
    | .joined _ operands =>
      operands.foldlM (init := fl) fun fl operand =>
        let target := dealiased t operand
        if isJoined target then
          addNegationForOperands t fuel operand
            { fl with negJoin := fl.negJoin.setIfInBounds operand true }
        else if !isNegated target then
          .ok { fl with newNeg := fl.newNeg.setIfInBounds operand true }
        else .ok fl
    | _ => .error "bad-variant"

/-- `find_join_negations()` -/
def findJoinNegations (t : Tree) : Except String DMFlags := do
  let n := t.size
  let mut fl : DMFlags :=
    { newNeg := Array.replicate n false, negJoin := Array.replicate n false,
      parents := Array.replicate (n * n) false, size := n }
  for nodeId in [0:n] do
    match dealiased t nodeId with
    | .negated c =>
      fl := (fl.setParent c nodeId).setParent c 1
      if isJoined (dealiased t c) then
        fl := { fl with negJoin := fl.negJoin.setIfInBounds c true }
        fl ← addNegationForOperands t (n + 1) c fl
    | .joined _ ns =>
      for o in ns do
        fl := (fl.setParent o nodeId).setParent o 1
    | _ => pure ()
  for v in t.volumes do
    fl := fl.setParent v 0
  return fl

/-- `has_negated_join_parent` lambda of `should_insert_join` -/
def hasNegatedJoinParent (fl : DMFlags) (n : Nat) : Bool :=
  (List.range fl.size).any fun p => decide (2 ≤ p) && fl.parent n p && fl.negJoin.getD p false

/-- `should_insert_join(node_id)` -/
def shouldInsertJoin (t : Tree) (fl : DMFlags) : Nat → Nat → Bool
  | 0, _ => false
  | fuel + 1, nodeId =>
    if fl.parent nodeId 0 || !fl.parent nodeId 1 then true
    else
      (List.range fl.size).any fun p =>
        decide (2 ≤ p) && fl.parent nodeId p &&
          (let d := dealiased t p
           (isJoined d && shouldInsertJoin t fl fuel p)
             || (isNegated d && hasNegatedJoinParent fl p))

/-- `build_negated_node(joined)` -/
def buildNegatedNode (t : Tree) (tr : Array Matching) (op : Op) (nodes : List Nat) :
    Except String Node := do
  let mut operands : List Nat := []
  for n in nodes do
    match dealiased t n with
    | .negated c =>
      let u := (tr.getD c {}).unmodified
      if u = invalid then throw "assert"
      operands := operands ++ [u]
    | _ =>
      let m := tr.getD n {}
      let v := if m.newNegation ≠ invalid then m.newNegation else m.oppositeJoin
      if v = invalid then throw "assert"
      operands := operands ++ [v]
  return .joined (if op = .and then .or else .and) operands

/-- `process_negated_joined_nodes(node_id, result)`: (insert unmodified?, result, translation) -/
def processNegatedJoined (t : Tree) (fl : DMFlags) (nodeId : Nat) (result : Tree)
    (tr : Array Matching) : Except String (Bool × Tree × Array Matching) := do
  match dealiased t nodeId with
  | .negated c =>
    if isJoined (dealiased t c) then
      let tr' := tr.modify nodeId fun m => { m with simplifiedTo := (tr.getD c {}).oppositeJoin }
      return (false, result, tr')
    if fl.parent nodeId 0 || !fl.parent nodeId 1 then
      return (true, result, tr)
    let keep := (List.range fl.size).any fun p =>
      decide (2 ≤ p) && fl.parent nodeId p && isJoined (dealiased t p)
        && shouldInsertJoin t fl (fl.size + 1) p
    return (keep, result, tr)
  | .joined op ns =>
    let mut result := result
    let mut tr := tr
    if fl.negJoin.getD nodeId false then
      let neg ← buildNegatedNode t tr op ns
      let (r, newId, _) := insert result neg
      result := r
      tr := tr.modify nodeId fun m => { m with oppositeJoin := newId }
    return (shouldInsertJoin t fl (fl.size + 1) nodeId, result, tr)
  | _ => return (true, result, tr)

/-- `build_simplified_tree()` -/
def buildSimplifiedTree (t : Tree) (fl : DMFlags) : Except String Tree := do
  let n := t.size
  let mut result := Tree.empty
  let mut tr : Array Matching := Array.replicate n {}
  for nodeId in [0:n] do
    let (keep, r, tr') ← processNegatedJoined t fl nodeId result tr
    result := r
    tr := tr'
    if !keep then continue
    let mut newNode := dealiased t nodeId
    match newNode with
    | .negated c =>
      let u := (tr.getD c {}).unmodified
      if u = invalid then throw "assert"
      newNode := .negated u
    | .joined op ns =>
      let ns' := ns.map fun o => (tr.getD o {}).equivalent
      if ns'.contains invalid then throw "assert"
      newNode := .joined op ns'
    | _ => pure ()
    let (r2, newId, _) := insert result newNode
    result := r2
    tr := tr.modify nodeId fun m => { m with unmodified := newId }
    if fl.newNeg.getD nodeId false then
      let (r3, negId, _) := insert result (.negated newId)
      result := r3
      tr := tr.modify nodeId fun m => { m with newNegation := negId }
  for v in t.volumes do
    let e := (tr.getD v {}).equivalent
    if e = invalid then throw "assert"
    result := result.insertVolume e
  return result

/-- `transform_negated_joins(tree)` = `DeMorganSimplifier{tree}()` -/
def transformNegatedJoins (t : Tree) : Except String Tree := do
  let fl ← findJoinNegations t
  buildSimplifiedTree t fl

/-- documented precondition of `DeMorganSimplifier`: no alias nodes and no double negation
    (node 1 = `Negated{0}` is the only negation allowed to point at a constant's negation) -/
def demorganPrecondition (t : Tree) : Bool :=
  t.nodes.all fun n =>
    match n with
    | .aliased _ => false
    | .fls => false
    | .negated c => !isNegated (t.get c)
    | _ => true

end CelerVerif.Csg
