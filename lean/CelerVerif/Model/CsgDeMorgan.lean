/-
Executable model (C10) of `orange/orangeinp/detail/DeMorganSimplifier.{hh,cc}`
(`transform_negated_joins`), transliterated statement by statement: first pass
(`find_join_negations`, `add_negation_for_operands`), second pass (`build_simplified_tree`,
`process_negated_joined_nodes`, `build_negated_node`, `should_insert_join`).  Loops are written
as explicit folds (`foldE` = left fold that stops at the first error) so that they can be
reasoned about; `std::vector<bool>` flags are functions `Nat → Bool` (all accesses are in
bounds), the parents matrix stays a flat array, `node_ids_translation_` is a function.

Release-build behaviour: the `CELER_ASSERT`s are compiled out.  Where a failed assertion would
let a null `NodeId` flow into `CsgTree::insert` (undefined behaviour: out-of-bounds read in
`NodeSimplifier`), the model stops with `.error "assert"`; `std::get<Joined>` on a non-join is
`.error "bad-variant"` (since repo commit 9889e64 `add_negation_for_operands` de-aliases the id
first, so this can only happen for a node that is not a join even after following aliases).
No Mathlib import.
-/
import CelerVerif.Model.Csg

namespace CelerVerif.Csg

/-- `DeMorganSimplifier::MatchingNodes` -/
structure Matching where
  unmodified : Nat := invalid
  simplifiedTo : Nat := invalid
  oppositeJoin : Nat := invalid
  newNegation : Nat := invalid
  deriving Repr, Inhabited

/-- `MatchingNodes::equivalent_node()` -/
def Matching.equivalent (m : Matching) : Nat :=
  if m.simplifiedTo ≠ invalid then m.simplifiedTo
  else if m.unmodified ≠ invalid then m.unmodified
  else invalid

/-- `node_ids_translation_` -/
abbrev TrMap := Nat → Matching

def updTr (tr : TrMap) (i : Nat) (f : Matching → Matching) : TrMap :=
  fun j => if j = i then f (tr i) else tr j

/-- left fold that stops at the first error -/
def foldE {α β ε : Type} (f : α → β → Except ε α) : List β → α → Except ε α
  | [], a => .ok a
  | b :: bs, a =>
    match f a b with
    | .error e => .error e
    | .ok a' => foldE f bs a'

/-- first-pass result -/
structure DMFlags where
  /-- `new_negated_nodes_` -/
  newNeg : Nat → Bool
  /-- `negated_join_nodes_` -/
  negJoin : Nat → Bool
  /-- `parents_[{child, parent}]`, row-major `child * size + parent` -/
  parents : Array Bool
  size : Nat

def setFlag (f : Nat → Bool) (i : Nat) : Nat → Bool := fun j => decide (j = i) || f j

def DMFlags.parent (f : DMFlags) (child par : Nat) : Bool := f.parents.getD (child * f.size + par) false
def DMFlags.setParent (f : DMFlags) (child par : Nat) : DMFlags :=
  { f with parents := f.parents.setIfInBounds (child * f.size + par) true }

/-- `DeMorganSimplifier::dealias` (budget: a cyclic alias chain would loop forever) -/
def dealias (t : Tree) : Nat → Nat → Nat
  | 0, n => n
  | f + 1, n =>
    match t.get n with
    | .aliased a => dealias t f a
    | _ => n

def dealiased (t : Tree) (n : Nat) : Node := t.get (dealias t (t.size + 1) n)

def isJoined : Node → Bool
  | .joined _ _ => true
  | _ => false

def isNegated : Node → Bool
  | .negated _ => true
  | _ => false

/-- `add_negation_for_operands(node_id)` -/
def addNegationForOperands (t : Tree) : Nat → Nat → DMFlags → Except String DMFlags
  | 0, _, _ => .error "fuel"
  | fuel + 1, nodeId, fl =>
    match dealiased t nodeId with    -- `std::get<Joined>(tree_[this->dealias(node_id)])`
    | .joined _ operands =>
      foldE (fun fl operand =>
        let target := dealiased t operand
        if isJoined target then
          addNegationForOperands t fuel operand { fl with negJoin := setFlag fl.negJoin operand }
        else if !isNegated target then
          .ok { fl with newNeg := setFlag fl.newNeg operand }
        else .ok fl) operands fl
    | _ => .error "bad-variant"

/-- body of the first loop of `find_join_negations()` -/
def fjStep (t : Tree) (fl : DMFlags) (nodeId : Nat) : Except String DMFlags :=
  match dealiased t nodeId with
  | .negated c =>
    let fl := (fl.setParent c nodeId).setParent c 1
    if isJoined (dealiased t c) then
      addNegationForOperands t (t.size + 1) c { fl with negJoin := setFlag fl.negJoin c }
    else .ok fl
  | .joined _ ns => .ok (ns.foldl (fun fl o => (fl.setParent o nodeId).setParent o 1) fl)
  | _ => .ok fl

/-- `find_join_negations()` -/
def findJoinNegations (t : Tree) : Except String DMFlags :=
  let n := t.size
  let fl0 : DMFlags :=
    { newNeg := fun _ => false, negJoin := fun _ => false,
      parents := Array.replicate (n * n) false, size := n }
  match foldE (fjStep t) (List.range n) fl0 with
  | .error e => .error e
  | .ok fl => .ok (t.volumes.foldl (fun fl v => fl.setParent v 0) fl)

/-- `has_negated_join_parent` lambda of `should_insert_join` -/
def hasNegatedJoinParent (fl : DMFlags) (n : Nat) : Bool :=
  (List.range fl.size).any fun p => decide (2 ≤ p) && fl.parent n p && fl.negJoin p

/-- `should_insert_join(node_id)` -/
def shouldInsertJoin (t : Tree) (fl : DMFlags) : Nat → Nat → Bool
  | 0, _ => false
  | fuel + 1, nodeId =>
    if fl.parent nodeId 0 || !fl.parent nodeId 1 then true
    else
      (List.range fl.size).any fun p =>
        decide (2 ≤ p) && fl.parent nodeId p &&
          (let d := dealiased t p
           (isJoined d && shouldInsertJoin t fl fuel p)
             || (isNegated d && hasNegatedJoinParent fl p))

/-- one operand of `build_negated_node` -/
def negOperand (t : Tree) (tr : TrMap) (n : Nat) : Except String Nat :=
  match dealiased t n with
  | .negated c =>
    if (tr c).unmodified = invalid then .error "assert" else .ok (tr c).unmodified
  | _ =>
    let v := if (tr n).newNegation ≠ invalid then (tr n).newNegation else (tr n).oppositeJoin
    if v = invalid then .error "assert" else .ok v

def negOperands (t : Tree) (tr : TrMap) : List Nat → Except String (List Nat)
  | [] => .ok []
  | n :: ns =>
    match negOperand t tr n with
    | .error e => .error e
    | .ok u =>
      match negOperands t tr ns with
      | .error e => .error e
      | .ok us => .ok (u :: us)

def flipOp : Op → Op
  | .and => .or
  | .or => .and

/-- `build_negated_node(joined)` -/
def buildNegatedNode (t : Tree) (tr : TrMap) (op : Op) (nodes : List Nat) : Except String Node :=
  match negOperands t tr nodes with
  | .error e => .error e
  | .ok us => .ok (.joined (flipOp op) us)

/-- `process_negated_joined_nodes(node_id, result)`: (insert unmodified?, result, translation) -/
def processNegatedJoined (t : Tree) (fl : DMFlags) (nodeId : Nat) (result : Tree) (tr : TrMap) :
    Except String (Bool × Tree × TrMap) :=
  match dealiased t nodeId with
  | .negated c =>
    if isJoined (dealiased t c) then
      .ok (false, result, updTr tr nodeId fun m => { m with simplifiedTo := (tr c).oppositeJoin })
    else if fl.parent nodeId 0 || !fl.parent nodeId 1 then .ok (true, result, tr)
    else
      .ok ((List.range fl.size).any (fun p =>
        decide (2 ≤ p) && fl.parent nodeId p && isJoined (dealiased t p)
          && shouldInsertJoin t fl (fl.size + 1) p), result, tr)
  | .joined op ns =>
    if fl.negJoin nodeId then
      match buildNegatedNode t tr op ns with
      | .error e => .error e
      | .ok neg =>
        .ok (shouldInsertJoin t fl (fl.size + 1) nodeId, (insert result neg).1,
          updTr tr nodeId fun m => { m with oppositeJoin := (insert result neg).2.1 })
    else .ok (shouldInsertJoin t fl (fl.size + 1) nodeId, result, tr)
  | _ => .ok (true, result, tr)

/-- the copy of an original node with its children translated to the new tree -/
def translateNode (tr : TrMap) : Node → Except String Node
  | .negated c =>
    if (tr c).unmodified = invalid then .error "assert" else .ok (.negated (tr c).unmodified)
  | .joined op ns =>
    if (ns.map fun o => (tr o).equivalent).contains invalid then .error "assert"
    else .ok (.joined op (ns.map fun o => (tr o).equivalent))
  | n => .ok n

/-- state of the second pass -/
structure DMState where
  result : Tree
  tr : TrMap

/-- body of the main loop of `build_simplified_tree()` -/
def dmStep (t : Tree) (fl : DMFlags) (st : DMState) (nodeId : Nat) : Except String DMState :=
  match processNegatedJoined t fl nodeId st.result st.tr with
  | .error e => .error e
  | .ok (keep, r, tr) =>
    if keep = false then .ok ⟨r, tr⟩
    else
      match translateNode tr (dealiased t nodeId) with
      | .error e => .error e
      | .ok newNode =>
        let r2 := (insert r newNode).1
        let newId := (insert r newNode).2.1
        let tr2 := updTr tr nodeId fun m => { m with unmodified := newId }
        if fl.newNeg nodeId then
          .ok ⟨(insert r2 (.negated newId)).1,
            updTr tr2 nodeId fun m => { m with newNegation := (insert r2 (.negated newId)).2.1 }⟩
        else .ok ⟨r2, tr2⟩

/-- the volume loop of `build_simplified_tree()` -/
def dmVolumes (tr : TrMap) : List Nat → Tree → Except String Tree
  | [], r => .ok r
  | v :: vs, r =>
    if (tr v).equivalent = invalid then .error "assert"
    else dmVolumes tr vs (r.insertVolume (tr v).equivalent)

/-- `build_simplified_tree()` -/
def buildSimplifiedTree (t : Tree) (fl : DMFlags) : Except String Tree :=
  match foldE (dmStep t fl) (List.range t.size) ⟨Tree.empty, fun _ => {}⟩ with
  | .error e => .error e
  | .ok st => dmVolumes st.tr t.volumes st.result

/-- `transform_negated_joins(tree)` = `DeMorganSimplifier{tree}()` -/
def transformNegatedJoins (t : Tree) : Except String Tree :=
  match findJoinNegations t with
  | .error e => .error e
  | .ok fl => buildSimplifiedTree t fl

/-- documented precondition of `DeMorganSimplifier`: no alias nodes and no double negation -/
def demorganPrecondition (t : Tree) : Bool :=
  t.nodes.all fun n =>
    match n with
    | .aliased _ => false
    | .fls => false
    | .negated c => !isNegated (t.get c)
    | _ => true

end CelerVerif.Csg
