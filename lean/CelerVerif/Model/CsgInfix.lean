/-
Executable model (C10, infix side) of `orange/univ/detail/InfixEvaluator.hh` AS WRITTEN in the
release build (`CELER_EXPECT/ASSERT/ASSUME` compiled out): the index loop of
`InfixEvaluator::operator()` with `result`, `par_depth`, `i`, and `short_circuit(i)`.

* the token list is indexed by position (`List.getD i 0`); a read past the end (undefined
  behaviour in C++) returns the default `0`; every theorem excludes it by well-formedness;
* `par_depth` is an unbounded `Int` (C++: `int`; it cannot overflow for a logic of fewer than
  `2^31` tokens, and `logic_.size()` is a 32-bit `size_type`);
* `i` strictly increases in every iteration of both loops, so a recursion budget of
  `logic.length` iterations is exact for the outer loop (when it runs out `i ≥ size`), and the
  same budget bounds `short_circuit` (which only stops earlier when its depth returns to 0).

There is no C++ builder from a CSG tree to infix logic in this code base: `infixOf` is the
SPECIFICATION-level encoding in the "explicit infix notation" documented in `InfixEvaluator.hh`
and used by `test/orange/univ/detail/InfixEvaluator.test.cc`; `infixWellFormed` decides
membership in the grammar of that notation.  No Mathlib import.
-/
import CelerVerif.Model.CsgLogic

namespace CelerVerif.Csg
open CelerVerif.Generated.Csg

/-! ### InfixEvaluator -/

/-- `InfixEvaluator::short_circuit(i)` with its local `par_depth = k`:
    `while (par_depth > 0) { lgc = logic_[++i]; if lopen ++par_depth else if lclose --par_depth }
     return i;` -/
def shortCircuitLoop (logic : List Nat) : Nat → Nat → Int → Nat
  | 0, i, _ => i
  | f + 1, i, k =>
    if k > 0 then
      let lgc := logic.getD (i + 1) 0
      if lgc = lopen then shortCircuitLoop logic f (i + 1) (k + 1)
      else if lgc = lclose then shortCircuitLoop logic f (i + 1) (k - 1)
      else shortCircuitLoop logic f (i + 1) k
    else i

/-- `this->short_circuit(i)` (`int par_depth{1}`) -/
def shortCircuit (logic : List Nat) (i : Nat) : Nat :=
  shortCircuitLoop logic logic.length i 1

/-- the `while (i < logic_.size())` loop of `InfixEvaluator::operator()`; arguments: budget,
    `i`, `result`, `par_depth` -/
def infixLoop (logic : List Nat) (vals : Nat → Bool) : Nat → Nat → Bool → Int → Bool
  | 0, _, result, _ => result
  | f + 1, i, result, depth =>
    if i < logic.length then
      let lgc := logic.getD i 0
      if !isOperatorToken lgc then
        -- result = eval_sense(FaceId{lgc})
        infixLoop logic vals f (i + 1) (vals lgc) depth
      else if (lgc = lor ∧ result = true) ∨ (lgc = land ∧ result = false) then
        if depth = 0 then result  -- break
        else
          -- --par_depth; i = short_circuit(i); ++i
          infixLoop logic vals f (shortCircuit logic i + 1) result (depth - 1)
      else if lgc = ltrue then infixLoop logic vals f (i + 1) true depth
      else if lgc = lopen then infixLoop logic vals f (i + 1) result (depth + 1)
      else if lgc = lclose then infixLoop logic vals f (i + 1) result (depth - 1)
      else if lgc = lnot then
        -- result = !eval_sense(FaceId{logic_[++i]}); ++i
        infixLoop logic vals f (i + 2) (!vals (logic.getD (i + 1) 0)) depth
      else infixLoop logic vals f (i + 1) result depth
    else result

/-- `InfixEvaluator{logic}(eval_sense)`: `bool result{true}; int par_depth{0}; size_type i{0};` -/
def infixEval (logic : List Nat) (vals : Nat → Bool) : Bool :=
  infixLoop logic vals logic.length 0 true 0

/-! ### grammar check of the explicit infix notation

    E ::= A | A (lor A)+ | A (land A)+        -- one operator kind per parenthesis level
    A ::= face | lnot face | ltrue | lopen E lclose        face < nfaces, face < lbegin -/

mutual
/-- parse one atom `A`; returns the unread tokens -/
def wfAtom (nfaces : Nat) : Nat → List Nat → Option (List Nat)
  | 0, _ => none
  | _ + 1, [] => none
  | f + 1, tok :: rest =>
    if tok < lbegin then (if tok < nfaces then some rest else none)
    else if tok = ltrue then some rest
    else if tok = lnot then
      match rest with
      | s :: rest' => if s < lbegin ∧ s < nfaces then some rest' else none
      | [] => none
    else if tok = lopen then
      match wfChain nfaces f none rest with
      | some (c :: rest') => if c = lclose then some rest' else none
      | _ => none
    else none
/-- parse a chain `E` whose operator kind is `op` (`none`: not yet known); stops in front of the
    first token that does not continue the chain and returns the unread tokens -/
def wfChain (nfaces : Nat) : Nat → Option Nat → List Nat → Option (List Nat)
  | 0, _, _ => none
  | f + 1, op, toks =>
    match wfAtom nfaces f toks with
    | none => none
    | some [] => some []
    | some (o :: rest) =>
      if (o = lor ∨ o = land) ∧ (op = none ∨ op = some o) then wfChain nfaces f (some o) rest
      else some (o :: rest)
end

/-- the token list is an expression `E` of the grammar with every face `< nfaces` (`< lbegin`) -/
def infixWellFormed (logic : List Nat) (nfaces : Nat) : Bool :=
  match wfChain nfaces (2 * logic.length + 1) none logic with
  | some [] => true
  | _ => false

/-! ### specification-level infix encoding of a tree without negated joins -/

/-- the surface behind node `n` after following aliases (`none`: any other node) -/
def surfaceOf (t : Tree) : Nat → Nat → Option Nat
  | 0, _ => none
  | f + 1, n =>
    match t.get n with
    | .surface s => some s
    | .aliased a => surfaceOf t f a
    | _ => none

/-- `x₁ tok x₂ tok … tok xₙ` (`none` if an operand has no encoding or there is no operand) -/
def infixJoin (tok : Nat) : List (Option (List Nat)) → Option (List Nat)
  | [] => none
  | [x] => x
  | x :: y :: rest =>
    match x, infixJoin tok (y :: rest) with
    | some a, some b => some (a ++ tok :: b)
    | _, _ => none

/-- infix logic (in surface ids) of node `n`; `none`: recursion budget exhausted, `False`, an
    empty or singleton join, or a negation of anything but a surface (there is no `false` token
    and `lnot` only applies to a face: "negated joins are not supported by InfixEvaluator") -/
def infixOf (t : Tree) : Nat → Nat → Option (List Nat)
  | 0, _ => none
  | f + 1, n =>
    match t.get n with
    | .tru => some [ltrue]
    | .fls => none
    | .surface s => some [s]
    | .aliased a => infixOf t f a
    | .negated a =>
      match surfaceOf t f a with
      | some s => some [lnot, s]
      | none => none
    | .joined _ [] => none
    | .joined _ [_] => none
    | .joined op (x :: y :: ys) =>
      (infixJoin (opToken op) ((x :: y :: ys).map (infixOf t f))).map
        (fun body => lopen :: body ++ [lclose])

end CelerVerif.Csg
