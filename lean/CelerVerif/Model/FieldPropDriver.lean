/-
Line protocol for the field-propagation model at `Float` (C++ side: harness/fieldprop.cc).

  prop <step> <minSub> <deltaInt> <maxSub> <momentum> <gpos3> <gdir3> <onb> (D <sub> <pos3> <mom3> | G <b> <dist> | M <pos3>)*
        replay of ONE `FieldPropagator::operator()(step)` over the recorded driver answers (D),
        `find_next_step` answers (G) and the position after `move_to_boundary` (M); prints the
        trace of all calls with their arguments, the result and the final geometry state in the
        format of the harness
  drvseq <13 options> (A <step> <pos3> <mom3> | S <18 doubles>)*
        replay of a sequence of `FieldDriver::advance` calls on one driver object over the
        recorded stepper answers (S); prints `adv … st … => … -> …` (plus the diagnostic token
        `xc` before `->` when the chord finder ran out of `max_nsteps`; stripped before comparing)
  zhm <bz> <coeffi> <step> <pos3> <mom3>      ZHelixStepper closed form (18 doubles)
  rhsm <bx> <by> <bz> <coeffi> <pos3> <mom3>  MagFieldEquation (6 doubles)
  opts <13 options>                            ok 1 | invalid 0
  defaults                                     default options and the static constants
-/
import CelerVerif.Model.FieldProp
import CelerVerif.Num.F64
import CelerVerif.Model.Util

namespace CelerVerif.FieldProp
open CelerVerif.Util
open scoped CelerVerif.Num

def pf (s : String) : Option Float :=
  if s.length != 16 then none else (parseHex s).map fun n => Float.ofBits (UInt64.ofNat n)
def hx (x : Float) : String := Float.toHexBits x
def hv (v : Vec3 Float) : String := s!"{hx v.x} {hx v.y} {hx v.z}"
def hode (y : OdeState Float) : String := s!"{hv y.pos} {hv y.mom}"
def hb (b : Bool) : String := if b then "1" else "0"

def pv3 : List String → Option (Vec3 Float × List String)
  | a :: b :: c :: rest => do
    let x ← pf a; let y ← pf b; let z ← pf c
    pure (⟨x, y, z⟩, rest)
  | _ => none

def pode (ws : List String) : Option (OdeState Float × List String) := do
  let (p, r) ← pv3 ws
  let (m, r) ← pv3 r
  pure (⟨p, m⟩, r)

def pbool : String → Option Bool
  | "0" => some false | "1" => some true | _ => none

def pint (s : String) : Option Int :=
  match s.toList with
  | '-' :: ds => (String.ofList ds).toNat?.map fun n => -(Int.ofNat n)
  | _ => s.toNat?.map Int.ofNat

/-- default `FieldDriverOptions` (FieldDriverOptions.hh; CGS: millimeter = 0.1) -/
def Options.default : Options Float :=
  { minimumStep := (1.0e-5 : Float) * 0.1, deltaChord := (0.25 : Float) * 0.1,
    deltaIntersection := (1.0e-4 : Float) * 0.1, epsilonStep := 1.0e-5, epsilonRelMax := 1.0e-3,
    errcon := 1.0e-4, pgrow := -0.20, pshrink := -0.25, safety := 0.9,
    maxSteppingIncrease := 5, maxSteppingDecrease := 0.1, maxNsteps := 100, maxSubsteps := 10 }

def popts (ws : List String) : Option (Options Float × List String) :=
  match ws with
  | a :: b :: c :: d :: e :: f :: g :: h :: i :: j :: k :: n :: m :: rest => do
    let a ← pf a; let b ← pf b; let c ← pf c; let d ← pf d; let e ← pf e; let f ← pf f
    let g ← pf g; let h ← pf h; let i ← pf i; let j ← pf j; let k ← pf k
    let n ← pint n; let m ← pint m
    if n < -32768 || n > 32767 || m < -32768 || m > 32767 then none
    else pure (⟨a, b, c, d, e, f, g, h, i, j, k, n, m⟩, rest)
  | _ => none

/-- split `… T a b c T d e …` into `(T, [a, b, c]), (T, [d, e])`; tokens before the first tag are
    returned separately -/
def groups (isTag : String → Bool) (ws : List String) : List String × List (String × List String) :=
  ws.foldr (fun t (acc : List String × List (String × List String)) =>
    if isTag t then ([], (t, acc.1) :: acc.2) else (t :: acc.1, acc.2)) ([], [])

def pfs (ws : List String) : Option (List Float) := ws.mapM pf

def odeOf : List Float → Option (OdeState Float × List Float)
  | a :: b :: c :: d :: e :: f :: rest => some (⟨⟨a, b, c⟩, ⟨d, e, f⟩⟩, rest)
  | _ => none

/-! ### propagator replay -/

structure Queues where
  d : List (DriverResult Float) := []
  g : List (Linear Float) := []
  m : List (Vec3 Float) := []

def addAnswer (q : Queues) : String × List String → Option Queues
  | ("D", ws) => do
    match ← pfs ws with
    | [s, a, b, c, d, e, f] => pure { q with d := q.d ++ [⟨⟨⟨a, b, c⟩, ⟨d, e, f⟩⟩, s⟩] }
    | _ => none
  | ("G", [b, dd]) => do
    let b ← pbool b; let dd ← pf dd
    pure { q with g := q.g ++ [⟨b, dd⟩] }
  | ("M", ws) => do
    match ← pfs ws with
    | [a, b, c] => pure { q with m := q.m ++ [⟨a, b, c⟩] }
    | _ => none
  | _ => none

def showOp : GeoOp Float → String
  | .setDir d => s!" sd {hv d}"
  | .findNext m => s!" fns {hx m}"
  | .moveInternal p => s!" mi {hv p}"
  | .moveToBoundary p => s!" mtb -> {hv p}"

def showOps (ops : List (GeoOp Float)) : String := String.join (ops.map showOp)

/-- trace of one executed iteration, in call order -/
def showIter (c : Cfg Float) (it : Iter Float) : String :=
  s!" adv {hx it.pre.remaining} {hode it.pre.state} -> {hx it.ans.sub.step} {hode it.ans.sub.state}"
    ++ showOps (preOps c it.pre it.ans.sub)
    ++ s!" -> {hb it.ans.lin.boundary} {hx it.ans.lin.distance}"
    ++ showOps (body c it.pre it.ans).2

def replayProp (ws : List String) : String :=
  let (head, gs) := groups (fun t => t == "D" || t == "G" || t == "M") ws
  match head with
  | [step, minSub, deltaInt, maxSub, mom, px, py, pz, dx, dy, dz, onb] =>
    match pfs [step, minSub, deltaInt, mom, px, py, pz, dx, dy, dz], pint maxSub, pbool onb,
          gs.foldlM addAnswer ({} : Queues) with
    | some [step, minSub, deltaInt, mom, px, py, pz, dx, dy, dz], some maxSub, some onb, some q =>
      if q.d.length != q.g.length then "bad-op" else
      let c : Cfg Float := ⟨step, minSub, deltaInt, maxSub⟩
      let gpos : Vec3 Float := ⟨px, py, pz⟩
      let gdir : Vec3 Float := ⟨dx, dy, dz⟩
      let s0 := PState.init c mom gpos gdir onb
      let answers := (q.d.zip q.g).map fun (d, g) => (⟨d, g⟩ : Answer Float)
      let head := s!"B {hx step} p {hx mom} g0 {hv gpos} {hv gdir} onb {hb onb}"
      match loop c s0 answers with
      | none => head ++ " underflow"
      | some (its, f, left) =>
        let need := needsMtb c f
        match need, q.m with
        | true, [] => head ++ String.join (its.map (showIter c)) ++ " underflow-mtb"
        | _, _ =>
          let mtbPos := q.m.headD ⟨0, 0, 0⟩
          let (r, _, ops) := finish c f mtbPos
          let g := (Ghost.mk gpos gdir onb).run (iterOps c its ++ ops)
          let extra := left.length + (if need then q.m.length - 1 else q.m.length)
          head ++ String.join (its.map (showIter c)) ++ showOps ops
            ++ s!" res {hx r.distance} {hb r.boundary} {hb r.looping}"
            ++ s!" fin {hv g.pos} {hv g.dir} {hb g.onBoundary}"
            ++ (if extra != 0 then s!" leftover {extra}" else "")
    | _, _, _, _ => "bad-op"
  | _ => "bad-op"

/-! ### driver replay -/

/-- stepper state for the replay: recorded answers still unused, call log, underflow flag -/
structure Tape where
  answers : List (StepperResult Float)
  log : String := ""
  underflow : Bool := false
  lastH : Float := 0.0      -- step length of the most recent stepper call

def showSR (r : StepperResult Float) : String := s!"{hode r.mid} {hode r.fin} {hode r.err}"

def tapeStepper : Driver.Stepper Tape Float := fun t h y =>
  match t.answers with
  | r :: rest =>
    let lg := t.log ++ s!" st {hx h} {hode y} => {showSR r}"
    (r, { t with answers := rest, lastH := h, log := lg })
  | [] =>
    let lg := t.log ++ s!" st {hx h} {hode y} => ?"
    (default, { t with underflow := true, lastH := h, log := lg })

/-- diagnostic (not part of the compared trace): did `find_next_chord` leave its loop with
    `max_nsteps` spent, i.e. is the step it reports not the step of its last trial? -/
def chordExhausted (o : Options Float) (maxChord : Option Float) (step : Float) (y : OdeState Float)
    (srs : List (StepperResult Float)) : Bool :=
  if step <= o.minimumStep then false else
  let trial := match maxChord with
    | none => step
    | some m => fmin step m
  let (out, t) := Driver.findNextChord o tapeStepper trial y ⟨srs, "", false, 0.0⟩
  out.fin.step != t.lastH

def srOf : List Float → Option (StepperResult Float)
  | [a1, a2, a3, a4, a5, a6, b1, b2, b3, b4, b5, b6, c1, c2, c3, c4, c5, c6] =>
    some ⟨⟨⟨a1, a2, a3⟩, ⟨a4, a5, a6⟩⟩, ⟨⟨b1, b2, b3⟩, ⟨b4, b5, b6⟩⟩, ⟨⟨c1, c2, c3⟩, ⟨c4, c5, c6⟩⟩⟩
  | _ => none

/-- group `(A …)(S …)(S …)(A …)…` into advance calls with their stepper answers -/
def addCall (acc : List ((Float × OdeState Float) × List (StepperResult Float))) :
    String × List String → Option (List ((Float × OdeState Float) × List (StepperResult Float)))
  | ("A", ws) => do
    match ← pfs ws with
    | [s, a, b, c, d, e, f] => pure (acc ++ [((s, ⟨⟨a, b, c⟩, ⟨d, e, f⟩⟩), [])])
    | _ => none
  | ("S", ws) => do
    let r ← srOf (← pfs ws)
    match acc.getLast? with
    | some (call, srs) => pure (acc.dropLast ++ [(call, srs ++ [r])])
    | none => none
  | _ => none

def collectCalls (gs : List (String × List String)) :
    Option (List ((Float × OdeState Float) × List (StepperResult Float))) :=
  gs.foldlM addCall []

def replayDrv (ws : List String) : String :=
  match popts ws with
  | none => "bad-op"
  | some (o, rest) =>
    let (head, gs) := groups (fun t => t == "A" || t == "S") rest
    if !head.isEmpty then "bad-op" else
    match collectCalls gs with
    | none => "bad-op"
    | some calls =>
      let (out, _) := calls.foldl (fun (acc : String × Option Float) call =>
        let ((step, y), srs) := call
        let (r, mc, t) := Driver.advance o tapeStepper acc.2 step y ⟨srs, "", false, 0.0⟩
        (acc.1 ++ s!" adv {hx step} {hode y}" ++ t.log
          ++ (if chordExhausted o acc.2 step y srs then " xc" else "")
          ++ s!" -> {hx r.step} {hode r.state}"
          ++ (if t.underflow then " underflow" else "")
          ++ (if !t.answers.isEmpty then s!" leftover {t.answers.length}" else ""), mc))
        ("", none)
      (out.drop 1).toString

/-! ### protocol -/

def driverStep (st : Unit) (line : String) : Unit × String :=
  (st, match words line with
  | "prop" :: rest => replayProp rest
  | "drvseq" :: rest => replayDrv rest
  | "zhm" :: rest =>
    (match pfs rest with
     | some [bz, k, h, a, b, c, d, e, f] =>
       if h > 0 then showSR (zhelixStep k bz h ⟨⟨a, b, c⟩, ⟨d, e, f⟩⟩) else "bad-op"
     | _ => "bad-op")
  | "rhsm" :: rest =>
    (match pfs rest with
     | some [bx, by', bz, k, a, b, c, d, e, f] =>
       hode (lorentzRhs k ⟨bx, by', bz⟩ ⟨⟨a, b, c⟩, ⟨d, e, f⟩⟩)
     | _ => "bad-op")
  | "opts" :: rest =>
    (match popts rest with
     | some (o, []) => if o.valid then "ok 1" else "invalid 0"
     | _ => "bad-op")
  | ["defaults"] =>
    let o := Options.default
    String.intercalate " " ([o.minimumStep, o.deltaChord, o.deltaIntersection, o.epsilonStep,
      o.epsilonRelMax, o.errcon, o.pgrow, o.pshrink, o.safety, o.maxSteppingIncrease,
      o.maxSteppingDecrease].map hx ++ [toString o.maxNsteps, toString o.maxSubsteps]
      ++ [(initialStepTol : Float), dchordTol, minChordShrink].map hx)
  | _ => "bad-op")

end CelerVerif.FieldProp
