/-
Executable model (generic in `Num α`) of ORANGE surface primitives:
  src/orange/surf/detail/QuadraticSolver.hh, PlaneAligned.hh, Plane.hh, CylCentered.hh,
  CylAligned.hh, SphereCentered.hh, Sphere.hh, ConeAligned.hh, SimpleQuadric.hh,
  GeneralQuadric.hh, OrangeTypes.hh (`real_to_sense`), corecel/math/ArrayUtils.hh,
  orange/MatrixUtils.hh (`gemv`), transform/Translation.hh, transform/Transformation.hh,
  surf/detail/SurfaceTranslator.cc.
Expression trees (association, fma placement) follow the C++ exactly so that the `Float`
instance is bit-identical.  `no_intersection()` (+∞ sentinel) is `none`.
-/
import CelerVerif.Num.Basic

namespace CelerVerif.Surf
open CelerVerif
open scoped CelerVerif.Num

variable {α : Type} [Num α]

inductive Axis | x | y | z
deriving DecidableEq, Repr, Inhabited

def Axis.toNat : Axis → Nat | .x => 0 | .y => 1 | .z => 2
/-- `U{T == x ? y : x}` -/
def Axis.U : Axis → Axis | .x => .y | _ => .x
/-- `V{T == z ? y : z}` -/
def Axis.V : Axis → Axis | .z => .y | _ => .z

def _root_.CelerVerif.Vec3.ax (v : Vec3 α) (a : Axis) : α := v.get a.toNat

/-- `SignedSense` : inside = -1, on = 0, outside = 1 -/
inductive SignedSense | inside | on | outside
deriving DecidableEq, Repr, Inhabited

/-- `real_to_sense(q) = SignedSense(!(q <= 0) - (q < 0))` (NaN ⇒ outside) -/
def realToSense (q : α) : SignedSense :=
  let pos := !(Num.le q (0 : α))
  let neg := Num.lt q (0 : α)
  match pos, neg with
  | true, false => .outside
  | false, true => .inside
  | _, _ => .on       -- (false,false) → 0; (true,true) cannot happen for IEEE, gives 0 as 1-1

/-- `Tolerance<>::sqrt_quadratic()` for double -/
def sqrtQuadratic : α := 1e-5
/-- `QuadraticSolver::min_a()` = ipow<2>(sqrt_quadratic) -/
def minA : α := Num.sq (sqrtQuadratic : α)

/-- two-slot intersection result; `none` = `no_intersection()` -/
abbrev Isect2 (α : Type) := Option α × Option α

/-- `QuadraticSolver(a, half_b)` : stores `a_inv_ = 1/a`, `hba_ = half_b * a_inv_` -/
structure QSolver (α : Type) where
  aInv : α
  hba : α

def QSolver.mk' (a halfB : α) : QSolver α :=
  let aInv := (1 : α) / a
  ⟨aInv, halfB * aInv⟩

/-- `QuadraticSolver::operator()(c)` -/
def QSolver.solve (s : QSolver α) (c : α) : Isect2 α :=
  let c := c * s.aInv
  let b24 := Num.sq s.hba
  if Num.gt b24 c then
    let t2 := Num.sqrt (b24 - c)
    let r0 := -s.hba - t2
    let r1 := -s.hba + t2
    if Num.le r1 (0 : α) then (none, none)
    else if Num.le r0 (0 : α) then (none, some r1)
    else (some r0, some r1)
  else if Num.eq b24 c then
    let r0 := -s.hba
    if Num.le r0 (0 : α) then (none, none) else (some r0, none)
  else (none, none)

/-- `QuadraticSolver::operator()()` (known on surface) -/
def QSolver.solveOn (s : QSolver α) : Isect2 α :=
  let r0 := (-(2 : α)) * s.hba
  if Num.le r0 (0 : α) then (none, none) else (some r0, none)

/-- `QuadraticSolver::solve_along_surface(half_b, c)` -/
def solveAlongSurface (halfB c : α) : Isect2 α :=
  if Num.gt (Num.abs halfB) (minA : α) then
    let r0 := -c / ((2 : α) * halfB)
    if Num.lt r0 (0 : α) then (none, none) else (some r0, none)
  else (none, none)

/-- `QuadraticSolver::solve_general(a, half_b, c, on_surface)` -/
def solveGeneral (a halfB c : α) (onSurface : Bool) : Isect2 α :=
  if Num.ge (Num.abs a) (minA : α) then
    let s := QSolver.mk' a halfB
    if onSurface then s.solveOn else s.solve c
  else if !onSurface then solveAlongSurface halfB c
  else (none, none)

/-! ### surfaces -/

inductive Surface (α : Type) where
  | planeAligned (t : Axis) (position : α)
  | plane (normal : Vec3 α) (d : α)
  | cylCentered (t : Axis) (radiusSq : α)
  | cylAligned (t : Axis) (originU originV radiusSq : α)
  | sphereCentered (radiusSq : α)
  | sphere (origin : Vec3 α) (radiusSq : α)
  | coneAligned (t : Axis) (origin : Vec3 α) (tsq : α)
  | simpleQuadric (a b c d e f g : α)
  | generalQuadric (a b c d e f g h i j : α)
deriving Repr, Inhabited

/-- the quadric expression whose sign is the sense (exactly as each `calc_sense` evaluates it) -/
def Surface.quadric (s : Surface α) (pos : Vec3 α) : α :=
  match s with
  | .planeAligned t p => pos.ax t - p
  | .plane n d => Vec3.dot n pos - d
  | .cylCentered t r2 =>
    let u := pos.ax t.U; let v := pos.ax t.V
    Num.sq u + Num.sq v - r2
  | .cylAligned t ou ov r2 =>
    let u := pos.ax t.U - ou; let v := pos.ax t.V - ov
    Num.sq u + Num.sq v - r2
  | .sphereCentered r2 => Vec3.dot pos pos - r2
  | .sphere o r2 =>
    let tp : Vec3 α := ⟨pos.x - o.x, pos.y - o.y, pos.z - o.z⟩
    Vec3.dot tp tp - r2
  | .coneAligned t o tsq =>
    let x := pos.ax t - o.ax t; let y := pos.ax t.U - o.ax t.U; let z := pos.ax t.V - o.ax t.V
    ((-tsq) * Num.sq x) + Num.sq y + Num.sq z
  | .simpleQuadric a b c d e f g =>
    let x := pos.x; let y := pos.y; let z := pos.z
    (a * Num.sq x + b * Num.sq y + c * Num.sq z) + (d * x + e * y + f * z) + g
  | .generalQuadric a b c d e f g h i j =>
    let x := pos.x; let y := pos.y; let z := pos.z
    (a * x + d * y + f * z + g) * x + (b * y + e * z + h) * y + (c * z + i) * z + j

/-- `calc_sense` -/
def Surface.calcSense (s : Surface α) (pos : Vec3 α) : SignedSense := realToSense (s.quadric pos)

def planeIsect (nDir : α) (onSurface : Bool) (num : Unit → α) : Isect2 α :=
  if !onSurface && Num.ne nDir (0 : α) then
    let dist := num () / nDir
    if Num.gt dist (0 : α) then (some dist, none) else (none, none)
  else (none, none)

/-- `calc_intersections(pos, dir, on_surface)`; planes have one slot (second is `none`) -/
def Surface.calcIntersections (s : Surface α) (pos dir : Vec3 α) (onSurface : Bool) : Isect2 α :=
  match s with
  | .planeAligned t p =>
    planeIsect (dir.ax t) onSurface (fun _ => p - pos.ax t)
  | .plane n d =>
    planeIsect (Vec3.dot n dir) onSurface (fun _ => d - Vec3.dot n pos)
  | .cylCentered t r2 =>
    let a := (1 : α) - Num.sq (dir.ax t)
    if Num.lt a (Num.sq (sqrtQuadratic : α)) then (none, none)
    else
      let u := pos.ax t.U; let v := pos.ax t.V
      let sv := QSolver.mk' a (dir.ax t.U * u + dir.ax t.V * v)
      if onSurface then sv.solveOn else sv.solve (Num.sq u + Num.sq v - r2)
  | .cylAligned t ou ov r2 =>
    let a := (1 : α) - Num.sq (dir.ax t)
    if Num.lt a (Num.sq (sqrtQuadratic : α)) then (none, none)
    else
      let u := pos.ax t.U - ou; let v := pos.ax t.V - ov
      let sv := QSolver.mk' a (dir.ax t.U * u + dir.ax t.V * v)
      if onSurface then sv.solveOn else sv.solve (Num.sq u + Num.sq v - r2)
  | .sphereCentered r2 =>
    let sv := QSolver.mk' (1 : α) (Vec3.dot pos dir)
    if !onSurface then sv.solve (Vec3.dot pos pos - r2) else sv.solveOn
  | .sphere o r2 =>
    let tp : Vec3 α := ⟨pos.x - o.x, pos.y - o.y, pos.z - o.z⟩
    let sv := QSolver.mk' (1 : α) (Vec3.dot tp dir)
    if !onSurface then sv.solve (Vec3.dot tp tp - r2) else sv.solveOn
  | .coneAligned t o tsq =>
    let x := pos.ax t - o.ax t; let y := pos.ax t.U - o.ax t.U; let z := pos.ax t.V - o.ax t.V
    let u := dir.ax t; let v := dir.ax t.U; let w := dir.ax t.V
    let a := ((-tsq) * Num.sq u) + Num.sq v + Num.sq w
    let halfB := ((-tsq) * x * u) + (y * v) + (z * w)
    let c := ((-tsq) * Num.sq x) + Num.sq y + Num.sq z
    solveGeneral a halfB c onSurface
  | .simpleQuadric a b c d e f g =>
    let x := pos.x; let y := pos.y; let z := pos.z
    let u := dir.x; let v := dir.y; let w := dir.z
    let qa := (a * u) * u + (b * v) * v + (c * w) * w
    let qb := ((2 : α) * a * x + d) * u + ((2 : α) * b * y + e) * v + ((2 : α) * c * z + f) * w
    let qc := (a * x + d) * x + (b * y + e) * y + (c * z + f) * z + g
    solveGeneral qa (qb / (2 : α)) qc onSurface
  | .generalQuadric a b c d e f g h i j =>
    let x := pos.x; let y := pos.y; let z := pos.z
    let u := dir.x; let v := dir.y; let w := dir.z
    let qa := (a * u + d * v) * u + (b * v + e * w) * v + (c * w + f * u) * w
    let qb := ((2 : α) * a * x + d * y + f * z + g) * u
              + ((2 : α) * b * y + d * x + e * z + h) * v
              + ((2 : α) * c * z + e * y + f * x + i) * w
    let qc := ((a * x + d * y + g) * x + (b * y + e * z + h) * y + (c * z + f * x + i) * z + j)
    solveGeneral qa (qb / (2 : α)) qc onSurface

/-- `make_unit_vector(v)`: scale by `1 / norm(v)` -/
def makeUnit (v : Vec3 α) : Vec3 α :=
  let s := (1 : α) / Vec3.norm v
  ⟨v.x * s, v.y * s, v.z * s⟩

/-- unnormalised outward gradient direction used by each `calc_normal` -/
def Surface.gradient (s : Surface α) (pos : Vec3 α) : Vec3 α :=
  match s with
  | .planeAligned t _ => (⟨0, 0, 0⟩ : Vec3 α).set t.toNat (1 : α)
  | .plane n _ => n
  | .cylCentered t _ =>
    ((⟨0, 0, 0⟩ : Vec3 α).set t.U.toNat (pos.ax t.U)).set t.V.toNat (pos.ax t.V)
  | .cylAligned t ou ov _ =>
    ((⟨0, 0, 0⟩ : Vec3 α).set t.U.toNat (pos.ax t.U - ou)).set t.V.toNat (pos.ax t.V - ov)
  | .sphereCentered _ => pos
  | .sphere o _ => ⟨pos.x - o.x, pos.y - o.y, pos.z - o.z⟩
  | .coneAligned t o tsq =>
    let n : Vec3 α := ⟨pos.x - o.x, pos.y - o.y, pos.z - o.z⟩
    n.set t.toNat (n.ax t * (-tsq))
  | .simpleQuadric a b c d e f _ =>
    ⟨(2 : α) * a * pos.x + d, (2 : α) * b * pos.y + e, (2 : α) * c * pos.z + f⟩
  | .generalQuadric a b c d e f g h i _ =>
    let x := pos.x; let y := pos.y; let z := pos.z
    ⟨(2 : α) * a * x + d * y + f * z + g, (2 : α) * b * y + d * x + e * z + h,
     (2 : α) * c * z + e * y + f * x + i⟩

/-- `calc_normal(pos)` (planes return their stored normal without renormalising) -/
def Surface.calcNormal (s : Surface α) (pos : Vec3 α) : Vec3 α :=
  match s with
  | .planeAligned .. => s.gradient pos
  | .plane .. => s.gradient pos
  | _ => makeUnit (s.gradient pos)

/-! ### transforms -/

/-- 3×3 row-major matrix `SquareMatrix<real_type,3>` -/
structure Mat3 (α : Type) where
  r0 : Vec3 α
  r1 : Vec3 α
  r2 : Vec3 α
deriving Repr, Inhabited

def Mat3.row (m : Mat3 α) : Nat → Vec3 α | 0 => m.r0 | 1 => m.r1 | _ => m.r2

/-- `gemv(alpha, a, x, beta, y)` -/
def gemv (alpha : α) (a : Mat3 α) (x : Vec3 α) (beta : α) (y : Vec3 α) : Vec3 α :=
  let rowv (i : Nat) : α :=
    let r := a.row i
    let acc := beta * y.get i
    let acc := Num.fma alpha (r.x * x.x) acc
    let acc := Num.fma alpha (r.y * x.y) acc
    Num.fma alpha (r.z * x.z) acc
  ⟨rowv 0, rowv 1, rowv 2⟩

/-- `gemv(matrix::transpose, alpha, a, x, beta, y)`: loop order j outer, i inner -/
def gemvT (alpha : α) (a : Mat3 α) (x : Vec3 α) (beta : α) (y : Vec3 α) : Vec3 α :=
  let colv (i : Nat) : α :=
    let acc := beta * y.get i
    let acc := Num.fma alpha ((a.row 0).get i * x.x) acc
    let acc := Num.fma alpha ((a.row 1).get i * x.y) acc
    Num.fma alpha ((a.row 2).get i * x.z) acc
  ⟨colv 0, colv 1, colv 2⟩

/-- `Translation` -/
def translateUp (tra pos : Vec3 α) : Vec3 α := Vec3.add pos tra
def translateDown (tra pos : Vec3 α) : Vec3 α := Vec3.sub pos tra

/-- `Transformation{rot, tra}` -/
structure Transformation (α : Type) where
  rot : Mat3 α
  tra : Vec3 α
deriving Repr, Inhabited

def Transformation.up (t : Transformation α) (pos : Vec3 α) : Vec3 α :=
  gemv (1 : α) t.rot pos (1 : α) t.tra
def Transformation.down (t : Transformation α) (pos : Vec3 α) : Vec3 α :=
  let d := Vec3.sub pos t.tra
  gemvT (1 : α) t.rot d (0 : α) d
def Transformation.rotUp (t : Transformation α) (d : Vec3 α) : Vec3 α :=
  gemv (1 : α) t.rot d (0 : α) d
def Transformation.rotDown (t : Transformation α) (d : Vec3 α) : Vec3 α :=
  gemvT (1 : α) t.rot d (0 : α) d

/-- `SurfaceTranslator{Translation{tra}}(surface)` -/
def Surface.translate (tra : Vec3 α) (s : Surface α) : Surface α :=
  match s with
  | .planeAligned t p => .planeAligned t (p + tra.ax t)
  | .cylCentered t r2 =>
    -- CylAligned{other}: origin (0,0), then translated
    let o := translateUp tra (⟨0, 0, 0⟩ : Vec3 α)
    .cylAligned t (o.ax t.U) (o.ax t.V) r2
  | .sphereCentered r2 => .sphere (translateUp tra (⟨0, 0, 0⟩ : Vec3 α)) r2
  | .cylAligned t ou ov r2 =>
    -- calc_origin(): zero along T
    let o0 : Vec3 α := (((⟨0, 0, 0⟩ : Vec3 α).set t.U.toNat ou).set t.V.toNat ov)
    let o := translateUp tra o0
    .cylAligned t (o.ax t.U) (o.ax t.V) r2
  | .plane n d => .plane n (d + Vec3.dot tra n)
  | .sphere o r2 => .sphere (translateUp tra o) r2
  | .coneAligned t o tsq => .coneAligned t (translateUp tra o) tsq
  | .simpleQuadric a b c d e f g =>
    let step (sec fst0 fst zer o : α) : α × α :=
      (fst - (2 : α) * sec * o, zer + (sec * Num.sq o - fst0 * o))
    let (d', g1) := step a d d g tra.x
    let (e', g2) := step b e e g1 tra.y
    let (f', g3) := step c f f g2 tra.z
    .simpleQuadric a b c d' e' f' g3
  | .generalQuadric a b c d e f g h i j =>
    let two : α := 2
    let cr : Vec3 α := ⟨d / two, e / two, f / two⟩          -- cross / 2
    let fi : Vec3 α := ⟨g / two, h / two, i / two⟩          -- first / 2
    let nonl : Mat3 α := ⟨⟨a, cr.x, cr.z⟩, ⟨cr.x, b, cr.y⟩, ⟨cr.z, cr.y, c⟩⟩
    let nf := gemv (-(1 : α)) nonl tra (1 : α) fi
    let nz := j - Vec3.dot tra (Vec3.add nf fi)
    .generalQuadric a b c d e f (two * nf.x) (two * nf.y) (two * nf.z) nz

end CelerVerif.Surf
