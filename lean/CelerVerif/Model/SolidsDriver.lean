/- Line protocol for the solids model at `Float` (C++ side: harness/solids.cc). -/
import CelerVerif.Model.Solids
import CelerVerif.Model.SurfDriver

namespace CelerVerif.Solids
open CelerVerif CelerVerif.Surf CelerVerif.Util

def senseCh : Sense → String | .inside => "-" | .outside => "+"

def hxExt : Ext Float → String
  | .ninf => "fff0000000000000"
  | .pinf => "7ff0000000000000"
  | .fin a => if a != a then "nan" else hx (a + 0.0)
  | .nan => "nan"

def showBox (b : BBox Float) : String :=
  s!"{hxExt b.lo.x} {hxExt b.lo.y} {hxExt b.lo.z} {hxExt b.hi.x} {hxExt b.hi.y} {hxExt b.hi.z}"

def showZone (z : Zone Float) : String := s!"{showBox z.interior} {showBox z.exterior}"

/-- 16-hex-digit words only -/
def pf16 (s : String) : Option Float := if s.length == 16 then pf s else none
def pfs16 (ws : List String) : Option (List Float) := ws.mapM pf16

def parseNat (s : String) : Option Nat :=
  if s.isEmpty || s.length > 4 then none
  else if s.all Char.isDigit then s.toNat? else none

/-- region from words; `none` = malformed -/
def parseRegion : List String → Option (Region Float)
  | "box" :: ws => match pfs16 ws with
    | some [a, b, c] => some (.box ⟨a, b, c⟩) | _ => none
  | "sphere" :: ws => match pfs16 ws with
    | some [r] => some (.sphere r) | _ => none
  | "cyl" :: ws => match pfs16 ws with
    | some [r, h] => some (.cyl r h) | _ => none
  | "cone" :: ws => match pfs16 ws with
    | some [a, b, h] => some (.cone a b h) | _ => none
  | "ellipsoid" :: ws => match pfs16 ws with
    | some [a, b, c] => some (.ellipsoid ⟨a, b, c⟩) | _ => none
  | "prism" :: n :: ws => match parseNat n, pfs16 ws with
    | some n, some [a, h, o] => some (.prism n a h o) | _, _ => none
  | "ppiped" :: ws => match pfs16 ws with
    | some [a, b, c, _, _, _, sa, ca, st, ct, sp, cp] => some (.ppiped ⟨a, b, c⟩ sa ca st ct sp cp)
    | _ => none
  | "wedge" :: ws => match pfs16 ws with
    | some [_, _, ss, cs, se, ce] => some (.wedge ss cs se ce) | _ => none
  | _ => none

def pairs : List Float → List (P2 Float)
  | x :: y :: rest => (x, y) :: pairs rest
  | _ => []

/-- `genprism hz <n> lo(x y)*n hi(x y)*n`: `some none` = the constructor throws -/
def parseGenPrism : List String → Option (Option (Region Float))
  | "genprism" :: hz :: n :: ws =>
    match pf16 hz, parseNat n, pfs16 ws with
    | some hz, some n, some d =>
      if n < 1 || n > 16 || d.length != 4 * n then none
      else
        let lo := pairs (d.take (2 * n)); let hi := pairs (d.drop (2 * n))
        some ((genPrismNormalize hz lo hi).map fun (l, h, dg) => .genprism hz l h dg)
    | _, _, _ => none
  | _ => none

/-- angle-range validation of the constructors whose sin/cos are oracle inputs -/
def anglesValid : List String → Bool
  | "ppiped" :: ws => match pfs16 ws with
    | some [_, _, _, al, th, ph, _, _, _, _, _, _] =>
      al > -0.25 && al < 0.25 && th >= 0.0 && th < 0.25 && ph >= 0.0 && ph < 1.0
    | _ => true
  | "wedge" :: ws => match pfs16 ws with
    | some [s, i, _, _, _, _] => s >= 0.0 && s < 1.0 && i > 0.0 && i <= 0.5
    | _ => true
  | _ => true

/-- region or validation failure -/
def parseRegionV (ws : List String) : Option (Option (Region Float)) :=
  match ws with
  | "genprism" :: _ => parseGenPrism ws
  | _ => (parseRegion ws).map fun r => if r.valid && anglesValid ws then some r else none

/-- `(n | t x y z | x r00 … r22 tx ty tz) rest…` -/
def parseXf : List String → Option (Xform Float × List String)
  | "n" :: rest => some (.none, rest)
  | "t" :: x :: y :: z :: rest => match pfs16 [x, y, z] with
    | some [x, y, z] => some (.tra ⟨x, y, z⟩, rest)
    | _ => none
  | "x" :: rest => match pfs16 (rest.take 12) with
    | some [a, b, c, d, e, f, g, h, i, x, y, z] =>
      some (.full ⟨⟨⟨a, b, c⟩, ⟨d, e, f⟩, ⟨g, h, i⟩⟩, ⟨x, y, z⟩⟩, rest.drop 12)
    | _ => none
  | _ => none

def splitAt (sep : String) (ws : List String) : List String × List String :=
  (ws.takeWhile (· ≠ sep), (ws.dropWhile (· ≠ sep)).drop 1)

partial def splitGroups (ws : List String) : List (List String) :=
  let (g, rest) := (ws.takeWhile (· ≠ "/"), ws.dropWhile (· ≠ "/"))
  match rest with
  | [] => [g]
  | _ :: rest' => g :: splitGroups rest'

def showNodes (st : BState Float) : String :=
  let nodes := st.nodes.map fun (s, id) =>
    s!" ; {senseCh s} {id} {showSurface (st.store.surfaces.getD id (.sphereCentered 0.0))}"
  s!"nodes {st.nodes.length}{String.join nodes}"

/-- `<tol> (n | t x y z | x r00 … r22 tx ty tz) rest…` -/
def parseHead : List String → Option (Tol Float × Xform Float × List String)
  | t :: "n" :: rest => match pf16 t with
    | some tol => if tol > 0.0 && tol < 1.0 then some (Tol.fromRelative tol, .none, rest) else none
    | none => none
  | t :: "t" :: x :: y :: z :: rest => match pf16 t, pfs16 [x, y, z] with
    | some tol, some [x, y, z] =>
      if tol > 0.0 && tol < 1.0 then some (Tol.fromRelative tol, .tra ⟨x, y, z⟩, rest) else none
    | _, _ => none
  | t :: "x" :: rest => match pf16 t, pfs16 (rest.take 12) with
    | some tol, some [a, b, c, d, e, f, g, h, i, x, y, z] =>
      if tol > 0.0 && tol < 1.0 then
        some (Tol.fromRelative tol, .full ⟨⟨⟨a, b, c⟩, ⟨d, e, f⟩, ⟨g, h, i⟩⟩, ⟨x, y, z⟩⟩, rest.drop 12)
      else none
    | _, _ => none
  | _ => none

def showBuild (tra : Xform Float) (st : BState Float) : String :=
  if st.diverged then "diverged" else
  let nodes := st.nodes.map fun (s, id) =>
    s!" ; {senseCh s} {id} {showSurface (st.store.surfaces.getD id (.sphereCentered 0.0))}"
  let surfs := st.store.surfaces.map fun s => s!" ; {showSurface s}"
  s!"ok nodes {st.nodes.length}{String.join nodes} | surfs {st.store.surfaces.length}{String.join surfs}"
    ++ s!" | L {showZone st.loc} G {showZone st.glob} M {showZone (st.merged tra)}"

def flipSS : SignedSense → SignedSense
  | .inside => .outside | .outside => .inside | .on => .on

/-- `SenseEvaluator` on `all(nodes)`: first literal whose value is not "inside" decides -/
def memberChar (st : BState Float) (p : Vec3 Float) : Char :=
  let rec go : List (Sense × Nat) → Char
    | [] => 'i'
    | (s, id) :: rest =>
      let cs := (st.store.surfaces.getD id (.sphereCentered 0.0)).calcSense p
      let v := match s with | .inside => cs | .outside => flipSS cs
      match v with
      | .inside => go rest
      | .outside => 'o'
      | .on => 's'
  go st.nodes

def pts3 : List Float → Option (List (Vec3 Float))
  | [] => some []
  | x :: y :: z :: rest => (pts3 rest).map fun l => ⟨x, y, z⟩ :: l
  | _ => none

def senseOfStr : String → Option Sense
  | "+" => some .outside | "-" => some .inside | _ => none

def driverStep (st : Unit) (line : String) : Unit × String :=
  (st, match words line with
  | "simplify" :: t :: ss :: tag :: ds =>
    (match pf16 t, senseOfStr ss, pfs16 ds with
     | some tol, some sense, some d =>
       if !(tol > 0.0 && tol < 1.0) then "bad-op" else
       match parseSurface tag d with
       | some s =>
         (match simplify tol simplifyFuel sense s with
          | some (fs, fsurf) => s!"{senseCh fs} {showSurface fsurf}"
          | none => "diverged")
       | none => "bad-op"
     | _, _, _ => "bad-op")
  -- `xform <surface> | r00 … r22 tx ty tz` : SurfaceTransformer
  | "xform" :: rest => withSurface rest fun s a =>
      match a with
      | [a, b, c, d, e, f, g, h, i, x, y, z] =>
        showSurface (s.transform ⟨⟨⟨a, b, c⟩, ⟨d, e, f⟩, ⟨g, h, i⟩⟩, ⟨x, y, z⟩⟩)
      | _ => "bad-op"
  -- `softeq <rel> <abs> <surfA> | <surfB>` : SoftSurfaceEqual / ExactSurfaceEqual
  | "softeq" :: r :: a :: rest =>
    (match pf16 r, pf16 a with
     | some rel, some abs =>
       if !(rel > 0.0 && abs > 0.0) then "bad-op" else
       let (l, rr) := splitBar rest
       (match l, rr with
        | ta :: da, tb :: db =>
          (match pfs16 da, pfs16 db with
           | some da, some db =>
             (match parseSurface ta da, parseSurface tb db with
              | some sa, some sb =>
                let soft := softEq ⟨rel, abs⟩ sa sb
                let ex := exactEq sa sb
                s!"{if soft then 1 else 0} {if ex then 1 else 0}"
              | _, _ => "bad-op")
           | _, _ => "bad-op")
        | _, _ => "bad-op")
     | _, _ => "bad-op")
  -- `build2 <tol> <xf1> <region1> / <xf2> <region2> [/ …]` : two or more objects of ONE unit
  | "build2" :: t :: rest =>
    (match pf16 t with
     | some tolv =>
       if !(tolv > 0.0 && tolv < 1.0) || !rest.contains "/" then "bad-op" else
       let tol := Tol.fromRelative tolv
       let groups := splitGroups rest
       if groups.length < 2 || groups.length > 24 then "bad-op" else
       let parsed := groups.map fun g =>
         match parseXf g with
         | some (x, rw) => (parseRegionV rw).map fun r => (x, r)
         | none => none
       if parsed.any (·.isNone) then "bad-op"
       else if parsed.any (fun q => match q with | some (_, none) => true | _ => false) then "err validate"
       else
         let step (acc : SurfStore Float × String × Bool) (q : Option (Xform Float × Option (Region Float))) :
             SurfStore Float × String × Bool :=
           match q with
           | some (x, some r) =>
             let st := r.buildIn acc.1 tol x
             (st.store, acc.2.1 ++ s!" {showNodes st} |", acc.2.2 || st.diverged)
           | _ => acc
         let (store, txt, dv) := parsed.foldl step (⟨[], []⟩, "ok", false)
         if dv then "diverged" else
         let surfs := store.surfaces.map fun s => s!" ; {showSurface s}"
         s!"{txt} surfs {store.surfaces.length}{String.join surfs}"
     | none => "bad-op")
  -- `emit <tol> <xf> <region>` (model only): the emitted surfaces after the transform, BEFORE
  -- simplification and de-duplication
  | "emit" :: rest =>
    (match parseHead rest with
     | some (tol, tra, rw) =>
       (match parseRegionV rw with
        | some (some r) =>
          let l := (r.emit tol).map fun q => s!" ; {senseCh q.1} {showSurface (tra.applySurf q.2)}"
          s!"ok {l.length}{String.join l}"
        | some none => "err validate"
        | none => "bad-op")
     | none => "bad-op")
  | "build" :: rest =>
    (match parseHead rest with
     | some (tol, tra, rw) =>
       (match parseRegionV rw with
        | some (some r) => showBuild tra (r.build tol tra)
        | some none => "err validate"
        | none => "bad-op")
     | none => "bad-op")
  | "member" :: rest =>
    (match parseHead rest with
     | some (tol, tra, rw) =>
       let (rws, pws) := splitBar rw
       if !rw.contains "|" then "bad-op" else
       (match parseRegionV rws, (pfs16 pws).bind pts3 with
        | some (some r), some pts =>
          let b := r.build tol tra
          if b.diverged then "diverged"
          else "ok " ++ String.ofList (pts.map (memberChar b))
        | some none, some _ => "err validate"
        | _, _ => "bad-op")
     | none => "bad-op")
  -- SPEC membership (model only): `spec <region> | pts` -> 1/0 per point
  | "spec" :: rest =>
    let (rws, pws) := splitBar rest
    (match parseRegionV rws, (pfs16 pws).bind pts3 with
     | some (some r), some pts =>
       "ok " ++ String.ofList (pts.map fun p => if r.mem p then '1' else '0')
     | some none, some _ => "err validate"
     | _, _ => "bad-op")
  | _ => "bad-op")

end CelerVerif.Solids
