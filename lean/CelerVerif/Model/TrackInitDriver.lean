/- Line protocol for the track-initialisation model (C++ side: harness/trackinit.cc).
   All numbers decimal.  The driver also carries the model of the secondary StackAllocator so
   that a starved stack turns a scripted interaction into a *failed* one (C16). -/
import CelerVerif.Model.TrackInitAlloc
import CelerVerif.Model.Util

namespace CelerVerif.TrackInit
open CelerVerif.Util

structure DState where
  ready : Bool
  poisoned : Bool
  st : State
  stack : CelerVerif.Stack.Stack

def DState.init : DState := ⟨false, false, State.init ⟨1, 1, 1, .none⟩, CelerVerif.Stack.Stack.new 0⟩

def parseDec (s : String) : Option Nat :=
  if s.isEmpty ∨ s.length > 9 then none
  else s.toList.foldl (fun acc c => match acc with
    | some a => if '0' ≤ c ∧ c ≤ '9' then some (a * 10 + (c.toNat - '0'.toNat)) else none
    | none => none) (some 0)

/-- decimal with up to 10 digits (event ids far beyond `max_events`) -/
def parseDec10 (s : String) : Option Nat :=
  if s.isEmpty ∨ s.length > 10 then none
  else s.toList.foldl (fun acc c => match acc with
    | some a => if '0' ≤ c ∧ c ≤ '9' then some (a * 10 + (c.toNat - '0'.toNat)) else none
    | none => none) (some 0)

def parseAllDec10 (ws : List String) : Option (List Nat) :=
  ws.foldr (fun w acc => match parseDec10 w, acc with
    | some v, some l => some (v :: l)
    | _, _ => none) (some [])

/-- `stepper <maxEvents> <slots> <ev>...`: the real `Stepper::operator()(primaries)` on a fresh
    problem (capacity 4096, order none): event ids are validated first -/
def stepperOp (maxEv slots : Nat) (evs : List Nat) : String :=
  let st := State.init ⟨slots, 4096, maxEv, .none⟩
  match stepWith (evs.map fun e => ⟨e, 0, 0⟩) [] st with
  | .ok s' => s!"stepper ok generated={s'.c.numGenerated} active={s'.c.numActive}"
  | .error (.maxEvents, _) => "stepper error-max-events"
  | .error _ => "stepper error-other"

def showOpt : Option Nat → String
  | some n => toString n
  | none => "-1"

def secChar (x : Sec) : Char := if !x.valid then 'x' else if x.particle == 0 then 'g' else 'e'

def showSlot (x : Slot) : String :=
  match x.status with
  | .inactive => " -"
  | st =>
    let c := match st with
      | .initializing => "i" | .alive => "a" | .errored => "e" | _ => "k"
    s!" {c}{showOpt x.tid}/{showOpt x.parent}/{x.ev}/{x.steps}/{x.particle}/{x.pos}:" ++
      (if st = .alive ∨ st = .killed then String.ofList (x.secs.map secChar) else "")

def showInit (i : Init) : String := s!" {i.tid}/{showOpt i.parent}/{i.ev}/{i.particle}/{i.pos}"

def dump (s : State) : String :=
  " | S" ++ String.join (s.slots.map showSlot) ++
  " | V" ++ String.join ((s.vacancies.take s.c.numVacancies).map fun v => s!" {v}") ++
  " | I" ++ String.join ((s.initializers.take
      (if s.c.numInitializers ≤ s.initializers.length then s.c.numInitializers
       else s.c.numInitializers - s.c.numSecondaries)).map showInit) ++
  " | P" ++ String.join (s.parents.map fun p => " " ++ showOpt p) ++
  s!" | C {s.c.numGenerated} {s.c.numInitializers} {s.c.numVacancies} {s.c.numActive} " ++
  s!"{s.c.numSecondaries} {s.c.numAlive}" ++
  " | T" ++ String.join (s.trackCounters.map fun t => s!" {t}")

def parsePrimary (maxEv : Nat) (w : String) : Option Primary :=
  match w.splitOn ":" with
  | [a, b, c] =>
    match parseDec a, parseDec b, parseDec c with
    | some ev, some par, some pos =>
      if ev < maxEv ∧ par < 2 ∧ pos < 2 * outsideTag then some ⟨ev, par, pos⟩ else none
    | _, _, _ => none
  | _ => none

def parseAllP (maxEv : Nat) (ws : List String) : Option (List Primary) :=
  ws.foldr (fun w acc => match parsePrimary maxEv w, acc with
    | some p, some l => some (p :: l)
    | _, _ => none) (some [])

structure Spec where
  kind : Char
  secs : List Sec

def parseSpec (w : String) : Option Spec :=
  match w.toList with
  | [] => none
  | k :: rest =>
    if ¬ (k = 'a' ∨ k = 'k' ∨ k = 'u' ∨ k = 'e') then none
    else if ¬ rest.all (fun c => c = 'g' ∨ c = 'e' ∨ c = 'x') then none
    else if ¬ (rest.isEmpty ∨ (k ≠ 'u' ∧ k ≠ 'e')) then none
    else some ⟨k, rest.map fun c => ⟨c ≠ 'x', if c = 'g' then 0 else 1⟩⟩

def parseSpecs (ws : List String) : Option (List Spec) :=
  ws.foldr (fun w acc => match parseSpec w, acc with
    | some p, some l => some (p :: l)
    | _, _ => none) (some [])

def Spec.toRequest (sp : Spec) : Request :=
  ⟨if sp.kind = 'e' then .error else if sp.kind = 'u' then .unchanged
   else if sp.kind = 'k' then .absorb else .scatter, sp.secs⟩

/-- scripted interactor + real allocator protocol (Model/TrackInitAlloc.lean) -/
def effectiveOracle (slots : List Slot) (specs : List Spec) (stk : CelerVerif.Stack.Stack) :
    List Outcome × List Nat × CelerVerif.Stack.Stack :=
  effectiveOutcomes slots (specs.map Spec.toRequest) stk

def driverStep (d : DState) (line : String) : DState × String :=
  match words line with
  | ["config", a, b, c, o, k] =>
    match parseDec a, parseDec b, parseDec c, parseDec o, parseDec k with
    | some slots, some cap, some maxEv, some o, some k =>
      if slots < 1 ∨ slots > 256 ∨ cap < 1 ∨ cap > 100000 ∨ maxEv < 1 ∨ maxEv > 64 ∨ o > 7
          ∨ k > 100000 then (d, "bad-op")
      else
        let st := State.init ⟨slots, cap, maxEv, if o = 0 then .none else if o = 1 then .initCharge else .reindex⟩
        (⟨true, false, st, CelerVerif.Stack.Stack.new k⟩, s!"config ok stack {k} neutral 10" ++ dump st)
    | _, _, _, _, _ => (d, "bad-op")
  | "stepper" :: a :: b :: evs =>
    match parseDec a, parseDec b, parseAllDec10 evs with
    | some maxEv, some slots, some evs =>
      if maxEv < 1 ∨ maxEv > 64 ∨ slots < 1 ∨ slots > 64 ∨ evs.isEmpty ∨ evs.length > 16
          ∨ ¬ evs.all (fun e => decide (e < 4294967295)) then (d, "bad-op")
      else (d, stepperOp maxEv slots evs)
    | _, _, _ => (d, "bad-op")
  | ws =>
    if ¬ d.ready then (d, "bad-op") else
    match ws with
    | ["reset"] => let st := reset d.st; ({ d with st := st, poisoned := false }, "reset ok" ++ dump st)
    | ["recover"] =>
      if d.poisoned then
        let st := reset d.st; ({ d with st := st, poisoned := false }, "recover reset" ++ dump st)
      else (d, "recover noop" ++ dump d.st)
    | _ =>
    if d.poisoned then (d, "bad-op") else
    match ws with
    | "insert" :: ps =>
      match parseAllP d.st.cfg.maxEvents ps with
      | none => (d, "bad-op")
      | some ps =>
        match insertPrimaries ps d.st with
        | .ok st => ({ d with st := st }, "insert ok" ++ dump st)
        | .error .capacity => (d, "insert error-capacity" ++ dump d.st)
        | .error _ => (d, "insert error-not-implemented" ++ dump d.st)
    | ["efp"] => let st := extendFromPrimaries d.st; ({ d with st := st }, "efp ok" ++ dump st)
    | ["init"] => let st := initializeTracks d.st; ({ d with st := st }, "init ok" ++ dump st)
    | ["pre"] =>
      let st := preStep d.st
      ({ d with st := st, stack := CelerVerif.Stack.clear d.stack }, "pre ok" ++ dump st)
    | ["cut"] => let st := trackingCut d.st; ({ d with st := st }, "cut ok" ++ dump st)
    | ["efs"] =>
      match extendFromSecondaries d.st with
      | .ok st => ({ d with st := st }, "efs ok" ++ dump st)
      | .error (_, st) => ({ d with st := st, poisoned := true }, "efs error-capacity" ++ dump st)
    | ["reseed"] => let st := reseed d.st; ({ d with st := st }, "reseed ok" ++ dump st)
    | "interact" :: specs =>
      if specs.length ≠ d.st.cfg.slots then (d, "bad-op") else
      match parseSpecs specs with
      | none => (d, "bad-op")
      | some specs =>
        let (outs, failed, stk) := effectiveOracle d.st.slots specs d.stack
        let st := interact outs d.st
        let f := if failed.isEmpty then "-" else ",".intercalate (failed.map toString)
        ({ d with st := st, stack := stk }, s!"interact F:{f} stack {stk.size}" ++ dump st)
    | _ => (d, "bad-op")

end CelerVerif.TrackInit
