/-
Executable model (generic in `Num α`) of the optical photon generators:
  src/corecel/math/ArrayUtils.hh      (`make_unit_vector`, `from_spherical`, `rotate`)
  src/celeritas/random/distribution/  (UniformReal, Normal (Box–Muller with spare), Exponential,
                                       RejectionSampler, Poisson), random/Selector.hh
  src/corecel/grid/NonuniformGrid.hh, Interpolator.hh, celeritas/grid/GenericCalculator.hh
  src/celeritas/optical/CerenkovParams.cc (angle integral), MaterialParams.cc (validation),
  CerenkovDndxCalculator.hh, CerenkovGenerator.hh, CerenkovOffload.hh,
  ScintillationParams.cc + detail/MatScintSpecInserter.hh (validation, yield pdf),
  ScintillationGenerator.hh, ScintillationOffload.hh, detail/OpticalUtils.hh,
  GeneratorDistributionData.hh, TrackInitializer.hh, phys/ParticleTrackView.hh (`speed`).
Expression trees (association, fma placement) follow the C++ exactly so that the `Float`
instance is bit-identical.  Random numbers come from an explicit script of canonical uniforms
(`List α`); a sampler returns `none` when the script is exhausted.
Functions that are not in `Num` (`std::expm1`, celeritas' polynomial `sincospi`, the
double→unsigned cast) are PARAMETERS of the model functions: the driver instantiates them at
`Float`, the theorems quantify over them (with a stated contract where one is needed).
-/
import CelerVerif.Num.Basic

namespace CelerVerif.Optical
open CelerVerif
open scoped CelerVerif.Num

variable {α : Type} [Num α]

/-! ### constants (celeritas/Units.hh [CGS], corecel/Constants.hh, celeritas/Constants.hh) -/

/-- the compile-time constants the generators read -/
structure Consts (α : Type) where
  /-- `2 * constants::pi` (upper end of `sample_phi_`) -/
  twoPi : α
  /-- `2 * m_pi` (NormalDistribution) -/
  twoPiNormal : α
  /-- `constants::c_light` = `units::CLight::value()` -/
  cLight : α
  /-- `constants::h_planck * constants::c_light` -/
  hc : α
  /-- `units::Mev::value()` -/
  mev : α
  /-- `constants::alpha_fine_structure / (constants::hbar_planck * constants::c_light)` -/
  dndxK : α

/-- the constants as the headers compute them in the CGS unit system -/
def Consts.cgs : Consts α :=
  let centimeter : α := 1
  let gram : α := 1
  let second : α := 1
  let gauss : α := 1
  let meter : α := 100 * centimeter
  let kilogram : α := 1000 * gram
  let tesla : α := 10000 * gauss
  let newton : α := kilogram * meter / (second * second)
  let joule : α := newton * meter
  let coulomb : α := kilogram / (tesla * second)
  let volt : α := joule / coulomb
  let pi : α := 3.14159265358979323846
  let cLight : α := 299792458.0 * meter / second
  let hPlanck : α := 6.62607015e-34 * joule * second
  let eElectron : α := 1.602176634e-19 * coulomb
  let hbar : α := hPlanck / (2 * pi)
  let alpha : α := 7.2973525693e-3
  { twoPi := 2 * pi
    twoPiNormal := 2 * pi
    cLight := cLight
    hc := hPlanck * cLight
    mev := 1e6 * eElectron * volt
    dndxK := alpha / (hbar * cLight) }

/-! ### ArrayUtils.hh -/

/-- `make_unit_vector(v)`: `scale = 1 / norm(v); el *= scale` -/
def makeUnitVector (v : Vec3 α) : Vec3 α :=
  let s := (1 : α) / Vec3.norm v
  ⟨v.x * s, v.y * s, v.z * s⟩

/-- `from_spherical(costheta, phi)` -/
def fromSpherical (cost phi : α) : Vec3 α :=
  let sint := Num.sqrt ((1 : α) - cost * cost)
  ⟨sint * Num.cos phi, sint * Num.sin phi, cost⟩

/-- `detail::RealVecTraits<double>::min_accurate_sintheta()` -/
def minAccurateSintheta : α := 0.005

/-- the (sinθ, cosφ, sinφ) that `rotate` derives from `rot` (three branches; the near-axis
    branch takes cosφ = x/rho with rho = sqrt(x² + y²) and sinφ = +sqrt(1 − cos²φ) — the sign
    of y is NOT used — and treats rho = 0 as exactly on the axis: sinθ := 0, φ := 0) -/
def rotAngles (rot : Vec3 α) : α × α × α :=
  let sint := Num.sqrt ((1 : α) - Num.sq rot.z)
  if Num.ge sint (minAccurateSintheta : α) then
    let inv := (1 : α) / sint
    (sint, rot.x * inv, rot.y * inv)
  else if Num.gt sint (0 : α) then
    let rho := Num.sqrt (Num.sq rot.x + Num.sq rot.y)
    if Num.gt rho (0 : α) then
      let c := rot.x / rho
      (sint, c, Num.sqrt ((1 : α) - Num.sq c))
    else (0, 1, 0)
  else
    (sint, 1, 0)

/-- the un-normalised result array of `rotate` -/
def rotateRaw (dir rot : Vec3 α) : Vec3 α :=
  let (sint, cosphi, sinphi) := rotAngles rot
  ⟨(rot.z * dir.x + sint * dir.z) * cosphi - sinphi * dir.y,
   (rot.z * dir.x + sint * dir.z) * sinphi + cosphi * dir.y,
   (-sint) * dir.x + rot.z * dir.z⟩

/-- `rotate(dir, rot)` -/
def rotate (dir rot : Vec3 α) : Vec3 α := makeUnitVector (rotateRaw dir rot)

/-! ### scripted random stream and distributions -/

/-- a sampler consumes a prefix of the script; `none` = script exhausted -/
abbrev Sampler (α β : Type) := List α → Option (β × List α)

/-- `generate_canonical(rng)` -/
def canonical : Sampler α α
  | [] => none
  | u :: rest => some (u, rest)

/-- `UniformRealDistribution(a, b)`: stores `a_`, `delta_ = b - a`; sample = fma(delta, u, a) -/
structure Uniform (α : Type) where
  a : α
  delta : α

def Uniform.mk' (a b : α) : Uniform α := ⟨a, b - a⟩
def Uniform.eval (d : Uniform α) (u : α) : α := Num.fma d.delta u d.a
def Uniform.sample (d : Uniform α) : Sampler α α
  | [] => none
  | u :: rest => some (d.eval u, rest)

/-- `RejectionSampler{f, fmax}(rng)` with canonical `u`: true = REJECT -/
def rejects (f fmax u : α) : Bool := Num.lt f (fmax * u)

/-- `NormalDistribution::operator()` with the spare value carried explicitly.
    No spare: θ = 2π·u₁, r = sqrt(−2·log u₂), spare := r cos θ, result fma(r sin θ, σ, μ). -/
def normalSample (K : Consts α) (mean stddev : α) (spare : Option α) :
    Sampler α (α × Option α) := fun s =>
  match spare with
  | some sp => some ((Num.fma sp stddev mean, none), s)
  | none =>
    match s with
    | u1 :: u2 :: rest =>
      let theta := K.twoPiNormal * u1
      let r := Num.sqrt ((-(2 : α)) * Num.log u2)
      let sp := r * Num.cos theta
      some ((Num.fma (r * Num.sin theta) stddev mean, some sp), rest)
    | _ => none

/-- `ExponentialDistribution(lambda)`: `neg_inv_lambda_ = -1 / lambda`; sample = log(u) * that -/
def expoAt (lambda u : α) : α := Num.log u * ((-(1 : α)) / lambda)

/-- `Selector::operator()` with total = 1 over `pdf` (size ≥ 1): the accumulation loop -/
def selectLoop : List α → α → Nat → Nat
  | [], _, i => i                       -- unreachable for size ≥ 1
  | [_], _, i => i                      -- `return *last_` (last entry is never accumulated)
  | p :: q :: ps, accum, i =>
    let accum := accum + p
    if Num.gt accum (0 : α) then i else selectLoop (q :: ps) accum (i + 1)

def selectIdx (pdf : List α) (u : α) : Nat :=
  selectLoop pdf ((-(1 : α)) * u) 0

/-! ### photons and step data -/

/-- `optical::TrackInitializer` (without the volume id) -/
structure Photon (α : Type) where
  energy : α
  position : Vec3 α
  direction : Vec3 α
  polarization : Vec3 α
  time : α

/-- `GeneratorDistributionData` (material id is implicit: one material per op) -/
structure Dist (α : Type) where
  numPhotons : Nat
  time : α
  stepLength : α
  charge : α
  preSpeed : α
  prePos : Vec3 α
  postSpeed : α
  postPos : Vec3 α

/-- the shared step-fraction arithmetic of both generators:
    `time + u*step_length / (pre*c + u*0.5*(delta*c))`, `pos = pre; axpy(u, delta_pos, &pos)` -/
def stepTime (K : Consts α) (d : Dist α) (u : α) : α :=
  let deltaSpeed := d.postSpeed - d.preSpeed
  d.time + u * d.stepLength / (d.preSpeed * K.cLight + u * (0.5 : α) * (deltaSpeed * K.cLight))

def stepPos (d : Dist α) (u : α) : Vec3 α :=
  Vec3.axpy u (Vec3.sub d.postPos d.prePos) d.prePos

/-! ### scintillation -/

/-- `ImportScintComponent` -/
structure ScintComp (α : Type) where
  yieldFrac : α
  lambdaMean : α
  lambdaSigma : α
  riseTime : α
  fallTime : α

/-- `ImportMaterialScintSpectrum` + resolution scale of the material -/
structure ScintInput (α : Type) where
  yieldPerEnergy : α
  resolutionScale : α
  components : List (ScintComp α)

/-- the `CELER_VALIDATE`s of `ScintillationParams` / `MatScintSpecInserter` (a failed
    comparison, incl. NaN, throws).  NOTE: nothing relates `lambda_mean` to `lambda_sigma`. -/
def ScintInput.valid (m : ScintInput α) : Bool :=
  Num.ge m.resolutionScale (0 : α) && Num.gt m.yieldPerEnergy (0 : α) &&
  m.components.all fun c =>
    Num.gt c.lambdaMean (0 : α) && Num.gt c.lambdaSigma (0 : α) && Num.ge c.riseTime (0 : α)
      && Num.gt c.fallTime (0 : α) && Num.gt c.yieldFrac (0 : α)

/-- `total_yield += comp.yield_frac` from `double total_yield{0}`; `y /= total_yield` -/
def ScintInput.yieldPdf (m : ScintInput α) : List α :=
  let total := m.components.foldl (fun acc c => acc + c.yieldFrac) (0 : α)
  m.components.map fun c => c.yieldFrac / total

/-- `detail::wavelength_to_energy`: `(h*c) / wavelength`, then `/ Mev::value()` -/
def wavelengthToEnergy (K : Consts α) (wl : α) : α := K.hc / wl / K.mev

/-- direction of a scintillation photon -/
def scintDirection (cost phi : α) : Vec3 α := fromSpherical cost phi

/-- polarisation of a scintillation photon; `(s, c)` is what `sincospi(u, &s, &c)` returned -/
def scintPolarization (cost phi s c : α) : Vec3 α :=
  let sign : α := if Num.gt cost (0 : α) then -(1 : α) else 1
  let temp := fromSpherical (sign * Num.sqrt ((1 : α) - cost * cost)) phi
  let perp : Vec3 α := ⟨-(Num.sin phi), Num.cos phi, 0⟩
  makeUnitVector ⟨c * temp.x + s * perp.x, c * temp.y + s * perp.y, c * temp.z + s * perp.z⟩

/-- the rise-time loop: `do { t = sample_time(rng); target = -expm1(-t / rise); }
    while (RejectionSampler(target)(rng))` — two uniforms per round -/
def riseLoop (expm1 : α → α) (fall rise : α) : Sampler α α
  | u1 :: u2 :: rest =>
    let t := expoAt ((1 : α) / fall) u1
    let target := -(expm1 ((-t) / rise))
    if rejects target (1 : α) u2 then riseLoop expm1 fall rise rest else some (t, rest)
  | _ => none

/-- `sample_cost_(rng)` with `UniformRealDist(-1, 1)` -/
def costOf (u : α) : α := (Uniform.mk' (-(1 : α)) (1 : α)).eval u
/-- `sample_phi_(rng)` with `UniformRealDist(0, 2π)` -/
def phiOf (K : Consts α) (u : α) : α := (Uniform.mk' (0 : α) K.twoPi).eval u
/-- `UniformRealDist{}(rng)` -/
def unit01 (u : α) : α := (Uniform.mk' (0 : α) (1 : α)).eval u

/-- `u = is_neutral_ ? 1 : UniformRealDist{}(rng)` -/
def scintStepU (d : Dist α) : Sampler α α := fun s =>
  if Num.eq d.charge (0 : α) then some (1, s)
  else match s with
    | [] => none
    | u :: r => some (unit01 u, r)

/-- the scintillation delay: exponential in the fall time, with the rise-time rejection loop
    when `rise_time != 0` -/
def scintDelay (expm1 : α → α) (comp : ScintComp α) : Sampler α α := fun s =>
  if Num.eq comp.riseTime (0 : α) then
    match s with
    | [] => none
    | uT :: r => some (expoAt ((1 : α) / comp.fallTime) uT, r)
  else riseLoop expm1 comp.fallTime comp.riseTime s

/-- `ScintillationGenerator::operator()`; state = the spare normal value of `sample_lambda_` -/
def scintPhoton (K : Consts α) (sincospi : α → α × α) (expm1 : α → α)
    (d : Dist α) (m : ScintInput α) (spare : Option α) : Sampler α (Photon α × Option α) :=
  fun s0 =>
  match s0 with
  | [] => none
  | uSel :: s1 =>
    match m.components[selectIdx m.yieldPdf uSel]? with
    | none => none
    | some comp =>
      match normalSample K comp.lambdaMean comp.lambdaSigma spare s1 with
      | none => none
      | some ((lambda, spare'), s2) =>
        match s2 with
        | uCost :: uPhi :: uPol :: s3 =>
          let sc := sincospi (unit01 uPol)
          match scintStepU d s3 with
          | none => none
          | some (u, s4) =>
            match scintDelay expm1 comp s4 with
            | none => none
            | some (delay, s5) =>
              some ((⟨wavelengthToEnergy K lambda, stepPos d u,
                      scintDirection (costOf uCost) (phiOf K uPhi),
                      scintPolarization (costOf uCost) (phiOf K uPhi) sc.1 sc.2,
                      stepTime K d u + delay⟩, spare'), s5)
        | _ => none

/-! ### grids (NonuniformGrid / GenericCalculator / LinearInterpolator) -/

/-- a `GenericCalculator`: x grid and y values (same length ≥ 2) -/
structure Grid (α : Type) where
  xs : Array α
  ys : Array α

namespace Grid

def x (g : Grid α) (i : Nat) : α := g.xs.getD i (0 : α)
def y (g : Grid α) (i : Nat) : α := g.ys.getD i (0 : α)
def size (g : Grid α) : Nat := g.xs.size
def front (g : Grid α) : α := g.x 0
def back (g : Grid α) : α := g.x (g.size - 1)

/-- `detail::lower_bound_impl` with `comp(a, v) = a < v` -/
def lowerBound (g : Grid α) (v : α) : Nat → Nat → Nat → Nat
  | 0, first, _ => first
  | fuel + 1, first, len =>
    if len = 0 then first
    else
      let half := len / 2
      let m := first + half
      if Num.lt (g.x m) v then lowerBound g v fuel (m + 1) (len - (half + 1))
      else lowerBound g v fuel first half

/-- `NonuniformGrid::find(value)` -/
def find (g : Grid α) (v : α) : Nat :=
  let it := lowerBound g v (g.size + 1) 0 g.size
  if Num.ne v (g.x it) then it - 1 else it

/-- `LinearInterpolator({xl,yl},{xr,yr})(x)`: slope = (−yl + yr)/(−xl + xr);
    result = fma(slope, −xl + x, yl) -/
def interp (xl yl xr yr x : α) : α :=
  let slope := ((-yl) + yr) / ((-xl) + xr)
  Num.fma slope ((-xl) + x) yl

/-- `GenericCalculator::operator()(x)` -/
def eval (g : Grid α) (v : α) : α :=
  if Num.le v g.front then g.y 0
  else if Num.ge v g.back then g.y (g.size - 1)
  else
    let i := g.find v
    interp (g.x i) (g.y i) (g.x (i + 1)) (g.y (i + 1)) v

/-- `make_inverse()` -/
def inverse (g : Grid α) : Grid α := ⟨g.ys, g.xs⟩

end Grid

/-- `is_monotonic_increasing` -/
def strictlyIncreasing : List α → Bool
  | a :: b :: rest => Num.lt a b && strictlyIncreasing (b :: rest)
  | _ => true

/-- optical `MaterialParams` validation of a refractive-index vector (the release build's
    `CELER_VALIDATE`s): non-empty, equal sizes, both columns strictly increasing -/
def refractiveValid (es ns : List α) : Bool :=
  !es.isEmpty && es.length == ns.length && strictlyIncreasing es && strictlyIncreasing ns

/-- `CerenkovParams`: trapezoid integral of 1/n² over the energy grid -/
def angleIntegralFrom : α → List α → List α → List α
  | acc, e0 :: e1 :: es, n0 :: n1 :: ns =>
    let nxt := acc + (0.5 : α) * (e1 - e0) * ((1 : α) / Num.sq n0 + (1 : α) / Num.sq n1)
    nxt :: angleIntegralFrom nxt (e1 :: es) (n1 :: ns)
  | _, _, _ => []

def angleIntegral (es ns : List α) : List α :=
  (0 : α) :: angleIntegralFrom (0 : α) es ns

/-- material data the Cerenkov code reads: refractive index n(E) and the angle integral -/
structure CerMat (α : Type) where
  ri : Grid α
  integral : Grid α

def CerMat.ofLists (es ns ints : List α) : CerMat α :=
  ⟨⟨es.toArray, ns.toArray⟩, ⟨es.toArray, ints.toArray⟩⟩

/-- `clamp_to_nonneg` -/
def clampNonneg (v : α) : α := if Num.lt v (0 : α) then 0 else v

/-- `CerenkovDndxCalculator::operator()(beta)` for charge `z` -/
def dndx (K : Consts α) (m : CerMat α) (z beta : α) : α :=
  let zsq := z * z
  let invBeta := (1 : α) / beta
  let energyMax := m.ri.back
  if Num.gt invBeta (m.ri.eval energyMax) then 0
  else
    let energy :=
      if Num.lt invBeta (m.ri.y 0) then
        energyMax - m.ri.front - m.integral.eval energyMax * Num.sq invBeta
      else
        let energyMin := m.ri.inverse.eval invBeta
        energyMax - energyMin
          - (m.integral.eval energyMax - m.integral.eval energyMin) * Num.sq invBeta
    clampNonneg (zsq * K.dndxK * (energy * K.mev))

/-- the members computed by the `CerenkovGenerator` constructor -/
structure CerGen (α : Type) where
  dist : Dist α
  mat : CerMat α
  samplePhi : Uniform α
  sampleNumPhotons : Uniform α
  sampleEnergy : Uniform α
  dir : Vec3 α
  deltaPos : Vec3 α
  deltaNumPhotons : α
  dndxPre : α
  sinMaxSq : α
  invBeta : α

def CerGen.mk' (K : Consts α) (m : CerMat α) (d : Dist α) : CerGen α :=
  let dndxPre := dndx K m d.charge d.preSpeed
  let dndxPost := dndx K m d.charge d.postSpeed
  let invBeta := (2 : α) / (d.preSpeed + d.postSpeed)
  let cosMax := invBeta / m.ri.eval m.ri.back
  let deltaPos := Vec3.sub d.postPos d.prePos
  { dist := d, mat := m
    samplePhi := Uniform.mk' (0 : α) K.twoPi
    sampleNumPhotons := Uniform.mk' (0 : α) (Num.max dndxPre dndxPost)
    sampleEnergy := Uniform.mk' m.ri.front m.ri.back
    dir := makeUnitVector deltaPos
    deltaPos := deltaPos
    deltaNumPhotons := dndxPost - dndxPre
    dndxPre := dndxPre
    sinMaxSq := (1 : α) - Num.sq cosMax
    invBeta := invBeta }

/-- energy and cos θ proposed from one canonical value -/
def CerGen.propose (g : CerGen α) (u : α) : α × α :=
  let e := g.sampleEnergy.eval u
  (e, g.invBeta / g.mat.ri.eval e)

/-- inner loop: `do { energy = ...; cos_theta = ... } while (cos_theta > 1)` -/
def CerGen.energyInner (g : CerGen α) : Sampler α (α × α)
  | [] => none
  | u :: rest =>
    let p := g.propose u
    if Num.gt p.2 (1 : α) then g.energyInner rest else some (p, rest)

/-- outer loop: `... sin_theta_sq = 1 - cos²; } while (RejectionSampler{sin², sin_max²}(rng))`;
    every round consumes at least two script values, `fuel` bounds the rounds -/
def CerGen.energyOuter (g : CerGen α) : Nat → Sampler α (α × α × α)
  | 0, _ => none
  | fuel + 1, s =>
    match g.energyInner s with
    | none => none
    | some ((e, c), s1) =>
      let sin2 := (1 : α) - Num.sq c
      match s1 with
      | [] => none
      | u :: s2 =>
        if rejects sin2 g.sinMaxSq u then g.energyOuter fuel s2 else some ((e, c, sin2), s2)

/-- step-fraction loop: `do { u = U(0,1) } while (sample_num_photons_(rng) > dndx_pre + u*delta)` -/
def CerGen.stepFraction (g : CerGen α) : Sampler α α
  | u0 :: u1 :: rest =>
    let u := unit01 u0
    if Num.gt (g.sampleNumPhotons.eval u1) (g.dndxPre + u * g.deltaNumPhotons)
    then g.stepFraction rest else some (u, rest)
  | _ => none

/-- direction / polarisation of a Cerenkov photon from (cos θ, sin²θ, φ) -/
def CerGen.direction (g : CerGen α) (cosTheta phi : α) : Vec3 α :=
  rotate (fromSpherical cosTheta phi) g.dir
def CerGen.polarization (g : CerGen α) (sin2 phi : α) : Vec3 α :=
  rotate (fromSpherical (-(Num.sqrt sin2)) phi) g.dir

/-- `CerenkovGenerator::operator()` -/
def CerGen.photon (K : Consts α) (g : CerGen α) : Sampler α (Photon α) := fun s =>
  match g.energyOuter s.length s with
  | none => none
  | some ((e, c, sin2), s1) =>
    match s1 with
    | [] => none
    | uPhi :: s2 =>
      let phi := g.samplePhi.eval uPhi
      match g.stepFraction s2 with
      | none => none
      | some (u, s3) =>
        some (⟨e, stepPos g.dist u, g.direction c phi, g.polarization sin2 phi,
               stepTime K g.dist u⟩, s3)

/-! ### offload (number of photons requested for a step) -/

/-- `ParticleTrackView::speed()`: sqrt(1 − (m / (E + m))²) -/
def particleSpeed (energy mass : α) : α :=
  let invGamma := mass / (energy + mass)
  Num.sqrt ((1 : α) - Num.sq invGamma)

/-- `PoissonDistribution` direct-method loop: `do { ++k; p *= u } while (p > 1)`; returns k−1 -/
def poissonLoop : α → Nat → Sampler α Nat
  | _, _, [] => none
  | p, k, u :: rest =>
    let p := p * u
    if Num.gt p (1 : α) then poissonLoop p (k + 1) rest else some (k, rest)

/-- `PoissonDistribution(lambda)(rng)`; `cast` is the C++ `double → unsigned int` conversion -/
def poisson (K : Consts α) (cast : α → Nat) (lambda : α) : Sampler α Nat := fun s =>
  if Num.le lambda (16 : α) then poissonLoop (Num.exp lambda) 0 s
  else
    match normalSample K lambda (Num.sqrt lambda) none s with
    | none => none
    | some ((x, _), rest) =>
      -- `rounded = sample + 0.5; return rounded > 0 ? result_type(rounded) : result_type(0)`
      let rounded := x + (0.5 : α)
      some ((if Num.gt rounded (0 : α) then cast rounded else 0), rest)

/-- per-step input of the offload helpers -/
structure Step (α : Type) where
  charge : α
  stepLength : α
  preSpeed : α
  prePos : Vec3 α
  preTime : α
  postSpeed : α
  postPos : Vec3 α

def Step.dist (st : Step α) (n : Nat) : Dist α :=
  if n > 0 then ⟨n, st.preTime, st.stepLength, st.charge, st.preSpeed, st.prePos, st.postSpeed,
                 st.postPos⟩
  else ⟨n, 0, 0, 0, 0, ⟨0, 0, 0⟩, 0, ⟨0, 0, 0⟩⟩

/-- `CerenkovOffload`: constructor computes dN/dx at the mean speed, `operator()` samples the
    count; `num_photons_per_len_ == 0` returns the empty distribution without sampling -/
def cerenkovNumPerLen (K : Consts α) (m : CerMat α) (st : Step α) : α :=
  dndx K m st.charge ((0.5 : α) * (st.preSpeed + st.postSpeed))

def cerenkovOffload (K : Consts α) (cast : α → Nat) (m : CerMat α) (st : Step α) :
    Sampler α (Dist α) := fun s =>
  let nPerLen := cerenkovNumPerLen K m st
  if Num.eq nPerLen (0 : α) then some (st.dist 0, s)
  else
    match poisson K cast (nPerLen * st.stepLength) s with
    | none => none
    | some (n, rest) => some (st.dist n, rest)

/-- `ScintillationOffload` (material-only sampling) -/
def scintOffload (K : Consts α) (cast : α → Nat) (m : ScintInput α) (st : Step α) (edep : α) :
    Sampler α (Dist α) := fun s =>
  let mean := m.yieldPerEnergy * edep
  if Num.gt mean (10 : α) then
    let sigma := m.resolutionScale * Num.sqrt mean
    match normalSample K mean sigma none s with
    | none => none
    | some ((x, _), rest) => some (st.dist (cast (clampNonneg (x + (0.5 : α)))), rest)
  else if Num.gt mean (0 : α) then
    match poisson K cast mean s with
    | none => none
    | some (n, rest) => some (st.dist n, rest)
  else some (st.dist 0, s)

end CelerVerif.Optical
