/-
Line protocol of the ledger model at `Float` (driven by tools/checks/c01.py from the step log of
harness/stepping.cc; doubles are 16-hex-digit bit patterns).

  ptable <n> (<mass> <anti 0|1> <cut|->)*n          set the particle table (cut: production-cut
                                                     energy of the CURRENT material, `-` = particle
                                                     is not gamma/electron/positron)        → `ok n`
  step <pid> <E> | <appl> <psaBnd> <atRest> <low> <n|m|f> <mean> <sampled> | <postcut> |
       none | boundary <exits> | tcut | interact <s|a|u|f> <Eout> <edep> <k> (<pid|-> <E>)*k
       → `<e1> <dep> <alive|escaped|killed> <released> <rangeKilled> <nsec> (<pid> <E>)*`
-/
import CelerVerif.Model.Ledger
import CelerVerif.Num.F64
import CelerVerif.Model.Util

namespace CelerVerif.Ledger
open CelerVerif.Util

def pf (s : String) : Option Float := (parseHex s).map fun n => Float.ofBits (UInt64.ofNat n)
def hx (x : Float) : String := Float.toHexBits x
def pb (s : String) : Option Bool := if s == "1" then some true else if s == "0" then some false else none

structure DState where
  mass : Array Float := #[]
  anti : Array Bool := #[]
  cut : Array (Option Float) := #[]

def DState.table (d : DState) : Particles Float :=
  { mass := fun i => d.mass.getD i 0.0
    anti := fun i => d.anti.getD i false
    cut := fun i => (d.cut.getD i none) }

def parseTable : Nat → List String → DState → Option DState
  | 0, [], d => some d
  | n + 1, m :: a :: c :: rest, d =>
    match pf m, pb a with
    | some m', some a' =>
      let c' : Option (Option Float) := if c == "-" then some none else (pf c).map some
      match c' with
      | some cc => parseTable n rest { mass := d.mass.push m', anti := d.anti.push a', cut := d.cut.push cc }
      | none => none
    | _, _ => none
  | _, _, _ => none

def parseSecs : Nat → List String → Option (List (Option (Sec Float)))
  | 0, [] => some []
  | n + 1, p :: e :: rest =>
    match pf e, parseSecs n rest with
    | some e', some r =>
      if p == "-" then some (none :: r)
      else match p.toNat? with
        | some pid => some (some ⟨pid, e'⟩ :: r)
        | none => none
    | _, _ => none
  | _, _ => none

def parsePost : List String → Option (PostAct Float)
  | ["none"] => some .none
  | ["boundary", x] => (pb x).map .boundary
  | ["tcut"] => some .trackingCut
  | "interact" :: k :: eo :: ed :: n :: rest =>
    let act : Option IAction := match k with
      | "s" => some .scattered | "a" => some .absorbed | "u" => some .unchanged
      | "f" => some .failed | _ => none
    match act, pf eo, pf ed, n.toNat? with
    | some a, some eo', some ed', some n' =>
      (parseSecs n' rest).map fun secs => .interact ⟨a, eo', ed', secs⟩
    | _, _, _, _ => none
  | _ => none

def splitBars (ws : List String) : List (List String) :=
  ws.foldr (fun w acc => if w == "|" then [] :: acc else
    match acc with
    | h :: t => (w :: h) :: t
    | [] => [[w]]) [[]]

def fateStr : Fate → String | .alive => "alive" | .escaped => "escaped" | .killed => "killed"
def b01 (b : Bool) : String := if b then "1" else "0"

def showRec (r : StepRec Float) : String :=
  let secs := r.secs.foldl (fun acc s => acc ++ s!" {s.pid} {hx s.e}") ""
  s!"{hx r.e1} {hx r.dep} {fateStr r.fate} {b01 r.released} {b01 r.rangeKilled} {r.secs.length}{secs}"

def doStep (d : DState) (ws : List String) : String :=
  match splitBars ws with
  | [[pid, e], [appl, bnd, rest, low, kind, mean, sampled], [postcut], post] =>
    match pid.toNat?, pf e, pb appl, pb bnd, pb rest, pf low, pf mean, pf sampled, pb postcut,
        parsePost post with
    | some pid', some e', some appl', some bnd', some rest', some low', some mean', some s',
        some pc, some post' =>
      let k : Option (ElossKind Float) := match kind with
        | "n" => some .none | "m" => some (.mean mean') | "f" => some (.fluct mean' s') | _ => none
      match k with
      | some k' =>
        showRec (stepLedger d.table pid' e' ⟨appl', bnd', rest', low', k', pc, post'⟩)
      | none => "bad-op"
    | _, _, _, _, _, _, _, _, _, _ => "bad-op"
  | _ => "bad-op"

def driverStep (d : DState) (line : String) : DState × String :=
  match words line with
  | "ptable" :: n :: rest =>
    (match n.toNat? with
     | some n' =>
       match parseTable n' rest {} with
       | some d' => (d', s!"ok {n'}")
       | none => (d, "bad-op")
     | none => (d, "bad-op"))
  | "step" :: rest => (d, doStep d rest)
  | _ => (d, "bad-op")

end CelerVerif.Ledger
