/-
Executable model of the device-portable algorithms of /repo (property C18), written AS THE
C++ IS WRITTEN, with explicit index loops over `Array`:

  src/corecel/math/Algorithms.hh, detail/AlgorithmsImpl.hh   (bounds, partition, heapsort, …)
  src/corecel/cont/Range.hh, detail/RangeImpl.hh             (range / count / step)
  src/corecel/data/HyperslabIndexer.hh                       (HyperslabIndexer / InverseIndexer)
  src/orange/univ/detail/RaggedRightIndexer.hh               (RaggedRightIndexer / Inverse)
  src/corecel/grid/NonuniformGrid.hh                         (find: index logic only)

Iterators are modelled as indices into one array (`first = 0`, `last = a.size` unless a loop
takes them explicitly).  Elements are read with `a[i]!` (an out-of-range read would give
`default`; under the stated preconditions the loops only read inside the range — the theorems
are stated for in-range indices and the real code is additionally run under ASan/UBSan by the
thorough tier of tools/checks/c18.py).  Loops whose C++ termination
argument is a strictly decreasing distance use well-founded recursion on that distance;
loops that only terminate because of an invariant (`first != last` tests) use an explicit
fuel / structural counter, noted at each definition.  No Mathlib.
-/
namespace CelerVerif.Algo

variable {α β : Type}

/-! ### lower / upper bound (AlgorithmsImpl.hh `lower_bound_impl`, `upper_bound_impl`) -/

/-- `while (len != 0) { half = len/2; m = first + half;
      if (comp(*m, value)) { first = ++m; len -= half + 1; } else len = half; } return first;` -/
def lowerBoundLoop [Inhabited α] (cmp : α → β → Bool) (a : Array α) (v : β)
    (first len : Nat) : Nat :=
  if len = 0 then first
  else
    if cmp a[first + len / 2]! v then
      lowerBoundLoop cmp a v (first + len / 2 + 1) (len - (len / 2 + 1))
    else lowerBoundLoop cmp a v first (len / 2)
termination_by len
decreasing_by all_goals omega

def lowerBound [Inhabited α] (cmp : α → β → Bool) (a : Array α) (v : β) : Nat :=
  lowerBoundLoop cmp a v 0 a.size

/-- `if (comp(value, *m)) len = half; else { first = ++m; len -= half + 1; }` -/
def upperBoundLoop [Inhabited α] (cmp : β → α → Bool) (a : Array α) (v : β)
    (first len : Nat) : Nat :=
  if len = 0 then first
  else
    if cmp v a[first + len / 2]! then upperBoundLoop cmp a v first (len / 2)
    else upperBoundLoop cmp a v (first + len / 2 + 1) (len - (len / 2 + 1))
termination_by len
decreasing_by all_goals omega

def upperBound [Inhabited α] (cmp : β → α → Bool) (a : Array α) (v : β) : Nat :=
  upperBoundLoop cmp a v 0 a.size

/-- `for (it = first; it != last; ++it) if (!comp(*it, value)) return it;  return last;`
    (`it != last` is `it < last` under the invariant `it ≤ last`) -/
def lowerBoundLinearLoop [Inhabited α] (cmp : α → β → Bool) (a : Array α) (v : β)
    (it last : Nat) : Nat :=
  if it < last then
    if !cmp a[it]! v then it else lowerBoundLinearLoop cmp a v (it + 1) last
  else last
termination_by last - it

def lowerBoundLinear [Inhabited α] (cmp : α → β → Bool) (a : Array α) (v : β) : Nat :=
  lowerBoundLinearLoop cmp a v 0 a.size

/-- `find_sorted`: `iter = lower_bound(...);
    if (iter == last || comp(*iter, value) || comp(value, *iter)) return last; return iter;` -/
def findSorted [Inhabited α] (lt : α → α → Bool) (a : Array α) (v : α) : Nat :=
  let it := lowerBound lt a v
  if it == a.size || lt a[it]! v || lt v a[it]! then a.size else it

/-! ### partition (`partition_impl`, Hoare style) -/

/-- inner `while (true) { if (first == last) return first; if (!pred(*first)) break; ++first; }`
    returns the new `first` (the caller distinguishes `== last`). -/
def scanFwd [Inhabited α] (p : α → Bool) (a : Array α) (first last : Nat) : Nat :=
  if first < last then
    if p a[first]! then scanFwd p a (first + 1) last else first
  else first
termination_by last - first

/-- `do { if (first == --last) return first; } while (!pred(*last));`
    Structural on the value of `last` *before* the decrement; returns the new `last`
    (equal to `first` when the two met).  The case `last = 0` on entry is unreachable
    (`first < last` holds on entry). -/
def scanBack [Inhabited α] (p : α → Bool) (a : Array α) (first : Nat) : Nat → Nat
  | 0 => first
  | last + 1 =>
    if first == last then last
    else if !p a[last]! then scanBack p a first last
    else last

/-- outer `while (true)` of `partition_impl`; `fuel` bounds the number of swaps
    (each iteration advances `first`; `fuel = last - first + 1` is enough, proved). -/
def partitionLoop [Inhabited α] (p : α → Bool) : Nat → Array α → Nat → Nat → Array α × Nat
  | 0, a, first, _ => (a, first)
  | fuel + 1, a, first, last =>
    let first := scanFwd p a first last
    if first == last then (a, first)
    else
      let last := scanBack p a first last
      if first == last then (a, first)
      else partitionLoop p fuel (a.swapIfInBounds first last) (first + 1) last

/-- `celeritas::partition(first, last, pred)` on the whole array: (array after, returned index) -/
def partition [Inhabited α] (p : α → Bool) (a : Array α) : Array α × Nat :=
  partitionLoop p (a.size + 1) a 0 a.size

/-! ### heapsort (`sift_down`, `pop_heap`, `make_heap`, `sort_heap`, `partial_sort`) -/

/-- `if ((child + 1) < len && comp(*child_i, *(child_i + 1))) { ++child_i; ++child; }` -/
def pickChild [Inhabited α] (lt : α → α → Bool) (a : Array α) (len child : Nat) : Nat :=
  if child + 1 < len && lt a[child]! a[child + 1]! then child + 1 else child

theorem pickChild_ge [Inhabited α] (lt : α → α → Bool) (a : Array α) (len child : Nat) :
    child ≤ pickChild lt a len child := by
  unfold pickChild; split <;> omega

/-- the `do { … } while (!comp(*child_i, top));` loop of `sift_down` followed by
    `*start = top`.  State on entry of the body: hole at `start`, `child` = its larger child. -/
def siftLoop [Inhabited α] (lt : α → α → Bool) (len : Nat) (top : α)
    (a : Array α) (start child : Nat) : Array α :=
  let a' := a.setIfInBounds start a[child]!         -- *start = move(*child_i)
  if (len - 2) / 2 < child then                      -- start = child_i; … break
    a'.setIfInBounds child top
  else
    let child' := pickChild lt a' len (2 * child + 1)
    if lt a'[child']! top then a'.setIfInBounds child top   -- loop condition false
    else siftLoop lt len top a' child child'
termination_by len + 1 - child
decreasing_by
  have := pickChild_ge lt (a.setIfInBounds start a[child]!) len (2 * child + 1)
  omega

/-- `sift_down(first, last, comp, len, start)` with `first = 0` -/
def siftDown [Inhabited α] (lt : α → α → Bool) (a : Array α) (len start : Nat) : Array α :=
  if len < 2 || (len - 2) / 2 < start then a
  else
    let child := pickChild lt a len (2 * start + 1)
    if lt a[child]! a[start]! then a
    else siftLoop lt len a[start]! a start child

/-- `pop_heap`: `if (len > 1) { swap(*first, *--last); sift_down(first, last, comp, len-1, first); }` -/
def popHeap [Inhabited α] (lt : α → α → Bool) (a : Array α) (len : Nat) : Array α :=
  if len > 1 then siftDown lt (a.swapIfInBounds 0 (len - 1)) (len - 1) 0 else a

/-- `for (start = (n-2)/2; start >= 0; --start) sift_down(first, last, comp, n, first+start);` -/
def makeHeapLoop [Inhabited α] (lt : α → α → Bool) (n : Nat) : Array α → Nat → Array α
  | a, 0 => siftDown lt a n 0
  | a, start + 1 => makeHeapLoop lt n (siftDown lt a n (start + 1)) start

def makeHeap [Inhabited α] (lt : α → α → Bool) (a : Array α) (n : Nat) : Array α :=
  if n > 1 then makeHeapLoop lt n a ((n - 2) / 2) else a

/-- `for (n = last - first; n > 1; --last, --n) pop_heap(first, last, comp, n);` -/
def sortHeap [Inhabited α] (lt : α → α → Bool) : Array α → Nat → Array α
  | a, 0 => a
  | a, n + 1 => if n + 1 > 1 then sortHeap lt (popHeap lt a (n + 1)) n else a

/-- the `for (i = middle; i != last; ++i)` loop of `partial_sort` -/
def partialSortLoop [Inhabited α] (lt : α → α → Bool) (middle last : Nat)
    (a : Array α) (i : Nat) : Array α :=
  if i < last then
    if lt a[i]! a[0]! then
      partialSortLoop lt middle last (siftDown lt (a.swapIfInBounds i 0) middle 0) (i + 1)
    else partialSortLoop lt middle last a (i + 1)
  else a
termination_by last - i

/-- `partial_sort(first, middle, last, comp)` with `first = 0`, `last = a.size` -/
def partialSort [Inhabited α] (lt : α → α → Bool) (a : Array α) (middle : Nat) : Array α :=
  let a := makeHeap lt a middle
  let a := partialSortLoop lt middle a.size a middle
  sortHeap lt a middle

/-- `celeritas::sort` = `heapsort_impl` = `partial_sort(first, last, last, comp)` -/
def heapsort [Inhabited α] (lt : α → α → Bool) (a : Array α) : Array α :=
  partialSort lt a a.size

/-! ### min_element, predicates -/

/-- `for (; iter != last; ++iter) if (comp(*iter, *result)) result = iter;` -/
def minElementLoop [Inhabited α] (lt : α → α → Bool) (a : Array α)
    (result it last : Nat) : Nat :=
  if it < last then
    minElementLoop lt a (if lt a[it]! a[result]! then it else result) (it + 1) last
  else result
termination_by last - it

/-- `min_element(first, last, comp)`: `if (iter == last) return last; result = iter++; …` -/
def minElement [Inhabited α] (lt : α → α → Bool) (a : Array α) : Nat :=
  if a.size = 0 then a.size else minElementLoop lt a 0 1 a.size

def allOfLoop [Inhabited α] (p : α → Bool) (a : Array α) (it last : Nat) : Bool :=
  if it < last then (if !p a[it]! then false else allOfLoop p a (it + 1) last) else true
termination_by last - it

def allOf [Inhabited α] (p : α → Bool) (a : Array α) : Bool := allOfLoop p a 0 a.size

def anyOfLoop [Inhabited α] (p : α → Bool) (a : Array α) (it last : Nat) : Bool :=
  if it < last then (if p a[it]! then true else anyOfLoop p a (it + 1) last) else false
termination_by last - it

def anyOf [Inhabited α] (p : α → Bool) (a : Array α) : Bool := anyOfLoop p a 0 a.size

/-- `prev = *iter++; while (iter != last) { if (!p(prev, *iter)) return false; prev = *iter++; }` -/
def allAdjacentLoop [Inhabited α] (p : α → α → Bool) (a : Array α) (prev : α)
    (it last : Nat) : Bool :=
  if it < last then
    if !p prev a[it]! then false else allAdjacentLoop p a a[it]! (it + 1) last
  else true
termination_by last - it

def allAdjacent [Inhabited α] (p : α → α → Bool) (a : Array α) : Bool :=
  if a.size = 0 then true else allAdjacentLoop p a a[0]! 1 a.size

/-! ### scalar helpers -/

/-- `v < lo ? lo : hi < v ? hi : v` -/
def clamp (lt : α → α → Bool) (v lo hi : α) : α :=
  if lt v lo then lo else if lt hi v then hi else v

/-- `(v < 0) ? 0 : v` -/
def clampToNonneg (v : Int) : Int := if v < 0 then 0 else v

/-- `(b > a) ? b : a` -/
def maxOf (lt : α → α → Bool) (a b : α) : α := if lt a b then b else a
/-- `(b < a) ? b : a` -/
def minOf (lt : α → α → Bool) (a b : α) : α := if lt b a then b else a

/-- `(0 < x) - (x < 0)` -/
def signum (x : Int) : Int := (if 0 < x then 1 else 0) - (if x < 0 then 1 else 0)

/-- `(top / bottom) + (top % bottom != 0)` on an unsigned type (no wrap can occur:
    a non-zero remainder implies `bottom ≥ 2`, so the quotient is below the maximum) -/
def ceilDiv (top bottom : Nat) : Nat :=
  top / bottom + (if top % bottom != 0 then 1 else 0)

/-- `LocalWorkCalculator{total, workers}(id)` = `total / workers + (id < total % workers)` -/
def localWork (total workers id : Nat) : Nat :=
  total / workers + (if id < total % workers then 1 else 0)

/-- `ipow<N>(v)`: N = 0 → 1; N even → `ipow<N/2>(v) * ipow<N/2>(v)`;
    N odd → `v * ipow<(N-1)/2>(v) * ipow<(N-1)/2>(v)` -/
def ipow (mul : α → α → α) (one : α) (n : Nat) (v : α) : α :=
  if h : n = 0 then one
  else if n % 2 = 0 then mul (ipow mul one (n / 2) v) (ipow mul one (n / 2) v)
  else mul (mul v (ipow mul one ((n - 1) / 2) v)) (ipow mul one ((n - 1) / 2) v)
termination_by n
decreasing_by all_goals omega

/-- `ipow<N>` on `unsigned long long`: every product wraps modulo 2^64 -/
def ipowU64 (n : Nat) (v : Nat) : Nat :=
  ipow (fun x y => (x * y) % 2 ^ 64) 1 n (v % 2 ^ 64)

/-! ### Range / Count with step (RangeImpl.hh `step_range_iter`, Range.hh `step`) -/

/-- iteration of a `StepRange<T>` for a signed `T`, without overflow (values are `Int`):
    `it != end` is `!(step >= 0 ? !(value < end) : value < end)`; `++it` is `value += step`.
    `fuel` bounds the number of produced values (the C++ loop with `step = 0` and a non-empty
    range never ends). -/
def stepIter (stop step : Int) : Nat → Int → List Int
  | 0, _ => []
  | fuel + 1, value =>
    let atEnd := if step ≥ 0 then !(decide (value < stop)) else decide (value < stop)
    if atEnd then [] else value :: stepIter stop step fuel (value + step)

/-- `range(b, e).step(s)` for signed `s`: `s < 0 → StepRange{e + s, b, s}` else `StepRange{b, e, s}` -/
def stepRangeSigned (fuel : Nat) (b e s : Int) : List Int :=
  if s < 0 then stepIter b s fuel (e + s) else stepIter e s fuel b

/-- `range(b, e).step(s)` for an unsigned 32-bit `T`: `it != end` is `value < end`; `value += step`
    wraps modulo 2^32 -/
def stepIterU32 (stop step : Nat) : Nat → Nat → List Nat
  | 0, _ => []
  | fuel + 1, value =>
    if !(decide (value < stop)) then [] else value :: stepIterU32 stop step fuel ((value + step) % 2 ^ 32)

/-- `range(b, e)` with unit step: `it != end` is inequality of values, `++it` adds one -/
def unitIter (stop : Int) : Nat → Int → List Int
  | 0, _ => []
  | fuel + 1, value => if value == stop then [] else value :: unitIter stop fuel (value + 1)

/-- first `n` values of `count(b).step(s)` -/
def countStep (b s : Int) : Nat → List Int
  | 0 => []
  | n + 1 => b :: countStep (b + s) s n

/-! ### HyperslabIndexer / HyperslabInverseIndexer (size_type arithmetic in ℕ; the 32-bit wrap
    of the real code is excluded by the hypothesis `prod dims < 2^32` of the theorems) -/

/-- `result = coords[0]; for (i = 1; i < N; ++i) result = dims[i] * result + coords[i];` -/
def hyperslabLoop (dims coords : Array Nat) (n : Nat) (result i : Nat) : Nat :=
  if i < n then hyperslabLoop dims coords n (dims[i]! * result + coords[i]!) (i + 1)
  else result
termination_by n - i

def hyperslabIndex (dims coords : Array Nat) : Nat :=
  hyperslabLoop dims coords dims.size coords[0]! 1

/-- `for (i = N - 1; i > 0; i--) { coords[i] = index % dims[i]; index = (index - coords[i]) / dims[i]; }
    coords[0] = index;` -/
def hyperslabInvLoop (dims : Array Nat) : Nat → Array Nat → Nat → Array Nat
  | 0, coords, index => coords.setIfInBounds 0 index
  | i + 1, coords, index =>
    let c := index % dims[i + 1]!
    hyperslabInvLoop dims i (coords.setIfInBounds (i + 1) c) ((index - c) / dims[i + 1]!)

def hyperslabInverse (dims : Array Nat) (index : Nat) : Array Nat :=
  hyperslabInvLoop dims (dims.size - 1) (Array.replicate dims.size 0) index

/-- `hyperslab_size(dims)` -/
def hyperslabSize (dims : Array Nat) : Nat := dims.foldl (· * ·) 1

/-! ### RaggedRightIndexer / RaggedRightInverseIndexer -/

/-- `RaggedRightIndexerData::from_sizes`: `offs[0] = 0; offs[i+1] = sizes[i] + offs[i]` -/
def raggedOffsetsLoop (sizes : Array Nat) (offs : Array Nat) (i : Nat) : Array Nat :=
  if i < sizes.size then raggedOffsetsLoop sizes (offs.push (sizes[i]! + offs[i]!)) (i + 1)
  else offs
termination_by sizes.size - i

def raggedOffsets (sizes : Array Nat) : Array Nat := raggedOffsetsLoop sizes #[0] 0

/-- `offsets[coords[0]] + coords[1]` -/
def raggedIndex (offsets : Array Nat) (c0 c1 : Nat) : Nat := offsets[c0]! + c1

/-- `i = 0; while (index >= offsets[i + 1]) ++i;` — `fuel` = number of offsets (the loop ends
    because `index < offsets.back()` is a precondition) -/
def raggedInvLoop (offsets : Array Nat) (index : Nat) : Nat → Nat → Nat
  | 0, i => i
  | fuel + 1, i => if index ≥ offsets[i + 1]! then raggedInvLoop offsets index fuel (i + 1) else i

def raggedInverse (offsets : Array Nat) (index : Nat) : Nat × Nat :=
  let i := raggedInvLoop offsets index offsets.size 0
  (i, index - offsets[i]!)

/-! ### NonuniformGrid::find (index logic over an abstract order) -/

/-- `iter = lower_bound(begin, end, value, [](i, value){ return v[i] < value; });
    if (value != storage[*iter]) --iter;  return iter - begin;` -/
def nonuniformFind [Inhabited α] (lt : α → α → Bool) (ne : α → α → Bool)
    (a : Array α) (v : α) : Nat :=
  let it := lowerBound lt a v
  if ne v a[it]! then it - 1 else it

/-- `TwodGridData::at(ix, iy)` relative to `values.front()`: `ix * y.size() + iy` -/
def twodIndex (ny ix iy : Nat) : Nat := ix * ny + iy

end CelerVerif.Algo
