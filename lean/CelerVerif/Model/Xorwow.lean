/-
Executable model of `celeritas::XorwowRngEngine` — whole-state operations that use the
regenerated jump tables (`discard`, `discard_subsequence`, `operator=(Initializer)`,
`GenerateCanonical32<double>`, `reseed_rng` index).  Core definitions: Model/XorwowCore.lean.
-/
import CelerVerif.Model.XorwowCore
import CelerVerif.Generated.XorwowTables

namespace CelerVerif.Xorwow
open CelerVerif.Generated.Xorwow

/-- the whole-state one-draw transition: `next(); weylstate += 362437` -/
def step (s : State) : State := { xs := s.xs.next, weyl := s.weyl + BitVec.ofNat 32 weylDraw }

/-- `operator()()` : returns (value, new state) -/
def draw (s : State) : W × State :=
  let s' := step s
  (s'.weyl + s'.xs.s4, s')

/-- `discard(count)` -/
def discard (count : Nat) (s : State) : State :=
  { xs := jumpLoop jumpWords count 0 s.xs,
    weyl := s.weyl + BitVec.ofNat 32 count * BitVec.ofNat 32 weylDiscard }

/-- `discard_subsequence(count)` -/
def discardSubsequence (count : Nat) (s : State) : State :=
  { s with xs := jumpLoop jumpSubWords count 0 s.xs }

/-- `SplitMix64::operator()`: returns (output, new state) on 64-bit words -/
def splitMix (st : BitVec 64) : BitVec 64 × BitVec 64 :=
  let st' := st + BitVec.ofNat 64 smInc
  let z := st'
  let z := (z ^^^ (z >>> smShift1)) * BitVec.ofNat 64 smMul1
  let z := (z ^^^ (z >>> smShift2)) * BitVec.ofNat 64 smMul2
  (z ^^^ (z >>> smShift3), st')

def lo32 (z : BitVec 64) : W := z.setWidth 32
def hi32 (z : BitVec 64) : W := (z >>> 32).setWidth 32

/-- the state written by `operator=(Initializer)` before skipping ahead -/
def seedState (seed : Nat) : State :=
  let (a, st) := splitMix (BitVec.ofNat 64 seed)
  let (b, st) := splitMix st
  let (c, _) := splitMix st
  { xs := ⟨lo32 a, hi32 a, lo32 b, hi32 b, lo32 c⟩, weyl := hi32 c }

/-- `operator=(Initializer{seed, subsequence, offset})`.  Note: no field of the previous
    state is read. -/
def init (seed subsequence offset : Nat) : State :=
  discard offset (discardSubsequence subsequence (seedState seed))

/-- `reseed_rng`: subsequence index for slot `i` of `size` slots in event `e` (64-bit wrap) -/
def reseedIndex (e size i : Nat) : Nat := (e * size + i) % 2 ^ 64

/-- `GenerateCanonical32<double>`: the 53-bit integer that is multiplied by 2^-53 -/
def canonicalBits (upper lower : W) : BitVec 64 :=
  (upper.setWidth 64 <<< canonShift) ^^^ lower.setWidth 64

/-- two draws -> canonical numerator and new state -/
def canonical (s : State) : BitVec 64 × State :=
  let (u, s1) := draw s
  let (l, s2) := draw s1
  (canonicalBits u l, s2)

end CelerVerif.Xorwow
