/- Line protocol for the interaction model at `Float` (C++ side: harness/interact.cc). -/
import CelerVerif.Model.Interact
import CelerVerif.Num.F64
import CelerVerif.Model.Util

namespace CelerVerif.Interact
open CelerVerif CelerVerif.Util
open scoped CelerVerif.Num

def pf (s : String) : Option Float :=
  if s.length == 16 then (parseHex s).map fun n => Float.ofBits (UInt64.ofNat n) else none
def pfs (ws : List String) : Option (List Float) := ws.mapM pf
def hx (x : Float) : String := Float.toHexBits x
def hv (v : Vec3 Float) : String := s!"{hx v.x} {hx v.y} {hx v.z}"

/-- masses of the fixture's ParticleParams [MeV] -/
def emass : Float := 0.5109989461
def mumass : Float := 105.6583745

def actionStr : Action → String
  | .scattered => "scattered" | .absorbed => "absorbed" | .unchanged => "unchanged"
  | .failed => "failed"

def secStr (s : Secondary Float) : String :=
  let p := match s.pid with | some n => toString n | none => "-1"
  s!"{p} {hx s.energy} {hv s.dir}"

def showOutcome (nScript : Nat) : Outcome Float → String
  | .failed sz => s!"failed {sz} 0"
  | .exhausted => "script-exhausted"
  | .done i sz rest =>
    let draws := nScript - rest.length
    let secs := String.intercalate " " (i.secondaries.map secStr)
    let secs := if secs.isEmpty then "" else " " ++ secs
    match i.action with
    | .scattered =>
      s!"scattered {hx i.energy} {hv i.dir} {i.secondaries.length}{secs} {hx i.deposit} {sz} {draws}"
    | .absorbed => s!"absorbed {i.secondaries.length}{secs} {hx i.deposit} {sz} {draws}"
    | .unchanged => s!"unchanged {sz} {draws}"
    | .failed => s!"failed {sz} 0"

/-- split `a b c | d e f` at the bar -/
def splitBar (ws : List String) : List String × List String :=
  (ws.takeWhile (· ≠ "|"), (ws.dropWhile (· ≠ "|")).drop 1)

def parseNat (s : String) : Option Nat := if s.length ≤ 9 then s.toNat? else none

/-- `cap size <hex doubles…> | <script…>` -/
def withAlloc (ws : List String) (k : Nat → Nat → List Float → List Float → String) : String :=
  let (l, r) := splitBar ws
  match l with
  | c :: s :: ds =>
    match parseNat c, parseNat s, pfs ds, pfs r with
    | some cap, some sz, some d, some script => k cap sz d script
    | _, _, _, _ => "bad-op"
  | _ => "bad-op"

def optTail (nScript : Nat) (r : Option (Interaction Float × Script Float)) : String :=
  match r with
  | none => "script-exhausted"
  | some (i, rest) => showOutcome nScript (.done i 0 rest)


/-- `t <shell> <initial> <auger|-> <prob> <energy>` groups -/
def parseTransitions : List String → Option (List (Nat × Transition Float))
  | [] => some []
  | "t" :: sh :: ini :: au :: p :: e :: rest =>
    match parseNat sh, parseNat ini, pf p, pf e, parseTransitions rest with
    | some sh, some ini, some p, some e, some r =>
      if au == "-" then some ((sh, ⟨ini, none, p, e⟩) :: r)
      else match parseNat au with
        | some a => some ((sh, ⟨ini, some a, p, e⟩) :: r)
        | none => none
    | _, _, _, _, _ => none
  | _ => none

/-- every transition belongs to an existing shell and leads to strictly outer shells (so the
    real loop terminates) -/
def transitionsValid (n : Nat) (ts : List (Nat × Transition Float)) : Bool :=
  ts.all fun (sh, t) => sh < n && t.initial > sh && (match t.auger with | some a => a > sh | none => true)

def relaxOp (ws : List String) : String :=
  let (l, r) := splitBar ws
  match l with
  | sh :: n :: ec :: gc :: ts =>
    match parseNat sh, parseNat n, pf ec, pf gc, parseTransitions ts, pfs r with
    | some sh, some n, some ec, some gc, some ts, some script =>
      if n == 0 || n > 64 || sh ≥ n || !transitionsValid n ts then "bad-op" else
      let shells := (List.range n).map fun i => (ts.filter fun x => x.1 == i).map (·.2)
      match atomicRelaxation shells ec gc sh script with
      | none => "script-exhausted"
      | some (secs, sum, rest) =>
        let body := String.intercalate " " (secs.map secStr)
        let body := if body.isEmpty then "" else " " ++ body
        s!"relaxed {secs.length} {hx sum}{body} {script.length - rest.length}"
    | _, _, _, _, _, _ => "bad-op"
  | _ => "bad-op"

def driverStep (st : Unit) (line : String) : Unit × String :=
  (st, match words line with
  | ["consts"] =>
    String.intercalate " " ([pi, twoPi, knSecondaryCutoff, minAccurateSintheta, (0.5 : Float),
      (1.6 : Float), (1.6 : Float) / (3 : Float), (0.25 : Float), emass, mumass,
      (1 : Float) / emass].map hx)
  | "kn" :: rest => withAlloc rest fun cap sz d script =>
      match d with
      | [e, x, y, z] =>
        showOutcome script.length (kleinNishina cap sz e ((1 : Float) / emass) ⟨x, y, z⟩ script)
      | _ => "bad-op"
  | "gg" :: rest => withAlloc rest fun cap sz d script =>
      match d with
      | [e, x, y, z] => showOutcome script.length (ePlusGG cap sz e emass ⟨x, y, z⟩ script)
      | _ => "bad-op"
  | "mb" :: who :: rest =>
      if who != "e-" && who != "e+" then "bad-op" else
      withAlloc rest fun cap sz d script =>
      match d with
      | [e, cut, x, y, z] =>
        showOutcome script.length (mollerBhabha cap sz (who == "e-") e emass cut ⟨x, y, z⟩ script)
      | _ => "bad-op"
  | "muhad" :: rest => withAlloc rest fun cap sz d script =>
      match d with
      | [e, cut, x, y, z] =>
        showOutcome script.length (muHadBetheBloch cap sz e mumass emass cut ⟨x, y, z⟩ script)
      | _ => "bad-op"
  | "bhlow" :: rest => withAlloc rest fun cap sz d script =>
      match d with
      | [e, x, y, z] =>
        -- the modelled branch of BetheHeitlerInteractor is `inc_energy < 2 MeV`
        if e < 2.0 then showOutcome script.length (betheHeitlerLow cap sz e emass ⟨x, y, z⟩ script)
        else "bad-op"
      | _ => "bad-op"
  | "bremtail" :: rest =>
      let (l, r) := splitBar rest
      (match pfs l, pfs r with
       | some [e, x, y, z, eg], some script =>
         optTail script.length (bremTail e emass ⟨x, y, z⟩ eg script)
       | _, _ => "bad-op")
  | "relax" :: rest => relaxOp rest
  | "mubrems" :: rest => withAlloc rest fun cap sz d script =>
      match d with
      | [e, cut, x, y, z, c0, re, se, dn, icz, zz, am, b, bp] =>
        showOutcome script.length
          (muBrems ⟨c0, re, se, dn, icz, zz, am, b, bp⟩ cap sz e mumass emass cut ⟨x, y, z⟩ script)
      | _ => "bad-op"
  | "coulomb" :: sgn :: ff :: iso :: nd :: rest =>
      let (l, r) := splitBar rest
      if !(sgn == "-" || sgn == "+") || !(ff == "0" || ff == "1" || ff == "2")
          || !(iso == "a" || iso == "b") then "bad-op" else
      (match parseNat nd, pfs l, pfs r with
       | some nd, some [e, cut, x, y, z, c, mt], some script =>
         -- `cos θ` (and the number of uniforms the real WentzelDistribution consumed) are recorded
         -- oracle inputs; the harness re-checks them against its own sample
         if !(e > 0.0 && e < 1e8 && cut > 0.0) then "bad-op" else
         match script.drop nd with
         | uPhi :: rest =>
           if script.length < nd then "script-exhausted" else
           showOutcome script.length (.done (coulombFinal e emass mt ⟨x, y, z⟩ c uPhi) 0 rest)
         | [] => "script-exhausted"
       | _, _, _ => "bad-op")
  | "rayleigh" :: el :: rest =>
      let (l, r) := splitBar rest
      if !(el == "0" || el == "1" || el == "2") then "bad-op" else
      (match pfs l, pfs r with
       | some [e, x, y, z, k1, k2, a0, a1, a2, b0, b1, b2, n0, n1, n2], some script =>
         optTail script.length
           (rayleigh ⟨⟨a0, a1, a2⟩, ⟨b0, b1, b2⟩, ⟨n0, n1, n2⟩⟩ k1 k2 e ⟨x, y, z⟩ script)
       | _, _ => "bad-op")
  | "rotate" :: rest =>
      (match pfs rest with
       | some [a, b, c, x, y, z] => hv (rotate ⟨a, b, c⟩ ⟨x, y, z⟩)
       | _ => "bad-op")
  | "exitdir" :: rest =>
      (match pfs rest with
       | some [c, x, y, z, u] => hv (exitingDirection c ⟨x, y, z⟩ u)
       | _ => "bad-op")
  | "calcexit" :: rest =>
      (match pfs rest with
       | some [p, x, y, z, q, a, b, c] => hv (calcExitingDirection p ⟨x, y, z⟩ q ⟨a, b, c⟩)
       | _ => "bad-op")
  | _ => "bad-op")

end CelerVerif.Interact
