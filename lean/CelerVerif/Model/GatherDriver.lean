/- Line protocol for the gather model (C++ side: harness/gather.cc, lines prefixed `I`). -/
import CelerVerif.Model.Gather
import CelerVerif.Model.Util

namespace CelerVerif.Gather
open CelerVerif.Util

/-- minimal-width lower-case hex (`%llx`) -/
def hexMin (n : Nat) : String :=
  if n == 0 then "0" else
    let rec go (fuel n : Nat) (acc : List Char) : List Char :=
      match fuel with
      | 0 => acc
      | fuel + 1 => if n == 0 then acc else go fuel (n / 16) (hexChar (n % 16) :: acc)
    String.ofList (go 64 n [])

def showId : Id → String
  | none => "x"
  | some n => hexMin n

def showF (x : Float) : String := toHex 16 x.toBits.toNat
def showV3 (v : V3 Float) : String := showF v.x ++ ":" ++ showF v.y ++ ":" ++ showF v.z

def parseId (s : String) : Option Id :=
  if s == "x" then some none else (parseHex s).map some

def parseF (s : String) : Option Float :=
  if s.length != 16 then none else (parseHex s).map (fun n => Float.ofBits (UInt64.ofNat n))

def parseDec (s : String) : Option Nat := s.toNat?

def joinWith (sep : String) (l : List String) : String := sep.intercalate l

def splitOn (s : String) (sep : String) : List String := s.splitOn sep

/-- `key=value` lookup among words -/
def kv (ws : List String) (key : String) : Option String :=
  ws.findSome? fun w => match w.splitOn "=" with
    | [k, v] => if k == key then some v else none
    | _ => none

def kvNat (ws : List String) (key : String) : Option Nat := (kv ws key).bind parseDec

/-! ### selection masks -/
def bit (m i : Nat) : Bool := (m >>> i) % 2 == 1

def pointSelOfMask (m off : Nat) : PointSel :=
  ⟨bit m off, bit m (off + 1), bit m (off + 2), bit m (off + 3), bit m (off + 4)⟩

def selOfMask (m : Nat) : Selection :=
  ⟨pointSelOfMask m 0, pointSelOfMask m 5, bit m 10, bit m 11, bit m 12, bit m 13, bit m 14,
   bit m 15, bit m 16⟩

def b2n (b : Bool) : Nat := if b then 1 else 0

def maskOfPointSel (s : PointSel) (off : Nat) : Nat :=
  (b2n s.time <<< off) + (b2n s.pos <<< (off + 1)) + (b2n s.dir <<< (off + 2))
    + (b2n s.volume <<< (off + 3)) + (b2n s.energy <<< (off + 4))

def maskOfSel (s : Selection) : Nat :=
  maskOfPointSel s.pre 0 + maskOfPointSel s.post 5 + (b2n s.eventId <<< 10)
    + (b2n s.parentId <<< 11) + (b2n s.trackStepCount <<< 12) + (b2n s.actionId <<< 13)
    + (b2n s.stepLength <<< 14) + (b2n s.particle <<< 15) + (b2n s.edep <<< 16)

/-! ### callback specs -/
structure CbSpec where
  kind : CbKind
  iface : Iface

def allSome {β : Type} : List (Option β) → Option (List β)
  | [] => some []
  | none :: _ => none
  | some x :: r => (allSome r).map (x :: ·)

def parseDetMap (s : String) : Option (List (Nat × Nat)) :=
  if s == "-" then some [] else
    allSome ((s.splitOn ",").map fun w => match w.splitOn ">" with
      | [v, d] => match parseDec v, parseDec d with
        | some v, some d => some (v, d)
        | _, _ => none
      | _ => none)

def parseCb (nvol : Nat) (s : String) : Option CbSpec :=
  match s.splitOn ":" with
  | ["calo", vs] =>
    match allSome ((vs.splitOn ",").map parseDec) with
    | some vols =>
      if vols.isEmpty || vols.any (· ≥ nvol) then none else
      some ⟨.calo vols.length, caloIface vols⟩
    | none => none
  | [k, m, dm, nz] =>
    if k != "raw" && k != "det" then none else
    match parseHex m, parseDetMap dm with
    | some m, some dm =>
      if m ≥ 2 ^ 17 || (nz != "0" && nz != "1") || dm.any (fun p => p.1 ≥ nvol) then none
      else if k == "det" && dm.isEmpty then none
      else some ⟨if k == "raw" then .raw else .det,
                 ⟨selOfMask m, dm.mergeSort (fun a b => a.1 ≤ b.1), nz == "1"⟩⟩
    | _, _ => none
  | _ => none

/-! ### readings -/
def parsePoint (f : List String) : Option (PointRead Float) :=
  match f with
  | [vol, out, t, px, py, pz, dx, dy, dz, e] =>
    match parseId vol, parseF t, parseF px, parseF py, parseF pz, parseF dx, parseF dy, parseF dz,
          parseF e with
    | some vol, some t, some px, some py, some pz, some dx, some dy, some dz, some e =>
      if out != "0" && out != "1" then none else
      some ⟨vol, out == "1", t, ⟨px, py, pz⟩, ⟨dx, dy, dz⟩, e⟩
    | _, _, _, _, _, _, _, _, _ => none
  | _ => none

/-- `some none` = inactive slot, `none` = malformed -/
def parsePre (w : String) : Option (Option (PointRead Float)) :=
  if w == "-" then some none else (parsePoint (w.splitOn ",")).map some

def parsePost (w : String) : Option (Option (PostRead Float)) :=
  if w == "-" then some none else
  match w.splitOn "," with
  | tid :: ev :: par :: ns :: act :: len :: ptc :: edep :: rest =>
    match parseId tid, parseId ev, parseId par, parseHex ns, parseId act, parseF len, parseId ptc,
          parseF edep, parsePoint (rest.take 10), (rest.drop 10) with
    | some tid, some ev, some par, some ns, some act, some len, some ptc, some edep, some pt,
      [status] =>
      match parseDec status with
      | some st => some (some ⟨tid, ev, par, ns, act, len, ptc, edep, pt, st⟩)
      | none => none
    | _, _, _, _, _, _, _, _, _, _ => none
  | _ => none

/-! ### printing what the callbacks see -/
def field {β : Type} (present : Bool) (f : β → String) (l : List β) : String :=
  if present then joinWith "," (l.map f) else "-"

def showRaw (p : Params) (st : StepState Float) : String :=
  let s := p.sel
  let pt (k : String) (ps : PointSel) (g : SlotData Float → PointData Float) : String :=
    " t" ++ k ++ "=" ++ field ps.time (fun x => showF (g x).time) st
    ++ " p" ++ k ++ "=" ++ field ps.pos (fun x => showV3 (g x).pos) st
    ++ " d" ++ k ++ "=" ++ field ps.dir (fun x => showV3 (g x).dir) st
    ++ " v" ++ k ++ "=" ++ field ps.volume (fun x => showId (g x).volume) st
    ++ " e" ++ k ++ "=" ++ field ps.energy (fun x => showF (g x).energy) st
  s!"n={st.length}"
  ++ " tid=" ++ field true (fun x => showId x.trackId) st
  ++ " det=" ++ field p.detector.isSome (fun x => showId x.detector) st
  ++ " ev=" ++ field s.eventId (fun x => showId x.eventId) st
  ++ " par=" ++ field s.parentId (fun x => showId x.parentId) st
  ++ " nst=" ++ field s.trackStepCount (fun x => hexMin x.stepCount) st
  ++ " act=" ++ field s.actionId (fun x => showId x.actionId) st
  ++ " len=" ++ field s.stepLength (fun x => showF x.stepLength) st
  ++ " ptc=" ++ field s.particle (fun x => showId x.particle) st
  ++ " edep=" ++ field s.edep (fun x => showF x.edep) st
  ++ pt "0" s.pre (·.pre) ++ pt "1" s.post (·.post)

def vecField {β : Type} (f : β → String) (l : List β) : String :=
  if l.isEmpty then "-" else joinWith "," (l.map f)

def showDet (o : DetOut Float) : String :=
  let pt (k : String) (d : DetPoint Float) : String :=
    " t" ++ k ++ "=" ++ vecField showF d.time ++ " p" ++ k ++ "=" ++ vecField showV3 d.pos
    ++ " d" ++ k ++ "=" ++ vecField showV3 d.dir ++ " e" ++ k ++ "=" ++ vecField showF d.energy
  s!"n={o.detector.length}"
  ++ " det=" ++ vecField showId o.detector ++ " tid=" ++ vecField showId o.trackId
  ++ " ev=" ++ vecField showId o.eventId ++ " par=" ++ vecField showId o.parentId
  ++ " nst=" ++ vecField hexMin o.stepCount ++ " len=" ++ vecField showF o.stepLength
  ++ " ptc=" ++ vecField showId o.particle ++ " edep=" ++ vecField showF o.edep
  ++ pt "0" o.pre ++ pt "1" o.post

/-! ### driver state -/
structure DState where
  params : Option Params := none
  cbs : List CbKind := []
  slots : Nat := 0
  streams : Nat := 0
  nact : Nat := 0
  nptc : Nat := 0
  adiag : Bool := false
  sbins : Nat := 0
  /-- per stream gathered state (created with the core state) -/
  step : List (StepState Float) := []
  /-- per stream: lazily created calorimeter tallies, one list per calo callback -/
  tallies : List (Option (List (List Float))) := []
  /-- per stream: lazily created diagnostic counters -/
  acounts : List (Option (List Nat)) := []
  scounts : List (Option (List Nat)) := []

instance : Inhabited DState := ⟨{}⟩

def caloSizes (cbs : List CbKind) : List Nat :=
  cbs.filterMap fun c => match c with | .calo n => some n | _ => none

/-- `calc_total_energy_deposition` of the j-th calorimeter -/
def caloTotal (d : DState) (j n : Nat) : List Float :=
  overStreams (List.replicate n 0.0) (d.tallies.map fun t => t.map fun l => l.getD j [])

def showViews (p : Params) (d : DState) (vs : List (View Float)) : String :=
  let rec go (vs : List (View Float)) (firstRaw : Option String) (j : Nat) : String :=
    match vs with
    | [] => ""
    | .raw st :: r =>
      let s := showRaw p st
      match firstRaw with
      | some f => " | r k=1 " ++ (if s == f then "=" else s) ++ go r firstRaw j
      | none => " | r k=1 " ++ s ++ go r (some s) j
    | .det o :: r => " | d k=1 " ++ showDet o ++ go r firstRaw j
    | .calo t :: r =>
      " | c" ++ String.join ((caloTotal d j t.length).map fun x => " " ++ showF x)
      ++ go r firstRaw (j + 1)
  go vs none 0

def doStep (d : DState) (p : Params) (stream : Nat) (pre : List (Option (PointRead Float)))
    (post : List (Option (PostRead Float))) : DState × String :=
  let st := d.step.getD stream []
  let st' := gatherStep p pre post st
  let old : List (List Float) := match d.tallies.getD stream none with
    | some t => t
    | none => (caloSizes d.cbs).map fun n => List.replicate n 0.0
  let (views, ts) := fanOut p.sel st' d.cbs old
  -- with one track slot the ActionSequence never runs the diagnostic (no state is allocated)
  let ac := if d.adiag && d.slots != 1 then
      some (adiagSeqStep d.slots d.nact post ((d.acounts.getD stream none).getD
        (List.replicate (d.nact * d.nptc) 0)))
    else none
  let sc := if d.sbins > 0 then
      some (sdiagStep d.sbins post ((d.scounts.getD stream none).getD
        (List.replicate (d.sbins * d.nptc) 0)))
    else none
  let d' := { d with step := d.step.set stream st', tallies := d.tallies.set stream (some ts),
                     acounts := d.acounts.set stream ac, scounts := d.scounts.set stream sc }
  (d', s!"step {stream}" ++ showViews p d' views)

def showEnd (d : DState) : String :=
  let calos := (caloSizes d.cbs).zipIdx
  let cidx : List Nat := (d.cbs.zipIdx.filter fun c => match c.1 with
    | .calo _ => true | _ => false).map (·.2)
  let cs := String.join ((calos.zip cidx).map fun ((n, j), cb) =>
    s!" | c{cb}" ++ String.join ((caloTotal d j n).map fun x => " " ++ showF x))
  let a := if d.adiag then
      " | a" ++ String.join ((sumStreams (List.replicate (d.nact * d.nptc) 0) d.acounts).map
        fun x => s!" {x}")
    else ""
  let s := if d.sbins > 0 then
      " | s" ++ String.join ((sumStreams (List.replicate (d.sbins * d.nptc) 0) d.scounts).map
        fun x => s!" {x}")
    else ""
  "end" ++ cs ++ a ++ s

def showErr : MergeErr → String
  | .noData => "no-data"
  | .dupVolume => "dup-volume"
  | .mixing => "mixing"

def driverStep (d : DState) (line : String) : DState × String :=
  match words line with
  | "params" :: ws =>
    match kvNat ws "nvol", kv ws "cbs" with
    | some nvol, some cbs =>
      match allSome ((cbs.splitOn ";").map (parseCb nvol)) with
      | some specs =>
        match mergeParams nvol (specs.map (·.iface)) with
        | .error e => ({}, "params validate-error " ++ showErr e)
        | .ok p =>
          let det := match p.detector with
            | none => "-"
            | some t => joinWith "," (t.map showId)
          ({ params := some p, cbs := specs.map (·.kind) },
           s!"params ok sel={hexMin (maskOfSel p.sel)} det={det} nz={b2n p.nz} pre={b2n (hasPreAction p)}")
      | none => (d, "bad-op")
    | _, _ => (d, "bad-op")
  | "config" :: ws =>
    match d.params, kvNat ws "slots", kvNat ws "streams", kvNat ws "nact", kvNat ws "nptc",
          kvNat ws "adiag", kvNat ws "sbins" with
    | some _, some slots, some streams, some nact, some nptc, some adiag, some sbins =>
      ({ d with slots, streams, nact, nptc, adiag := adiag == 1, sbins,
                step := List.replicate streams (List.replicate slots SlotData.init),
                tallies := List.replicate streams none,
                acounts := List.replicate streams none,
                scounts := List.replicate streams none }, "config ok")
    | _, _, _, _, _, _, _ => (d, "bad-op")
  | "step" :: stream :: ws =>
    match d.params, parseDec stream with
    | some p, some stream =>
      if stream ≥ d.streams then (d, "bad-op") else
      let pre := ws.takeWhile (· != "/")
      let post := (ws.dropWhile (· != "/")).drop 1
      match allSome (pre.map parsePre), allSome (post.map parsePost) with
      | some pre, some post =>
        if post.length != d.slots || (pre.length != d.slots && pre.length != 0) then (d, "bad-op")
        else doStep d p stream pre post
      | _, _ => (d, "bad-op")
    | _, _ => (d, "bad-op")
  | ["end"] => (d, showEnd d)
  | _ => (d, "bad-op")

end CelerVerif.Gather
