/- Line protocol for the navigation model at `Float` (C++ side: harness/nav.cc). -/
import CelerVerif.Model.Nav
import CelerVerif.Model.NavBih
import CelerVerif.Model.SurfDriver
import CelerVerif.Num.F64
import CelerVerif.Model.Util

namespace CelerVerif.Nav
open CelerVerif CelerVerif.Surf CelerVerif.Util

/-! ### parsing the `def …` line (flat token stream written by `dump_params`) -/

abbrev P := StateT (List String) Option

def tok : P String := fun
  | [] => none
  | w :: ws => some (w, ws)

def expect (s : String) : P Unit := do
  let w ← tok
  if w == s then pure () else failure

def pNat : P Nat := do
  let w ← tok
  match w.toNat? with
  | some n => pure n
  | none => failure

def pOptNat : P (Option Nat) := do
  let w ← tok
  if w == "-" then pure none
  else match w.toNat? with
    | some n => pure (some n)
    | none => failure

def pF : P Float := do
  let w ← tok
  match pf w with
  | some x => pure x
  | none => failure

def pRep {β : Type} (n : Nat) (p : P β) : P (List β) :=
  match n with
  | 0 => pure []
  | k + 1 => do
    let x ← p
    let xs ← pRep k p
    pure (x :: xs)

def pList {β : Type} (p : P β) : P (List β) := do
  let n ← pNat
  pRep n p

def pVec : P (Vec3 Float) := do
  let x ← pF; let y ← pF; let z ← pF
  pure ⟨x, y, z⟩

def pSurface : P (Surface Float × List Nat) := do
  let tag ← tok
  let d ← pList pF
  let conn ← pList pNat
  match parseSurface tag d with
  | some s => pure (s, conn)
  | none => failure

def pVolume : P (Volume Float) := do
  let faces ← pList pNat
  let logic ← pList pNat
  let flags ← pNat
  let dau ← pOptNat
  let lo ← pVec
  let hi ← pVec
  pure { faces := faces, logic := logic, flags := flags, daughter := dau, bbLo := lo, bbHi := hi }

def pInner : P (BihInner Float) := do
  let parent ← pOptNat
  let axis ← pNat
  let lpos ← pF
  let lchild ← pOptNat
  let rpos ← pF
  let rchild ← pOptNat
  pure ⟨parent, axis, lpos, lchild, rpos, rchild⟩

def pLeaf : P BihLeaf := do
  let parent ← pOptNat
  let vols ← pList pNat
  pure ⟨parent, vols⟩

def pUniverse : P (Universe Float) := do
  expect "U"
  let kind ← tok
  if kind == "simple" then do
    expect "nsurf"
    let ss ← pList pSurface
    expect "nvol"
    let vs ← pList pVolume
    expect "bg"
    let bg ← pOptNat
    expect "bih"
    let inner ← pList pInner
    let leaves ← pList pLeaf
    let inf ← pList pNat
    pure (.simple { surfaces := (ss.map (·.1)).toArray, conn := (ss.map (·.2)).toArray,
                    volumes := vs.toArray, background := bg, inner := inner.toArray,
                    leaves := leaves.toArray, infVols := inf })
  else if kind == "rect" then do
    let d0 ← pNat; let d1 ← pNat; let d2 ← pNat
    let gx ← pList pF; let gy ← pList pF; let gz ← pList pF
    let offs ← pRep 4 pNat
    let dau ← pList pOptNat
    pure (.rect { dims := #[d0, d1, d2], grid := #[gx.toArray, gy.toArray, gz.toArray],
                  offsets := offs.toArray, daughters := dau.toArray })
  else failure

def pTransform : P (Transform Float) := do
  let d ← pList pF
  match d with
  | [] => pure .none
  | [x, y, z] => pure (.translation ⟨x, y, z⟩)
  | [a, b, c, d, e, f, g, h, i, x, y, z] =>
    pure (.transformation ⟨⟨⟨a, b, c⟩, ⟨d, e, f⟩, ⟨g, h, i⟩⟩, ⟨x, y, z⟩⟩)
  | _ => failure

def pGeo : P (Geo Float) := do
  expect "tol"
  let rel ← pF
  let abs ← pF
  expect "nuniv"
  let us ← pList pUniverse
  expect "ndau"
  let ds ← pList (do let u ← pNat; let t ← pNat; pure (u, t))
  expect "ntra"
  let ts ← pList pTransform
  expect "idx"
  let k ← pNat
  let so ← pRep k pNat
  let vo ← pRep k pNat
  expect "end"
  pure { tolRel := rel, tolAbs := abs, universes := us.toArray, daughters := ds.toArray,
         transforms := ts.toArray, surfOff := so.toArray, volOff := vo.toArray }

/-! ### printing -/

def hxd : Option Float → String
  | some x => hx x
  | none => "7ff0000000000000"

def ido : Option Nat → String
  | some n => toString n
  | none => "-"

def b01 (b : Bool) : String := if b then "1" else "0"

def showState (g : Geo Float) (s : State Float) : String :=
  let head := s!"L {ido s.level} sl {ido s.surfaceLevel} s {ido s.surf} {b01 s.sense} b {b01 s.boundary} ns {hxd s.nextStep} nf {ido s.nextSurf} {b01 s.nextSense} nl {ido s.nextLevel}"
  let body :=
    if s.level.isSome then
      let ls := s.levels.toList.map fun l =>
        s!" | u {l.uid} v {l.vol} {hv l.pos} {hv l.dir}"
      let out := (s.levels.getD 0 default).vol == 0
      String.join ls ++ s!" | vid {globalVolume g s} sid {ido (globalSurface g s)} out {b01 out}"
    else ""
  head ++ body ++ s!" fail {b01 s.failed}"

def senseInt : SignedSense → String
  | .inside => "-1" | .on => "0" | .outside => "1"

/-- per-level per-face sub-query answers (same text as `Harness::show_faces`) -/
def showFaces (g : Geo Float) (s : State Float) : String :=
  let lev (l : Nat) : String :=
    let ls := s.levels.getD l default
    match g.univ ls.uid with
    | .rect _ => s!" | L{l} rect"
    | .simple u =>
      let vol := u.volumes.getD ls.vol default
      let onFace := if s.surfaceLevel == some l then findFace vol s.surf else none
      let rec go (i : Nat) (fs : List Nat) : String :=
        match fs with
        | [] => ""
        | sid :: rest =>
          let sf := u.surfaces.getD sid default
          let slots := isectSlots sf ls.pos ls.dir (onFace == some i)
          s!" f{i} s{sid} {senseInt (sf.calcSense ls.pos)}"
            ++ String.join (slots.map fun d => " " ++ hxd d) ++ go (i + 1) rest
      s!" | L{l}" ++ go 0 vol.faces
  "faces" ++ String.join ((List.range (s.lvl + 1)).map lev)

/-! ### driver -/

structure DState where
  geo : Option (Geo Float)
  st : State Float
  inited : Bool

def DState.init : DState := ⟨none, State.init, false⟩

def p3 (ws : List String) : Option (Vec3 Float) :=
  match ws with
  | [a, b, c] => do
    let x ← pf a; let y ← pf b; let z ← pf c
    pure ⟨x, y, z⟩
  | _ => none

def isHex16 (s : String) : Bool := s.length == 16

def pd (s : String) : Option Float := if isHex16 s then pf s else none

def pv3 (ws : List String) : Option (Vec3 Float) :=
  if ws.all isHex16 then p3 ws else none

def navStep (g : Geo Float) (d : DState) (ws : List String) : DState × String :=
  let s := d.st
  match ws with
  | ["init", a, b, c, u, v, w] =>
    match pv3 [a, b, c], pv3 [u, v, w] with
    | some pos, some dir =>
      let s' := initTrack g s pos dir
      ({ d with st := s', inited := true }, showState g s')
    | _, _ => (d, "bad-op")
  | ["locate", a, b, c] =>
    match pv3 [a, b, c] with
    | some pos =>
      let s' := initTrack g State.init pos ⟨0.0, 0.0, 1.0⟩
      (d, s!"loc {globalVolume g s'} fail {b01 s'.failed}")
    | none => (d, "bad-op")
  | ["bihwf"] =>
    -- the decidable BIH well-formedness check on every simple unit of the loaded geometry
    let bad := (List.range g.universes.size).filterMap fun i =>
      match g.univ i with
      | .simple u => if bihWellFormed u then none else some s!"{i}:{bihDiagnose u}"
      | .rect _ => none
    (d, if bad.isEmpty then "bihwf ok" else "bihwf bad " ++ " ".intercalate bad)
  | ["bihcand", uid, a, b, c] =>
    match uid.toNat?, pv3 [a, b, c] with
    | some i, some pos =>
      if i < g.universes.size then
        match g.univ i with
        | .simple u => (d, "cand" ++ String.join ((bihCandidates u pos).map fun v => s!" {v}"))
        | .rect _ => (d, "cand rect")
      else (d, "bad-op")
    | _, _ => (d, "bad-op")
  | _ =>
    if !d.inited then (d, "bad-op") else
    match ws with
    | ["find"] =>
      let (s', dist, bnd) := findNextStep g s none
      ({ d with st := s' }, s!"prop {hxd dist} {b01 bnd} {showState g s'}")
    | ["find", m] =>
      match pd m with
      | some mx =>
        if mx > 0.0 then
          let (s', dist, bnd) := findNextStep g s (some mx)
          ({ d with st := s' }, s!"prop {hxd dist} {b01 bnd} {showState g s'}")
        else (d, "bad-op")
      | none => (d, "bad-op")
    | ["move_internal", x] =>
      match pd x with
      | some dist =>
        let ns := dval s.nextStep
        if s.hasNextStep && dist > 0.0 && dist <= ns && (dist != ns || s.nextSurf.isNone) then
          let s' := moveInternal s dist
          ({ d with st := s' }, showState g s')
        else (d, "bad-op")
      | none => (d, "bad-op")
    | ["move_pos", a, b, c] =>
      match pv3 [a, b, c] with
      | some pos =>
        let s' := moveInternalPos g s pos
        ({ d with st := s' }, showState g s')
      | none => (d, "bad-op")
    | ["move_to_boundary"] =>
      if s.boundary && s.hasNextStep && s.nextSurf.isSome then
        let s' := moveToBoundary s
        ({ d with st := s' }, showState g s')
      else (d, "bad-op")
    | ["cross"] =>
      if s.isOnBoundary && !s.hasNextStep then
        let s' := crossBoundary g s
        ({ d with st := s' }, showState g s')
      else (d, "bad-op")
    | ["set_dir", u, v, w] =>
      match pv3 [u, v, w] with
      | some dir =>
        let s' := setDir g s dir
        ({ d with st := s' }, showState g s')
      | none => (d, "bad-op")
    | ["state"] => (d, showState g s)
    | ["faces"] => (d, showFaces g s)
    | _ => (d, "bad-op")

def driverStep (d : DState) (line : String) : DState × String :=
  match words line with
  | "def" :: rest =>
    match (pGeo.run rest) with
    | some (g, []) => ({ geo := some g, st := State.init, inited := false }, "ok")
    | _ => ({ geo := none, st := State.init, inited := false }, "bad-def")
  | "geo" :: _ => (d, "ok")       -- the geometry itself arrives on the following `def` line
  | ws =>
    match d.geo with
    | none => (d, "bad-op")
    | some g => navStep g d ws

end CelerVerif.Nav
