/-
Executable model (generic in `Num α`) of the energy ledger of one step and of a whole event:
  src/celeritas/global/alongstep/detail/MeanELoss.hh      (`MeanELoss::calc_eloss`, cut logic)
  src/celeritas/global/alongstep/detail/FluctELoss.hh     (`FluctELoss::calc_eloss`, clamp / mean
                                                           fallback around the sampled loss)
  src/celeritas/global/alongstep/detail/ElossApplier.hh   (`ElossApplier::operator()`)
  src/celeritas/phys/InteractionApplier.hh                (`InteractionApplierBaseImpl::operator()`)
  src/celeritas/phys/CutoffView.hh                        (`CutoffView::apply`)
  src/celeritas/phys/detail/TrackingCutExecutor.hh        (`TrackingCutExecutor::operator()`)
  src/celeritas/geo/detail/BoundaryExecutor.hh            (leaving the world ⇒ killed)
  src/celeritas/track/detail/ProcessSecondariesExecutor.hh(secondary ⇒ track with the same energy)
Only `+ − <` (and `==`) occur.  `calc_mean_energy_loss` (C14) and the fluctuation sample are
INPUTS (`mean`, `sampled`); the interactor's result (C04) is an INPUT (`Interaction`).
-/
import CelerVerif.Num.Basic

namespace CelerVerif.Ledger
open CelerVerif
open scoped CelerVerif.Num

variable {α : Type} [Num α]

/-- `TrackStatus` (celeritas/Types.hh), in the order of the enum -/
inductive Status | inactive | initializing | alive | errored | killed
deriving DecidableEq, Repr, Inhabited

def Status.rank : Status → Nat
  | .inactive => 0 | .initializing => 1 | .alive => 2 | .errored => 3 | .killed => 4

/-! ### energy-loss handlers -/

/-- `MeanELoss::calc_eloss(track, step, apply_cut)`; `mean` = `calc_mean_energy_loss(...)`,
    `low` = `lowest_electron_energy` -/
def meanELoss (e low mean : α) (applyCut : Bool) : α :=
  if applyCut && Num.lt e low then e
  else if applyCut && Num.le (e - mean) low then e
  else mean

/-- the clamp / fallback around the sampled loss inside `FluctELoss::calc_eloss` -/
def fluctClamp (e mean sampled : α) (applyCut : Bool) : α :=
  if Num.lt mean e then
    if Num.ge sampled e then (if applyCut then e else mean) else sampled
  else mean

/-- `FluctELoss::calc_eloss`; `sampled` = what `sample_energy_loss` returned (only used when
    `mean < e`) -/
def fluctELoss (e low mean sampled : α) (applyCut : Bool) : α :=
  if applyCut && Num.lt e low then e
  else
    let eloss := fluctClamp e mean sampled applyCut
    if applyCut && Num.le (e - eloss) low then e else eloss

/-- what `ElossApplier` does to a track that ended the step with zero energy -/
inductive StopOutcome
  | none          -- not stopped
  | killedRange   -- no at-rest process: status killed, post-step action = range action
  | forcedDiscrete -- has at-rest process: post-step action = discrete action
deriving DecidableEq, Repr, Inhabited

structure ElossOut (α : Type) where
  e : α
  dep : α
  stop : StopOutcome
deriving Repr, Inhabited

/-- `ElossApplier::operator()`.
    `applicable` = `eloss.is_applicable(track)` (status ≠ errored ∧ particle has an eloss process);
    `psaBoundary` = post-step action is the boundary action (⇒ `apply_cut = false`);
    `calcE applyCut` = `eloss.calc_eloss(track, step, apply_cut)`. -/
def elossApplier (applicable psaBoundary hasAtRest : Bool) (e dep : α) (calcE : Bool → α) :
    ElossOut α :=
  if !applicable || Num.eq e (0 : α) then ⟨e, dep, .none⟩
  else if Num.gt (calcE (!psaBoundary)) (0 : α) then
    -- deposited > 0: deposit_energy(deposited); subtract_energy(deposited)
    ⟨e - calcE (!psaBoundary), dep + calcE (!psaBoundary),
      if Num.eq (e - calcE (!psaBoundary)) (0 : α) then
        (if hasAtRest then .forcedDiscrete else .killedRange) else .none⟩
  else
    ⟨e, dep, if Num.eq e (0 : α) then
        (if hasAtRest then .forcedDiscrete else .killedRange) else .none⟩

/-! ### discrete interaction -/

/-- `Interaction::Action` -/
inductive IAction | scattered | absorbed | unchanged | failed
deriving DecidableEq, Repr, Inhabited

/-- `Secondary` : particle id + kinetic energy; a cleared secondary (`secondary = {}`) is `none` -/
structure Sec (α : Type) where
  pid : Nat
  e : α
deriving Repr, Inhabited

structure Interaction (α : Type) where
  action : IAction
  energy : α            -- post-interaction kinetic energy of the incident track
  edep : α              -- `energy_deposition`
  secs : List (Option (Sec α))
deriving Repr, Inhabited

/-- static particle data needed by the ledger -/
structure Particles (α : Type) where
  mass : Nat → α
  anti : Nat → Bool
  /-- production-cut energy in the current material for gamma / electron / positron ids
      (`CutoffView::apply` only looks at those three), `none` for every other particle -/
  cut : Nat → Option α

/-- `CutoffView::apply(secondary)` for a non-cleared secondary -/
def cutApplies (P : Particles α) (s : Sec α) : Bool :=
  match P.cut s.pid with
  | some c => Num.lt s.e c
  | none => false

/-- the secondary loop of `InteractionApplierBaseImpl::operator()`: returns the updated
    deposition accumulator and the surviving secondaries (cleared ones are `none`).
    A cleared secondary is skipped: `CutoffView::apply` returns false for an invalid particle id
    (explicit guard since the repair of finding C01/cutoff-apply-cleared-secondary; before it the
    C++ compared the invalid id with `ids.positron` and, in a problem lacking one of gamma /
    electron / positron, indexed the cutoff table out of bounds). -/
def cutLoop (P : Particles α) : α → List (Option (Sec α)) → α × List (Option (Sec α))
  | dep, [] => (dep, [])
  | dep, none :: rest =>
    let r := cutLoop P dep rest
    (r.1, none :: r.2)
  | dep, some s :: rest =>
    if cutApplies P s then
      let dep1 := dep + s.e
      let dep2 := if P.anti s.pid then dep1 + (2 : α) * P.mass s.pid else dep1
      let r := cutLoop P dep2 rest
      (r.1, none :: r.2)
    else
      let r := cutLoop P dep rest
      (r.1, some s :: r.2)

structure InteractOut (α : Type) where
  e : α
  dep : α
  killed : Bool
  /-- `sim.step_limit({0, failure_action})` was applied -/
  failed : Bool
  secs : List (Option (Sec α))
deriving Repr, Inhabited

/-- `InteractionApplierBaseImpl::operator()` (energy / status / deposition / secondaries) -/
def applyInteraction (P : Particles α) (postCut : Bool) (e dep : α) (r : Interaction α) :
    InteractOut α :=
  match r.action with
  | .failed => ⟨e, dep, false, true, []⟩
  | .unchanged => ⟨e, dep, false, false, []⟩
  | a =>
    let killed := (a == IAction.absorbed)
    let (d, secs) := if postCut then cutLoop P r.edep r.secs else (r.edep, r.secs)
    ⟨r.energy, dep + d, killed, false, secs⟩

/-- `TrackingCutExecutor::operator()`: returns (energy', deposition') -/
def trackingCut (P : Particles α) (pid : Nat) (e dep : α) : α × α :=
  let deposited := if P.anti pid then e + (2 : α) * P.mass pid else e
  (e - e, dep + deposited)

/-! ### one step of one track, ledger view -/

/-- the energy-loss part of the along-step of this step -/
inductive ElossKind (α : Type)
  | none                              -- NoELoss / not applicable
  | mean (mean : α)                   -- MeanELoss with calc_mean_energy_loss = mean
  | fluct (mean sampled : α)          -- FluctELoss
deriving Repr, Inhabited

/-- the post-step action that ran for this track -/
inductive PostAct (α : Type)
  | none                              -- implicit action (range, rejection, fixed, propagation limit…)
  | boundary (exits : Bool)           -- BoundaryExecutor; `exits` = `geo.is_outside()` afterwards
  | interact (r : Interaction α)
  | trackingCut
deriving Repr, Inhabited

structure StepIn (α : Type) where
  applicable : Bool
  psaBoundary : Bool
  hasAtRest : Bool
  low : α
  eloss : ElossKind α
  postCut : Bool
  post : PostAct α
deriving Repr, Inhabited

inductive Fate | alive | escaped | killed
deriving DecidableEq, Repr, Inhabited

/-- what a step did: post-step energy, deposition of the step, emitted secondaries, fate, and
    the two booleans of the 2mc² bookkeeping -/
structure StepRec (α : Type) where
  e1 : α
  dep : α
  secs : List (Sec α)
  fate : Fate
  /-- the track's own 2mc² was accounted by this step (tracking cut adds it to the deposition;
      an absorbing interaction hands it to the interactor) -/
  released : Bool
  /-- killed by range-out without an at-rest process (an antiparticle's 2mc² is NOT accounted) -/
  rangeKilled : Bool
deriving Repr, Inhabited

def calcOf (e : α) (inp : StepIn α) : Bool → α :=
  match inp.eloss with
  | .none => fun _ => (0 : α)
  | .mean m => fun c => meanELoss e inp.low m c
  | .fluct m s => fun c => fluctELoss e inp.low m s c

def keepSecs : List (Option (Sec α)) → List (Sec α)
  | [] => []
  | none :: r => keepSecs r
  | some s :: r => s :: keepSecs r

/-- `eloss.is_applicable(track)` for the configured handler (NoELoss: never) -/
def elossOn (inp : StepIn α) : Bool :=
  match inp.eloss with
  | .none => false
  | _ => inp.applicable

/-- the ElossApplier part of the step; energy deposition was reset to 0 by pre-step -/
def alongStep (e : α) (inp : StepIn α) : ElossOut α :=
  elossApplier (elossOn inp) inp.psaBoundary inp.hasAtRest e (0 : α) (calcOf e inp)

/-- the post-step action applied to the state `a` left by the along-step -/
def postAct (P : Particles α) (pid : Nat) (inp : StepIn α) (a : ElossOut α) : StepRec α :=
  match inp.post with
  | .none => ⟨a.e, a.dep, [], .alive, false, false⟩
  | .boundary exits => ⟨a.e, a.dep, [], if exits then .escaped else .alive, false, false⟩
  | .trackingCut =>
    ⟨(trackingCut P pid a.e a.dep).1, (trackingCut P pid a.e a.dep).2, [], .killed, true, false⟩
  | .interact r =>
    ⟨(applyInteraction P inp.postCut a.e a.dep r).e, (applyInteraction P inp.postCut a.e a.dep r).dep,
      keepSecs (applyInteraction P inp.postCut a.e a.dep r).secs,
      if (applyInteraction P inp.postCut a.e a.dep r).killed then .killed else .alive,
      (applyInteraction P inp.postCut a.e a.dep r).killed, false⟩

/-- … skipped when ElossApplier killed the track (the range action is implicit) -/
def postStep (P : Particles α) (pid : Nat) (inp : StepIn α) (a : ElossOut α) : StepRec α :=
  match a.stop with
  | .killedRange => ⟨a.e, a.dep, [], .killed, false, true⟩
  | _ => postAct P pid inp a

/-- one step of one track -/
def stepLedger (P : Particles α) (pid : Nat) (e : α) (inp : StepIn α) : StepRec α :=
  postStep P pid inp (alongStep e inp)

/-! ### a track's step list and a whole event -/

/-- run a track's steps in order while it is alive; returns the step records -/
def runTrack (P : Particles α) (pid : Nat) : α → List (StepIn α) → List (StepRec α)
  | _, [] => []
  | e, inp :: rest =>
    let r := stepLedger P pid e inp
    match r.fate with
    | .alive => r :: runTrack P pid r.e1 rest
    | _ => [r]

/-- a live track (in a slot or waiting as an initializer): particle id + kinetic energy.
    `ProcessSecondariesExecutor` creates one per non-cleared secondary with
    `ti.particle.energy = secondary.energy`. -/
abbrev Tk (α : Type) := Sec α

structure Totals (α : Type) where
  dep : α            -- Σ energy deposition
  esc : α            -- Σ kinetic energy of tracks that left the world
  escRest : α        -- Σ 2mc² of antiparticles that left the world
  lostRest : α       -- Σ 2mc² of antiparticles killed by range-out without an at-rest process
deriving Repr, Inhabited

def rest2 (P : Particles α) (pid : Nat) : α := if P.anti pid then (2 : α) * P.mass pid else (0 : α)

/-- apply one step record of track number `i` of the live list -/
def eventStep (P : Particles α) (live : List (Tk α)) (tot : Totals α) (i : Nat) (inp : StepIn α) :
    List (Tk α) × Totals α :=
  match live[i]? with
  | none => (live, tot)
  | some t =>
    let r := stepLedger P t.pid t.e inp
    let others := live.eraseIdx i
    let tot1 : Totals α := { tot with dep := tot.dep + r.dep }
    match r.fate with
    | .alive => (⟨t.pid, r.e1⟩ :: (r.secs ++ others), tot1)
    | .escaped =>
      (r.secs ++ others, { tot1 with esc := tot1.esc + r.e1, escRest := tot1.escRest + rest2 P t.pid })
    | .killed =>
      (r.secs ++ others,
        if r.rangeKilled then { tot1 with lostRest := tot1.lostRest + rest2 P t.pid } else tot1)

/-- an event history: which live track steps next, with what inputs -/
def runEvent (P : Particles α) : List (Tk α) → Totals α → List (Nat × StepIn α) →
    List (Tk α) × Totals α
  | live, tot, [] => (live, tot)
  | live, tot, (i, inp) :: rest =>
    let s := eventStep P live tot i inp
    runEvent P s.1 s.2 rest

end CelerVerif.Ledger
