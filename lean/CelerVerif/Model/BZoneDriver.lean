/- Line protocol for bounding zones at `Float` (C++ side: harness/bzone.cc). -/
import CelerVerif.Model.BZone
import CelerVerif.Num.F64
import CelerVerif.Model.Util

namespace CelerVerif.BZone
open CelerVerif.Util

def fvol (p : (Float × Float × Float) × (Float × Float × Float)) : Float :=
  let ((lx, ly, lz), (ux, uy, uz)) := p
  -- T result{1}; result *= upper[ax] - lower[ax]
  ((1.0 * (ux - lx)) * (uy - ly)) * (uz - lz)

instance : BCoord Float where
  le a b := a ≤ b
  lt a b := a < b
  top := Float.ofBits 0x7ff0000000000000
  bot := Float.ofBits 0xfff0000000000000
  volGt a b := fvol a > fvol b

def pf (s : String) : Option Float := (parseHex s).map fun n => Float.ofBits (UInt64.ofNat n)
def hx (x : Float) : String := Float.toHexBits x

def showBox (b : Box Float) : String :=
  s!"{hx b.lo.x} {hx b.lo.y} {hx b.lo.z} {hx b.hi.x} {hx b.hi.y} {hx b.hi.z}"
def showZone (z : Zone Float) : String :=
  s!"{if z.negated then 1 else 0} {showBox z.interior} {showBox z.exterior}"

def parseBox : List Float → Option (Box Float)
  | [a, b, c, d, e, f] => some ⟨⟨a, b, c⟩, ⟨d, e, f⟩⟩
  | _ => none

/-- zone = `neg(0|1)` + 12 hex doubles -/
def parseZone : List String → Option (Zone Float)
  | n :: rest =>
    match rest.mapM pf with
    | some fs =>
      match parseBox (fs.take 6), parseBox (fs.drop 6) with
      | some i, some e => if n == "0" then some ⟨i, e, false⟩ else if n == "1" then some ⟨i, e, true⟩
                          else none
      | _, _ => none
    | none => none
  | [] => none

def driverStep (st : Unit) (line : String) : Unit × String :=
  (st, match words line with
  | op :: rest =>
    if op == "inter" || op == "union" then
      if rest.length == 26 then
        match parseZone (rest.take 13), parseZone (rest.drop 13) with
        | some a, some b => showZone (if op == "inter" then zoneInter a b else zoneUnion a b)
        | _, _ => "bad-op"
      else "bad-op"
    else if op == "extbbox" then
      match parseZone rest with
      | some z => if rest.length == 13 then showBox (exteriorBBox z) else "bad-op"
      | none => "bad-op"
    else if op == "negate" then
      match parseZone rest with
      | some z => if rest.length == 13 then showZone z.negate else "bad-op"
      | none => "bad-op"
    else "bad-op"
  | [] => "bad-op")

end CelerVerif.BZone
