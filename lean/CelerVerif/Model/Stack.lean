/-
Model of `corecel/data/StackAllocator.hh` (as written) and of the failure path of
`celeritas/phys/InteractionApplier.hh`.  No Mathlib (linked into `celer_model_c16`).

* `size_type` is a 32-bit unsigned: `atomic_add` and `start + count` wrap modulo 2^32.
* sequential semantics `alloc / clear / size / get`;
* interleaving semantics: every thread executes `fetchAdd`, `check`, `restore` as separate
  atomic steps; a schedule is a list of thread indices.
-/
namespace CelerVerif.Stack

/-- modulus of `size_type` -/
def W : Nat := 2 ^ 32

/-- value written by the default member initialiser of the element type (`placement new`) -/
def dflt : Nat := 0xdead

structure Stack where
  cap : Nat
  size : Nat
  storage : List Nat
deriving Repr, DecidableEq

def Stack.new (cap : Nat) : Stack := ⟨cap, 0, List.replicate cap 0⟩

/-- `storage[start .. start+n) := dflt` (the placement-new loop) -/
def initRange (l : List Nat) (start n : Nat) : List Nat :=
  (List.range n).foldl (fun acc i => acc.set (start + i) dflt) l

/-- `StackAllocator::operator()(count)`.  Returns the start index (the pointer) or `none`
    (nullptr).  `CELER_EXPECT(count > 0)` is a precondition, not checked in release. -/
def alloc (n : Nat) (s : Stack) : Option Nat × Stack :=
  let start := s.size
  -- size_type start = atomic_add(&size, count);
  let s1 := { s with size := (s.size + n) % W }
  -- if (start + count > storage.size())
  if (start + n) % W > s.cap then
    -- if (start <= capacity()) size = start;
    if start ≤ s.cap then (none, { s1 with size := start }) else (none, s1)
  else
    (some start, { s1 with storage := initRange s.storage start n })

def clear (s : Stack) : Stack := { s with size := 0 }

/-- `get()`: the span `[0, size)` -/
def get (s : Stack) : List Nat := s.storage.take s.size

/-! ### interleaving semantics -/

inductive Pc where
  | init
  | fetched (start : Nat)
  | restoring (start : Nat)
  | ok (start : Nat)
  | failed
deriving Repr, DecidableEq

structure Thread where
  n : Nat
  pc : Pc
deriving Repr, DecidableEq

structure Sys where
  cap : Nat
  size : Nat
  threads : List Thread
deriving Repr, DecidableEq

/-- one atomic step of one thread on the shared size: returns new shared size and thread -/
def stepThread (cap size : Nat) (t : Thread) : Nat × Thread :=
  match t.pc with
  | .init => ((size + t.n) % W, { t with pc := .fetched size })
  | .fetched a =>
    if (a + t.n) % W > cap then
      if a ≤ cap then (size, { t with pc := .restoring a }) else (size, { t with pc := .failed })
    else (size, { t with pc := .ok a })
  | .restoring a => (a, { t with pc := .failed })
  | .ok _ => (size, t)
  | .failed => (size, t)

/-- thread `i` takes one step (out-of-range index: nothing happens) -/
def sched (s : Sys) (i : Nat) : Sys :=
  match s.threads[i]? with
  | none => s
  | some t =>
    let r := stepThread s.cap s.size t
    { s with size := r.1, threads := s.threads.set i r.2 }

def run (s : Sys) (schedule : List Nat) : Sys := schedule.foldl sched s

def Thread.terminal (t : Thread) : Bool :=
  match t.pc with
  | .ok _ => true
  | .failed => true
  | _ => false

def quiescent (s : Sys) : Bool := s.threads.all Thread.terminal

/-! ### InteractionApplier (failure path and the rest, over an abstract number type) -/

inductive IAction where
  | scattered | absorbed | unchanged | failed
deriving Repr, DecidableEq

inductive TStatus where
  | alive | killed
deriving Repr, DecidableEq

structure Sec (α : Type) where
  valid : Bool          -- `explicit operator bool` (particle id assigned)
  anti : Bool           -- is_antiparticle
  energy : α
  mass : α
deriving Repr, DecidableEq

structure Interaction (α : Type) where
  action : IAction
  energy : α
  dir : α × α × α
  deposit : α
  secondaries : List (Sec α)

structure Track (α : Type) where
  energy : α
  dir : α × α × α
  status : TStatus
  deposit : α                -- PhysicsStepView energy deposition of this step
  secondaries : List (Sec α) -- PhysicsStepView secondaries of this step
  stepLen : α
  postAction : Nat
  allocSize : Nat            -- size of the shared secondary stack
deriving Repr, DecidableEq

def Sec.cleared {α} [OfNat α 0] : Sec α := ⟨false, false, 0, 0⟩

/-- `InteractionApplierBaseImpl::operator()` after `sample_interaction` returned `r`.
    `failureAction` = `phys.scalars().failure_action()`, `applyCut` =
    `cutoff.apply_post_interaction()`, `below s` = `cutoff.apply(s)`. -/
def applyInteraction {α} [Add α] [OfNat α 0] (lt : α → α → Bool) (failureAction : Nat)
    (applyCut : Bool) (below : Sec α → Bool) (r : Interaction α) (t : Track α) : Track α :=
  if r.action = .failed then
    -- sim.step_limit({0, failure_action}); return;
    -- SimTrackView::step_limit: only if `0 < step_length` are length and action replaced
    if lt 0 t.stepLen then { t with stepLen := 0, postAction := failureAction } else t
  else if r.action = .unchanged then t
  else
    let t1 := { t with energy := r.energy }
    let t2 := if r.action ≠ .absorbed then { t1 with dir := r.dir }
              else { t1 with status := .killed }
    let step := fun (acc : α × List (Sec α)) (s : Sec α) =>
      if applyCut && below s then
        let d := acc.1 + s.energy
        let d := if s.anti then d + (s.mass + s.mass) else d
        (d, acc.2 ++ [Sec.cleared])
      else (acc.1, acc.2 ++ [s])
    let res := r.secondaries.foldl step (r.deposit, [])
    { t2 with deposit := t2.deposit + res.1, secondaries := res.2 }

end CelerVerif.Stack
