/-
Executable model (generic in `Num α`) of `detail::SurfaceTransformer`
(src/orange/surf/detail/SurfaceTransformer.cc) with the promotions it goes through
(Plane{PlaneAligned}, CylAligned{CylCentered}, Sphere{SphereCentered}, SimpleQuadric{CylAligned},
SimpleQuadric{ConeAligned}, GeneralQuadric{SimpleQuadric}), the 4×4 congruence
Q' = R̃⁻ᵀ Q R̃⁻¹ with `gemm` of orange/MatrixUtils.cc (fma accumulation order), and the
composition of transforms (transform/detail/TransformTransformer.hh, TransformTranslator.hh).
No Mathlib import.
-/
import CelerVerif.Model.Surf

namespace CelerVerif.Surf
open CelerVerif
open scoped CelerVerif.Num

variable {α : Type} [Num α]

/-- `Array<real_type, 4>` -/
structure V4 (α : Type) where
  a0 : α
  a1 : α
  a2 : α
  a3 : α

/-- `SquareMatrix<real_type, 4>` (row major) -/
structure M4 (α : Type) where
  r0 : V4 α
  r1 : V4 α
  r2 : V4 α
  r3 : V4 α

def V4.get (v : V4 α) : Nat → α
  | 0 => v.a0 | 1 => v.a1 | 2 => v.a2 | _ => v.a3
def M4.row (m : M4 α) : Nat → V4 α
  | 0 => m.r0 | 1 => m.r1 | 2 => m.r2 | _ => m.r3
def M4.get (m : M4 α) (i j : Nat) : α := (m.row i).get j
def M4.ofFn (f : Nat → Nat → α) : M4 α :=
  ⟨⟨f 0 0, f 0 1, f 0 2, f 0 3⟩, ⟨f 1 0, f 1 1, f 1 2, f 1 3⟩,
   ⟨f 2 0, f 2 1, f 2 2, f 2 3⟩, ⟨f 3 0, f 3 1, f 3 2, f 3 3⟩⟩

/-- `gemm(a, b)`: result[i][j] = Σ_k fma(b[k][j], a[i][k], acc), k = 0..3 from 0 -/
def gemm4 (a b : M4 α) : M4 α := M4.ofFn fun i j =>
  Num.fma (b.get 3 j) (a.get i 3) (Num.fma (b.get 2 j) (a.get i 2) (Num.fma (b.get 1 j) (a.get i 1)
    (Num.fma (b.get 0 j) (a.get i 0) (0 : α))))

/-- `gemm(matrix::transpose, a, b)`: result[i][j] = Σ_k fma(b[k][j], a[k][i], acc) -/
def gemm4T (a b : M4 α) : M4 α := M4.ofFn fun i j =>
  Num.fma (b.get 3 j) (a.get 3 i) (Num.fma (b.get 2 j) (a.get 2 i) (Num.fma (b.get 1 j) (a.get 1 i)
    (Num.fma (b.get 0 j) (a.get 0 i) (0 : α))))

/-- 3×3 `gemm(a, b)` (composition of rotations) -/
def gemm3 (a b : Mat3 α) : Mat3 α :=
  let e (i j : Nat) : α :=
    Num.fma ((b.row 2).get j) ((a.row i).get 2) (Num.fma ((b.row 1).get j) ((a.row i).get 1)
      (Num.fma ((b.row 0).get j) ((a.row i).get 0) (0 : α)))
  ⟨⟨e 0 0, e 0 1, e 0 2⟩, ⟨e 1 0, e 1 1, e 1 2⟩, ⟨e 2 0, e 2 1, e 2 2⟩⟩

/-- the inverse-transform matrix `tr_inv` built by `SurfaceTransformer(GeneralQuadric)`:
    first column (1, Rᵀ(0 − t)), lower-right block Rᵀ -/
def trInv (t : Transformation α) : M4 α :=
  let trans := t.rotDown (⟨(0 : α) - t.tra.x, (0 : α) - t.tra.y, (0 : α) - t.tra.z⟩ : Vec3 α)
  let r := t.rot
  ⟨⟨(1 : α), (0 : α), (0 : α), (0 : α)⟩,
   ⟨trans.x, r.r0.x, r.r1.x, r.r2.x⟩,
   ⟨trans.y, r.r0.y, r.r1.y, r.r2.y⟩,
   ⟨trans.z, r.r0.z, r.r1.z, r.r2.z⟩⟩

/-- `calc_q`: the symmetric 4×4 matrix of a general quadric -/
def quadricMatrix (a b c d e f g h i j : α) : M4 α :=
  let two : α := 2
  let cx := d / two; let cy := e / two; let cz := f / two
  let fx := g / two; let fy := h / two; let fz := i / two
  ⟨⟨j, fx, fy, fz⟩, ⟨fx, a, cx, cz⟩, ⟨fy, cx, b, cy⟩, ⟨fz, cz, cy, c⟩⟩

/-- `SurfaceTransformer::operator()(GeneralQuadric)` -/
def transformGQ (t : Transformation α) (a b c d e f g h i j : α) : Surface α :=
  let ti := trInv t
  let qrinv := gemm4 (quadricMatrix a b c d e f g h i j) ti
  let qp := gemm4T ti qrinv
  let two : α := 2
  .generalQuadric (qp.get 1 1) (qp.get 2 2) (qp.get 3 3) (two * qp.get 1 2) (two * qp.get 2 3)
    (two * qp.get 1 3) (two * qp.get 0 1) (two * qp.get 0 2) (two * qp.get 0 3) (qp.get 0 0)

/-- `SimpleQuadric{CylAligned<T>}` as (second, first, zeroth) -/
def sqOfCyl (ax : Axis) (ou ov r2 : α) : Vec3 α × Vec3 α × α :=
  let z3 : Vec3 α := ⟨0, 0, 0⟩
  let sec := (z3.set ax.U.toNat (1 : α)).set ax.V.toNat (1 : α)
  let fst := (z3.set ax.U.toNat ((-(2 : α)) * ou)).set ax.V.toNat ((-(2 : α)) * ov)
  (sec, fst, (-r2) + Num.sq ou + Num.sq ov)

/-- `SimpleQuadric{ConeAligned<T>}` -/
def sqOfCone (ax : Axis) (o : Vec3 α) (tsq : α) : Vec3 α × Vec3 α × α :=
  let z3 : Vec3 α := ⟨0, 0, 0⟩
  let sec := ((z3.set ax.toNat (-tsq)).set ax.U.toNat (1 : α)).set ax.V.toNat (1 : α)
  let fst := ((z3.set ax.toNat ((2 : α) * o.ax ax * tsq)).set ax.U.toNat ((-(2 : α)) * o.ax ax.U)).set
    ax.V.toNat ((-(2 : α)) * o.ax ax.V)
  (sec, fst, (-tsq) * Num.sq (o.ax ax) + Num.sq (o.ax ax.U) + Num.sq (o.ax ax.V))

def transformSQ (t : Transformation α) (q : Vec3 α × Vec3 α × α) : Surface α :=
  transformGQ t q.1.x q.1.y q.1.z (0 : α) (0 : α) (0 : α) q.2.1.x q.2.1.y q.2.1.z q.2.2

/-- `SurfaceTransformer::operator()(Plane)` -/
def transformPlane (t : Transformation α) (n : Vec3 α) (d : α) : Surface α :=
  let normal := t.rotUp n
  let point := t.up (⟨n.x * d, n.y * d, n.z * d⟩ : Vec3 α)
  .plane normal (Vec3.dot normal point)

/-- `SurfaceTransformer{transformation}(surface)` for every quadric class -/
def Surface.transform (t : Transformation α) (s : Surface α) : Surface α :=
  match s with
  | .planeAligned ax p => transformPlane t ((⟨0, 0, 0⟩ : Vec3 α).set ax.toNat (1 : α)) p
  | .plane n d => transformPlane t n d
  | .sphereCentered r2 => .sphere (t.up (⟨0, 0, 0⟩ : Vec3 α)) r2
  | .sphere o r2 => .sphere (t.up o) r2
  | .cylCentered ax r2 => transformSQ t (sqOfCyl ax (0 : α) (0 : α) r2)
  | .cylAligned ax ou ov r2 => transformSQ t (sqOfCyl ax ou ov r2)
  | .coneAligned ax o tsq => transformSQ t (sqOfCone ax o tsq)
  | .simpleQuadric a b c d e f g => transformGQ t a b c (0 : α) (0 : α) (0 : α) d e f g
  | .generalQuadric a b c d e f g h i j => transformGQ t a b c d e f g h i j

/-- `VariantTransform`: NoTransformation / Translation / Transformation -/
inductive Xform (α : Type) where
  | none
  | tra (t : Vec3 α)
  | full (t : Transformation α)
deriving Inhabited

/-- `apply_transform(transform, surface)` -/
def Xform.applySurf (x : Xform α) (s : Surface α) : Surface α :=
  match x with
  | .none => s
  | .tra t => s.translate t
  | .full t => s.transform t

/-- local → parent coordinates / parent → local coordinates of a `VariantTransform` -/
def Xform.up (x : Xform α) (p : Vec3 α) : Vec3 α :=
  match x with
  | .none => p
  | .tra t => translateUp t p
  | .full t => t.up p
def Xform.down (x : Xform α) (p : Vec3 α) : Vec3 α :=
  match x with
  | .none => p
  | .tra t => translateDown t p
  | .full t => t.down p

/-- `apply_transform(left, right)`: the daughter-to-parent transform `left ∘ right`
    (TransformTranslator / TransformTransformer) -/
def Xform.compose (left right : Xform α) : Xform α :=
  match left, right with
  | .none, r => r
  | .tra a, .none => .tra a
  | .tra a, .tra b => .tra (Vec3.add b a)
  | .tra a, .full b => .full ⟨b.rot, Vec3.add b.tra a⟩
  | .full a, .none => .full a
  | .full a, .tra b => .full ⟨a.rot, a.up b⟩
  | .full a, .full b => .full ⟨gemm3 a.rot b.rot, a.up b.tra⟩

end CelerVerif.Surf
