/-
A small JSON value type mirroring what the nlohmann::json accessors used by the ORANGE
JSON I/O can observe, plus the one-line canonical text syntax "CJ" shared with
harness/orangeio.cc (doubles only ever appear as 16-hex-digit bit patterns `#h16`).

  v := null | true | false | INT | #HHHHHHHHHHHHHHHH | "chars" | [v,...] | {"k":v,...}

No Mathlib (linked into the model driver).
-/
import CelerVerif.Model.Util

namespace CelerVerif.Json
open CelerVerif.Util

/-- IEEE-754 binary64 values are opaque bit patterns in this model. -/
abbrev F64 := UInt64

/-- JSON value. `int` merges nlohmann's number_unsigned / number_integer (range
    [-2^63, 2^64)); `dbl` is number_float; objects keep a key list (printed sorted). -/
inductive Json where
  | null
  | bool (b : Bool)
  | int (i : Int)
  | dbl (bits : F64)
  | str (s : String)
  | arr (xs : List Json)
  | obj (kvs : List (String × Json))
  deriving Inhabited

/-- how the real code fails -/
inductive Err where
  | json        -- nlohmann::json::exception (type_error / out_of_range)
  | validate    -- celeritas::RuntimeError (CELER_VALIDATE, CELER_NOT_IMPLEMENTED)
  | debug       -- celeritas::DebugError (not produced by the modelled code paths)
  | ub          -- the release build has undefined behaviour here (CELER_ASSERT compiled out)
  deriving DecidableEq, Repr, Inhabited

abbrev R := Except Err

def Err.toString : Err → String
  | .json => "json" | .validate => "validate" | .debug => "debug" | .ub => "ub"

/-! ### bit-pattern facts about doubles (the only floating-point semantics needed) -/

def posInf : F64 := 0x7FF0000000000000
def negInf : F64 := 0xFFF0000000000000
def posMax : F64 := 0x7FEFFFFFFFFFFFFF
def negMax : F64 := 0xFFEFFFFFFFFFFFFF
def absMask : F64 := 0x7FFFFFFFFFFFFFFF
def signBit : F64 := 0x8000000000000000
def oneBits : F64 := 0x3FF0000000000000

/-- the 63 low bits (exponent and fraction), i.e. the bit pattern of |x| -/
def absBits (b : F64) : Nat := b.toNat % 9223372036854775808

def isNaN (b : F64) : Bool := decide (absBits b > 0x7FF0000000000000)
def isFinite (b : F64) : Bool := decide (absBits b < 0x7FF0000000000000)
def isInf (b : F64) : Bool := decide (absBits b = 0x7FF0000000000000)
/-- `x == 0.0` (both zeros) -/
def isZero (b : F64) : Bool := decide (absBits b = 0)

/-- order key of a non-NaN double: `a ≤ b` as doubles iff `key a ≤ key b` (−0 and +0 equal) -/
def f64key (b : F64) : Int :=
  if b.toNat < 9223372036854775808 then Int.ofNat b.toNat else - Int.ofNat (absBits b)

def f64le (a b : F64) : Bool := !isNaN a && !isNaN b && decide (f64key a ≤ f64key b)
def f64lt (a b : F64) : Bool := !isNaN a && !isNaN b && decide (f64key a < f64key b)

/-- `std::isinf(x) ? copysign(max, x) : x` -/
def infToMax (b : F64) : F64 :=
  if b == posInf then posMax else if b == negInf then negMax else b
/-- `fabs(x) == max ? copysign(inf, x) : x` -/
def maxToInf (b : F64) : F64 :=
  if b == posMax then posInf else if b == negMax then negInf else b

/-- `static_cast<double>(int64/uint64)` (exact below 2^53, else the hardware's
    round-to-nearest; `Float.ofInt` is the same conversion for 64-bit values) -/
def intToF64 (i : Int) : F64 := (Float.ofInt i).toBits

/-- truncation of a double toward zero as done by `static_cast<std::size_t>(double)`;
    `none` when the C++ conversion is undefined (NaN, negative <= -1, out of range) -/
def f64TruncU64 (b : F64) : Option UInt64 :=
  let e := ((b >>> 52) &&& 0x7FF).toNat
  let frac := (b &&& 0x000FFFFFFFFFFFFF).toNat
  let neg := (b &&& signBit) != 0
  if e < 1023 then some 0
  else if e ≥ 1023 + 64 then none
  else
    let m := if e ≥ 1075 then (2 ^ 52 + frac) <<< (e - 1075) else (2 ^ 52 + frac) >>> (1075 - e)
    if neg then none else some (UInt64.ofNat m)

/-! ### accessors mirroring nlohmann::json -/

def lookup (k : String) : List (String × Json) → Option Json
  | [] => none
  | (k', v) :: rest => if k' = k then some v else lookup k rest

namespace Json

/-- `j.find(k)` / `j.contains(k)`: on a non-object there is nothing to find -/
def find? (j : Json) (k : String) : Option Json :=
  match j with
  | .obj kvs => lookup k kvs
  | _ => none

/-- `j.at(k)`: type_error on non-objects, out_of_range on a missing key -/
def atKey (j : Json) (k : String) : R Json :=
  match j.find? k with
  | some v => .ok v
  | none => .error .json

/-- `get<std::string>()` -/
def getStr : Json → R String
  | .str s => .ok s
  | _ => .error .json

/-- `get<double>()`: numbers only (booleans are rejected for number_float_t) -/
def getReal : Json → R F64
  | .dbl b => .ok b
  | .int i => .ok (intToF64 i)
  | _ => .error .json

/-- `get<size_type>()` with `size_type = std::size_t` (host build): this is nlohmann's own
    number_unsigned_t, so numbers only (booleans are a type_error); int64 wraps mod 2^64.
    Also the conversion to `enum class ZOrder : size_type`. -/
def getU64 : Json → R UInt64
  | .int i => .ok (UInt64.ofNat (i % 18446744073709551616).toNat)
  | .dbl b => match f64TruncU64 b with
    | some v => .ok v
    | none => .error .ub
  | _ => .error .json

/-- `get<int>()` whose value is only logged: numbers and booleans accepted -/
def checkInt : Json → R Unit
  | .int _ => .ok ()
  | .bool _ => .ok ()
  | .dbl _ => .ok ()
  | _ => .error .json

/-- `get<std::vector<T>>()` first requires an array -/
def getArr : Json → R (List Json)
  | .arr xs => .ok xs
  | _ => .error .json

/-- the values visited by `for (auto const& t : j)` -/
def iterValues : Json → List Json
  | .arr xs => xs
  | .obj kvs => kvs.map (·.2)      -- (sorted by key in nlohmann; only used on arrays here)
  | .null => []
  | j => [j]

/-- `j.size()` -/
def size : Json → Nat
  | .arr xs => xs.length
  | .obj kvs => kvs.length
  | .null => 0
  | _ => 1

end Json

/-- `List.mapM` in `Except`, structurally (first error wins, left to right) -/
def mapE {α β : Type} (f : α → R β) : List α → R (List β)
  | [] => .ok []
  | x :: xs => match f x with
    | .error e => .error e
    | .ok y => match mapE f xs with
      | .error e => .error e
      | .ok ys => .ok (y :: ys)

def Json.getRealList (j : Json) : R (List F64) :=
  match j.getArr with
  | .error e => .error e
  | .ok xs => mapE Json.getReal xs

def Json.getU64List (j : Json) : R (List UInt64) :=
  match j.getArr with
  | .error e => .error e
  | .ok xs => mapE Json.getU64 xs

def Json.getStrList (j : Json) : R (List String) :=
  match j.getArr with
  | .error e => .error e
  | .ok xs => mapE Json.getStr xs

/-! ### CJ text: printer (keys sorted) and parser -/

def insertSorted (kv : String × Json) : List (String × Json) → List (String × Json)
  | [] => [kv]
  | kv' :: rest => if kv.1 < kv'.1 then kv :: kv' :: rest else kv' :: insertSorted kv rest

def sortKeys (kvs : List (String × Json)) : List (String × Json) :=
  kvs.foldr insertSorted []

def escapeChar (c : Char) : String :=
  if c = '"' then "\\\"" else if c = '\\' then "\\\\" else if c = '\n' then "\\n"
  else if c = '\t' then "\\t"
  else if c.toNat < 0x20 ∨ c.toNat > 0x7e then "\\u" ++ toHex 4 c.toNat
  else String.singleton c

def escapeString (s : String) : String :=
  "\"" ++ String.join (s.toList.map escapeChar) ++ "\""

def intToString (i : Int) : String :=
  match i with
  | .ofNat n => toString n
  | .negSucc n => "-" ++ toString (n + 1)

partial def Json.toCJ : Json → String
  | .null => "null"
  | .bool true => "true"
  | .bool false => "false"
  | .int i => intToString i
  | .dbl b => "#" ++ toHex 16 b.toNat
  | .str s => escapeString s
  | .arr xs => "[" ++ ",".intercalate (xs.map Json.toCJ) ++ "]"
  | .obj kvs => "{" ++ ",".intercalate ((sortKeys kvs).map fun (k, v) =>
      escapeString k ++ ":" ++ v.toCJ) ++ "}"

/-- parse a string literal body after the opening quote; returns (string, rest) -/
partial def parseStringBody (acc : List Char) : List Char → Option (String × List Char)
  | '"' :: rest => some (String.ofList acc.reverse, rest)
  | '\\' :: '"' :: rest => parseStringBody ('"' :: acc) rest
  | '\\' :: '\\' :: rest => parseStringBody ('\\' :: acc) rest
  | '\\' :: 'n' :: rest => parseStringBody ('\n' :: acc) rest
  | '\\' :: 't' :: rest => parseStringBody ('\t' :: acc) rest
  | '\\' :: 'u' :: a :: b :: c :: d :: rest =>
    match parseHex (String.ofList [a, b, c, d]) with
    | some n => parseStringBody (Char.ofNat n :: acc) rest
    | none => none
  | '\\' :: _ => none
  | c :: rest => parseStringBody (c :: acc) rest
  | [] => none

def takeDigits : List Char → List Char × List Char
  | c :: rest => if c.isDigit then let (ds, r) := takeDigits rest; (c :: ds, r) else ([], c :: rest)
  | [] => ([], [])

def digitsToNat (ds : List Char) : Nat :=
  ds.foldl (fun a c => 10 * a + (c.toNat - '0'.toNat)) 0

mutual
partial def parseValue : List Char → Option (Json × List Char)
  | 'n' :: 'u' :: 'l' :: 'l' :: rest => some (.null, rest)
  | 't' :: 'r' :: 'u' :: 'e' :: rest => some (.bool true, rest)
  | 'f' :: 'a' :: 'l' :: 's' :: 'e' :: rest => some (.bool false, rest)
  | '#' :: rest =>
    let h := rest.take 16
    if h.length = 16 then
      match parseHex (String.ofList h) with
      | some n => some (.dbl (UInt64.ofNat n), rest.drop 16)
      | none => none
    else none
  | '"' :: rest =>
    match parseStringBody [] rest with
    | some (s, r) => some (.str s, r)
    | none => none
  | '[' :: ']' :: rest => some (.arr [], rest)
  | '[' :: rest => parseElems [] rest
  | '{' :: '}' :: rest => some (.obj [], rest)
  | '{' :: rest => parseMembers [] rest
  | '-' :: rest =>
    let (ds, r) := takeDigits rest
    if ds.isEmpty then none
    else
      let n := digitsToNat ds
      if n ≤ 2 ^ 63 then some (.int (- Int.ofNat n), r) else none
  | c :: rest =>
    if c.isDigit then
      let (ds, r) := takeDigits (c :: rest)
      let n := digitsToNat ds
      if n < 2 ^ 64 then some (.int (Int.ofNat n), r) else none
    else none
  | [] => none

partial def parseElems (acc : List Json) (cs : List Char) : Option (Json × List Char) :=
  match parseValue cs with
  | some (v, ',' :: rest) => parseElems (v :: acc) rest
  | some (v, ']' :: rest) => some (.arr (v :: acc).reverse, rest)
  | _ => none

partial def parseMembers (acc : List (String × Json)) (cs : List Char) :
    Option (Json × List Char) :=
  match cs with
  | '"' :: rest =>
    match parseStringBody [] rest with
    | some (k, ':' :: rest') =>
      match parseValue rest' with
      | some (v, ',' :: r) => parseMembers ((k, v) :: acc) r
      | some (v, '}' :: r) => some (.obj ((k, v) :: acc).reverse, r)
      | _ => none
    | _ => none
  | _ => none
end

/-- parse a complete CJ text (nothing may follow the value) -/
def parseCJ (s : String) : Option Json :=
  match parseValue s.toList with
  | some (v, []) => some v
  | _ => none

end CelerVerif.Json
