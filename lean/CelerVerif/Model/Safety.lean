/-
Executable model (generic in `Num α`) of the ORANGE safety-distance path, as written:
  src/orange/univ/detail/SurfaceFunctors.hh   `CalcSafetyDistance`
  src/orange/surf/*.hh                         `simple_safety()` per class
  src/orange/univ/SimpleUnitTracker.hh         `safety(pos, vol)` (flag gate, min over faces)
  src/orange/univ/RectArrayTracker.hh          `safety(pos, vol)`
  src/orange/detail/UnitInserter.cc            `insert_volume` flag, `supports_simple_safety`
  src/orange/OrangeTrackView.hh                `find_safety()`, `find_safety(max_step)` (min over levels; the per-level
                                               position is the transform-down chain of `operator=`)
  corecel/math/Algorithms.hh                   `min_element`, `min` (= `std::fmin` for reals)
Built on Model/Surf.lean (calc_normal / calc_sense / calc_intersections are the C12 model).
`+∞` (`numeric_limits<real_type>::infinity()`, `no_intersection()`) is `none`.
-/
import CelerVerif.Model.Surf

namespace CelerVerif.Safety
open CelerVerif CelerVerif.Surf
open scoped CelerVerif.Num

variable {α : Type} [Num α]

/-- `std::isnan(x)` (`x != x`) -/
def isNaN (x : α) : Bool := !Num.eq x x

/-- `S::simple_safety()` of each surface class -/
def simpleSafety : Surface α → Bool
  | .planeAligned .. => true
  | .plane .. => true
  | .cylCentered .. => true
  | .cylAligned .. => false
  | .sphereCentered .. => true
  | .sphere .. => true
  | .coneAligned .. => false
  | .simpleQuadric .. => false
  | .generalQuadric .. => false

/-- `*celeritas::min_element(intersect.begin(), intersect.end())` over the one/two-slot
    intersection array (`none` = +∞ stored in the slot).  The loop keeps the first element
    unless a later one compares `<` to it. -/
def minElement2 : Isect2 α → Option α
  | (none, none) => none
  | (some a, none) => some a                                   -- inf < a is false
  | (none, some b) => if isNaN b then none else some b         -- b < inf unless NaN (or b = inf)
  | (some a, some b) => if Num.lt b a then some b else some a

/-- `for (real_type& d : dir) d *= -1;` -/
def flipDir (d : Vec3 α) : Vec3 α := ⟨d.x * (-(1 : α)), d.y * (-(1 : α)), d.z * (-(1 : α))⟩

/-- body of `CalcSafetyDistance::operator()` after the `simple_safety()` gate -/
def calcSafetyCore (s : Surface α) (pos : Vec3 α) : Option α :=
  let dir := s.calcNormal pos
  if isNaN dir.x then none
  else
    match s.calcSense pos with
    | .on => some (0 : α)
    | .outside => minElement2 (s.calcIntersections pos (flipDir dir) false)
    | .inside => minElement2 (s.calcIntersections pos dir false)

/-- `CalcSafetyDistance{pos}(surf)` -/
def calcSafety (s : Surface α) (pos : Vec3 α) : Option α :=
  if !simpleSafety s then some (0 : α) else calcSafetyCore s pos

/-- `celeritas::min(a, b)` for floating point = `std::fmin(a, b)` (a NaN operand is ignored) -/
def fminO : Option α → Option α → Option α
  | none, none => none
  | none, some b => if isNaN b then none else some b
  | some a, none => if isNaN a then none else some a
  | some a, some b =>
    if isNaN a then some b else if isNaN b then some a
    else if Num.lt b a then some b else some a

/-! ### volume flags (`VolumeRecord::Flags`) -/
def flagInternalSurfaces : Nat := 1
def flagImplicitVol : Nat := 2
def flagSimpleSafety : Nat := 4

/-- `UnitInserter::insert_volume`: `output.flags = v.flags; if (all faces simple) flags |= simple_safety` -/
def insertVolumeFlags (inFlags : Nat) (faces : List (Surface α)) : Nat :=
  if faces.all simpleSafety then inFlags ||| flagSimpleSafety else inFlags

/-- `supports_simple_safety(flags)` (UnitInserter.cc) -/
def supportsSimpleSafety (flags : Nat) : Bool :=
  (flags &&& flagImplicitVol != 0)
    || ((flags &&& flagSimpleSafety != 0) && !(flags &&& flagInternalSurfaces != 0))

/-- `VolumeView::simple_safety()` -/
def volSimpleSafety (flags : Nat) : Bool := flags &&& flagSimpleSafety != 0

/-- `SimpleUnitTracker::safety(pos, vol)` -/
def volumeSafety (flags : Nat) (faces : List (Surface α)) (pos : Vec3 α) : Option α :=
  if !volSimpleSafety flags then some (0 : α)
  else faces.foldl (fun acc s => fminO acc (calcSafety s pos)) none

/-! ### rectangular array -/

/-- `HyperslabInverseIndexer<3>{dims}(index)` -/
def rectCoords (d1 d2 : Nat) (idx : Nat) : Nat × Nat × Nat :=
  (idx / (d1 * d2), (idx / d2) % d1, idx % d2)

/-- grid value seen by the tracker: `RectArrayInserter` overwrites `grid.front()` / `grid.back()`
    by ∓∞ ("suppress the outer grid boundaries"); `none` = infinite -/
def rectTarget (g : List α) (k : Nat) : Option α :=
  if k == 0 || k + 1 == g.length then none else some (g.getD k (0 : α))

/-- `min_dist = min(min_dist, std::fabs(pos[ax] - target))` (|finite − ±∞| = +∞) -/
def rectStep (acc : Option α) (g : List α) (k : Nat) (p : α) : Option α :=
  match rectTarget g k with
  | none => fminO acc none
  | some t => fminO acc (some (Num.abs (p - t)))

/-- `RectArrayTracker::safety(pos, vol)`: `gx gy gz` are the three input plane-position arrays -/
def rectSafety (gx gy gz : List α) (volid : Nat) (pos : Vec3 α) : Option α :=
  let c := rectCoords (gy.length - 1) (gz.length - 1) volid
  let acc := rectStep (rectStep none gx c.1 pos.x) gx (c.1 + 1) pos.x
  let acc := rectStep (rectStep acc gy c.2.1 pos.y) gy (c.2.1 + 1) pos.y
  rectStep (rectStep acc gz c.2.2 pos.z) gz (c.2.2 + 1) pos.z

/-! ### levels -/

/-- parent-to-daughter transform variants (`TransformType`) -/
inductive LevelXf (α : Type) where
  | noTransformation
  | translation (tra : Vec3 α)
  | transformation (t : Transformation α)
deriving Repr, Inhabited

/-- `t.transform_down(pos)` -/
def LevelXf.down : LevelXf α → Vec3 α → Vec3 α
  | .noTransformation, p => p
  | .translation tra, p => translateDown tra p
  | .transformation t, p => t.down p

/-- what the tracker of one level needs for `safety(lsa.pos(), lsa.vol())` -/
inductive LevelGeom (α : Type) where
  | unit (flags : Nat) (faces : List (Surface α))
  | rect (gx gy gz : List α) (volid : Nat)
deriving Repr, Inhabited

def LevelGeom.safety : LevelGeom α → Vec3 α → Option α
  | .unit flags faces, p => volumeSafety flags faces p
  | .rect gx gy gz v, p => rectSafety gx gy gz v p

structure Level (α : Type) where
  xf : LevelXf α          -- transform from the parent level (level 0: `noTransformation`)
  geom : LevelGeom α
deriving Repr, Inhabited

/-- local position of every level: the transform-down chain applied by `operator=(Initializer)` -/
def levelPositions : List (Level α) → Vec3 α → List (Vec3 α)
  | [], _ => []
  | l :: ls, p => let p' := l.xf.down p; p' :: levelPositions ls p'

/-- `OrangeTrackView::find_safety()` -/
def findSafetyFrom (acc : Option α) : List (Level α) → Vec3 α → Option α
  | [], _ => acc
  | l :: ls, p =>
    let p' := l.xf.down p
    findSafetyFrom (fminO acc (l.geom.safety p')) ls p'

def findSafety (levels : List (Level α)) (pos : Vec3 α) : Option α :=
  findSafetyFrom none levels pos

/-! ### per-level state: `find_safety` reads only the stored per-level positions -/

/-- `t.rotate_down(dir)` -/
def LevelXf.rotDown : LevelXf α → Vec3 α → Vec3 α
  | .noTransformation, d => d
  | .translation _, d => d
  | .transformation t, d => t.rotDown d

/-- local direction of every level: the rotate-down chain written by `set_dir` (and by
    `operator=(Initializer)`) -/
def levelDirections : List (Level α) → Vec3 α → List (Vec3 α)
  | [], _ => []
  | l :: ls, d => let d' := l.xf.rotDown d; d' :: levelDirections ls d'

/-- `find_safety()` as the code evaluates it: min over levels of `t.safety(lsa.pos(), lsa.vol())`
    on the STORED per-level positions -/
def findSafetyAtFrom (acc : Option α) : List (Level α) → List (Vec3 α) → Option α
  | l :: ls, p :: ps => findSafetyAtFrom (fminO acc (l.geom.safety p)) ls ps
  | _, _ => acc

def findSafetyAt (levels : List (Level α)) (ps : List (Vec3 α)) : Option α :=
  findSafetyAtFrom none levels ps

/-- `move_internal(dist)`: `axpy(dist, lsa.dir(), &lsa.pos())` at every level -/
def moveInternal (dist : α) : List (Vec3 α) → List (Vec3 α) → List (Vec3 α)
  | d :: ds, p :: ps => Vec3.axpy dist d p :: moveInternal dist ds ps
  | _, _ => []

/-- `OrangeTrackView::find_safety(real_type max_step)` — the overload Urban MSC calls.  As
    written: `return this->find_safety();` ("we currently support only simple safety distances,
    we can't eliminate anything by checking only nearby surfaces"): the argument is ignored, every
    level is visited, and neither tracker's `safety(pos, vol)` takes a maximum distance.
    (tools/gen/safety.py pattern-checks exactly this body on every run.) -/
def findSafetyMax (_maxStep : α) (levels : List (Level α)) (pos : Vec3 α) : Option α :=
  findSafety levels pos

end CelerVerif.Safety
