/- Line protocol for the Reindex model (C++ side: harness/repro.cc, ops `sort…`, `count`). -/
import CelerVerif.Model.Reindex
import CelerVerif.Model.Util

namespace CelerVerif.Reindex
open CelerVerif.Util

def parseIdDec (s : String) : Option Id :=
  if s == "x" then some none else s.toNat?.map some

def allSome {β : Type} : List (Option β) → Option (List β)
  | [] => some []
  | none :: _ => none
  | some x :: r => (allSome r).map (x :: ·)

def showOpt : Option Nat → String
  | none => "x"
  | some n => toString n

def showList (l : List Nat) : String := " ".intercalate (l.map toString)

/-- ops (all numbers decimal, `x` = invalid id):
    `partition <slots…> / <status per slot (0 = inactive)…>`
    `sort <slots…> / <key per slot…>`                    (≤ 16 elements: exact)
    `sortc <slots…> / <key per slot…>`                   (canonical: keys along threads)
    `count <numActions> <key per thread…>`               (count_tracks_per_action + backfill)
    `backfill <size> <offsets…>` -/
def driverStep (s : Unit) (line : String) : Unit × String :=
  match words line with
  | "partition" :: ws =>
    let a := ws.takeWhile (· != "/")
    let b := (ws.dropWhile (· != "/")).drop 1
    match allSome (a.map String.toNat?), allSome (b.map String.toNat?) with
    | some slots, some status =>
      if slots.any (· ≥ status.length) then (s, "bad-op") else
      (s, "slots " ++ showList (partitionStd (fun x => status.getD x 0 != 0) slots))
    | _, _ => (s, "bad-op")
  | "sort" :: ws =>
    let a := ws.takeWhile (· != "/")
    let b := (ws.dropWhile (· != "/")).drop 1
    match allSome (a.map String.toNat?), allSome (b.map parseIdDec) with
    | some slots, some keys =>
      if slots.any (· ≥ keys.length) || slots.length > 16 then (s, "bad-op") else
      (s, "slots " ++ showList (sortByKey (fun x => keys.getD x none) slots))
    | _, _ => (s, "bad-op")
  | "sortc" :: ws =>
    let a := ws.takeWhile (· != "/")
    let b := (ws.dropWhile (· != "/")).drop 1
    match allSome (a.map String.toNat?), allSome (b.map parseIdDec) with
    | some slots, some keys =>
      if slots.any (· ≥ keys.length) then (s, "bad-op") else
      let sorted := sortByKey (fun x => keys.getD x none) slots
      (s, "keys " ++ " ".intercalate (sorted.map fun x => showOpt (keys.getD x none)))
    | _, _ => (s, "bad-op")
  | "count" :: na :: ws =>
    match na.toNat?, allSome (ws.map parseIdDec) with
    | some na, some keys =>
      if keys.isEmpty || keys.any (fun k => match k with | some a => a ≥ na | none => false)
      then (s, "bad-op")
      else (s, "offsets " ++ " ".intercalate ((countTracksPerAction keys na).map showOpt))
    | _, _ => (s, "bad-op")
  | "backfill" :: sz :: ws =>
    match sz.toNat?, allSome (ws.map parseIdDec) with
    | some sz, some offs =>
      if offs.length < 2 then (s, "bad-op") else
      (s, "offsets " ++ " ".intercalate ((backfill offs sz).map showOpt))
    | _, _ => (s, "bad-op")
  | _ => (s, "bad-op")

end CelerVerif.Reindex
